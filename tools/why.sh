#!/bin/bash
# usage: tools/why.sh <patch> PROP...   -- show failing rule instances of PROP on a scratch copy with the patch applied
P=$1; shift; cd /verif
T=$(mktemp -d); cp -r /repo/src /repo/Cargo.toml /repo/Cargo.lock /repo/README.md $T/
PP=$(cd /verif && realpath $P); (cd $T && patch -p1 -s < $PP) || { echo "patch failed"; rm -rf $T; exit 1; }
for p in "$@"; do /verif/check $p --repo $T --no-evidence -v 2>&1 | grep "^FAIL" | cut -c1-700; done
echo "TREE=$T (remove when done)"

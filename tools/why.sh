#!/bin/bash
# usage: tools/why.sh <patch> PROP...   -- show failing rule instances of PROP on a scratch copy with the patch applied
V=$(cd "$(dirname "$0")/.." && pwd)
P=$(realpath $1); shift
T=$(mktemp -d /tmp/why.XXXXXX); cp -r /repo/src /repo/Cargo.toml /repo/Cargo.lock /repo/README.md $T/
(cd $T && patch -p1 -s < $P) || { echo "patch failed"; rm -rf $T; exit 1; }
for p in "$@"; do $V/check $p --repo $T --no-evidence -v 2>&1 | grep "^FAIL" | cut -c1-700; done
rm -rf $T

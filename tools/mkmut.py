#!/usr/bin/env python3
"""Create a single-edit mutant patch without touching /repo.
usage: tools/mkmut.py <out.patch> <file relative to /repo> <old text> <new text> [occurrence-index]"""
import difflib, os, sys
out, rel, old, new = sys.argv[1:5]
occ = int(sys.argv[5]) if len(sys.argv) > 5 else None
src = open(os.path.join('/repo', rel)).read()
n = src.count(old)
if n == 0 or (n > 1 and occ is None):
    sys.exit('old text occurs %d times in %s' % (n, rel))
if occ is None:
    dst = src.replace(old, new)
else:
    parts = src.split(old)
    dst = old.join(parts[:occ + 1]) + new + old.join(parts[occ + 1:])
d = difflib.unified_diff(src.splitlines(True), dst.splitlines(True), 'a/' + rel, 'b/' + rel)
os.makedirs(os.path.dirname(out), exist_ok=True)
open(out, 'w').write(''.join(d))
print('wrote', out)

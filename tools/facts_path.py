#!/usr/bin/env python3
import os, sys
sys.path.insert(0, os.path.dirname(os.path.dirname(os.path.abspath(__file__))))
from acverif.core import extract
print(extract(config=sys.argv[1] if len(sys.argv) > 1 else 'default'))

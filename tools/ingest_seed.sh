#!/bin/bash
# usage: tools/ingest_seed.sh <worktree> <PROP> <tag>   -- verify each out/N of a sub-agent and keep confirmed ones under /verif/seeded/
WT=$1; P=$2; TAG=$3
cd $WT || exit 1
git checkout -q -- src 2>/dev/null
mkdir -p examples
for N in 1 2 3 4; do
  D=$WT/out/$N
  [ -f $D/patch.diff ] || continue
  [ -f $D/demo.rs ] || { echo "$P-$TAG-$N: no demo"; continue; }
  cp $D/demo.rs examples/demo.rs
  # without the change: demo must pass
  git checkout -q -- src
  if ! CARGO_NET_OFFLINE=true cargo run -q --offline --example demo >/dev/null 2>$D/clean.err; then echo "$P-$TAG-$N: REJECT demo fails on clean tree"; continue; fi
  if ! git apply --check $D/patch.diff 2>/dev/null; then echo "$P-$TAG-$N: REJECT patch does not apply"; continue; fi
  git apply $D/patch.diff
  if ! CARGO_NET_OFFLINE=true cargo build -q --offline --lib 2>$D/build.err; then echo "$P-$TAG-$N: REJECT does not compile"; git checkout -q -- src; continue; fi
  T=$(CARGO_NET_OFFLINE=true cargo test -q --offline --lib 2>&1 | grep "test result" | head -1)
  case "$T" in *"163 passed; 0 failed"*) ;; *) echo "$P-$TAG-$N: REJECT lib tests: $T"; git checkout -q -- src; continue;; esac
  if CARGO_NET_OFFLINE=true cargo run -q --offline --example demo >/dev/null 2>$D/mut.err; then echo "$P-$TAG-$N: REJECT demo passes with the change"; git checkout -q -- src; continue; fi
  git checkout -q -- src
  O=/verif/seeded/$P-$TAG-$N
  mkdir -p $O
  cp $D/patch.diff $D/demo.rs $O/
  python3 - "$D/meta.json" "$O/meta.json" "$P" <<'PY'
import json,sys
try: m=json.load(open(sys.argv[1]))
except Exception as e: m={'summary':'(agent meta.json unreadable: %s)'%e}
m['property']=sys.argv[3]
m['confirmed_by_me']=['git apply patch.diff in a scratch worktree of /repo HEAD; cargo test --offline --lib -> 163 passed; cargo run --offline --example demo -> fails (non-zero exit)',
 'git checkout -- src; cargo run --offline --example demo -> passes']
json.dump(m,open(sys.argv[2],'w'),indent=1)
PY
  echo "$P-$TAG-$N: CONFIRMED -> $O"
done
rm -f examples/demo.rs

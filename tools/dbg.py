"""Interactive helper: from tools.dbg import *; f = facts(); b = f.body(...)"""
import sys, subprocess, json
sys.path.insert(0, '/verif')
from acverif.mir import *
from acverif.rl import *
from acverif.inline import inlined_body


def facts(path=None):
    fp = path or subprocess.check_output(['python3', '/verif/tools/facts_path.py']).decode().strip()
    return Facts(fp)


def rows(f, path, **kw):
    from acverif.sym import summarize
    b = inlined_body(f, f.body(path))
    return b, summarize(f, b, **kw)


def ctx(tree=None, prop='C03'):
    """Ctx over the facts of a (patched) tree"""
    from acverif.core import Ctx, extract
    f = Facts(extract(repo=tree))
    return Ctx(prop, f, 'quick')

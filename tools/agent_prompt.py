#!/usr/bin/env python3
import json, sys
props = {json.loads(l)['id']: json.loads(l) for l in open('/verif/properties.jsonl')}
pid, wt = sys.argv[1], sys.argv[2]
p = props[pid]
print(open('/verif/tools/agent_prompt.txt').read().format(WT=wt, ID=pid, TITLE=p['title'], STATEMENT=p['statement'], QUANT=p['quantifier']['text']))

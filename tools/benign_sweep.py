#!/usr/bin/env python3
"""Run every behaviour-preserving refactoring under benign/ against every claimed check: each report is a false alarm."""
import json, os, sys, glob
from concurrent.futures import ThreadPoolExecutor
VERIF = os.path.dirname(os.path.dirname(os.path.abspath(__file__)))
sys.path.insert(0, os.path.join(VERIF, 'tools'))
import seedtest
m = json.load(open(os.path.join(VERIF, 'MANIFEST.json')))
props = [c['property_id'] for c in m['checks']]
patches = sorted(glob.glob(os.path.join(VERIF, 'benign', '*', 'patch.diff')))
if len(sys.argv) > 1:
    patches = [p for p in patches if any(a in p for a in sys.argv[1:])]
out = {}
def one(p):
    return p, seedtest.run(p, props)
total = 0
with ThreadPoolExecutor(max_workers=int(os.environ.get("SWEEP_JOBS", "6"))) as ex:
    for p, res in ex.map(one, patches):
        name = os.path.basename(os.path.dirname(p))
        if res is None:
            print('%-8s PATCH DOES NOT APPLY' % name); continue
        hits = {k: v[1] for k, v in res.items() if v[1]}
        errs = {k: v[0] for k, v in res.items() if v[0] not in (0, 1)}
        out[name] = hits
        keys = sorted({k.split('/', 1)[1] for ks in hits.values() for k in ks})
        total += len(keys)
        print('%-8s %s%s' % (name, 'clean' if not hits else '%d false alarm key(s): ' % len(keys) + '; '.join(keys)[:900], ' ERR %s' % errs if errs else ''))
json.dump(out, open(os.path.join(VERIF, 'benign', 'RESULTS.json'), 'w'), indent=1)
print('\n%d refactorings, %d with alarms, %d distinct alarm keys' % (len(out), len([1 for v in out.values() if v]), total))

#!/usr/bin/env python3
"""usage: tools/which.py R05.3 ...  -- list catalogued patches whose detection involves the given rule id(s)"""
import json, sys
d = json.load(open('/verif/mutants/CATALOG.json'))
for k, v in d.items():
    s = json.dumps(v)
    if any(r + '/' in s for r in sys.argv[1:]):
        print(k)

#!/bin/bash
# usage: tools/ingest_benign.sh <worktree> <tag>   -- verify each out/N of a refactoring agent (applies, compiles, 163 lib tests pass) and keep it under /verif/benign/<tag>-N
WT=$1; TAG=$2
cd $WT || exit 1
git checkout -q -- src 2>/dev/null
for N in 1 2 3 4 5 6; do
  D=$WT/out/$N
  [ -f $D/patch.diff ] || continue
  git checkout -q -- src
  if ! git apply --check $D/patch.diff 2>/dev/null; then echo "$TAG-$N: REJECT patch does not apply"; continue; fi
  git apply $D/patch.diff
  T=$(CARGO_NET_OFFLINE=true cargo test -q --offline --lib 2>&1 | grep "test result" | head -1)
  case "$T" in *"163 passed; 0 failed"*) ;; *) echo "$TAG-$N: REJECT lib tests: $T"; git checkout -q -- src; continue;; esac
  git checkout -q -- src
  O=/verif/benign/$TAG-$N
  mkdir -p $O
  cp $D/patch.diff $O/
  cp $D/meta.json $O/ 2>/dev/null
  echo "$TAG-$N: kept -> $O"
done

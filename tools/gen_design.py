#!/usr/bin/env python3
"""Assemble /verif/DESIGN.md from docs/DESIGN.*.md, the rule modules' metadata and the last sweep."""
import glob, importlib, json, os, sys
VERIF = os.path.dirname(os.path.dirname(os.path.abspath(__file__)))
sys.path.insert(0, VERIF)
props = {json.loads(l)['id']: json.loads(l) for l in open(os.path.join(VERIF, 'properties.jsonl'))}
def _expl(pid, m):
    # the explanation as written into the evidence file by the last run of the check (completed with shared rules)
    try:
        return json.load(open(os.path.join(VERIF, 'evidence', pid + '.json')))['coverage']['explanation']
    except Exception:
        return m.EXPLANATION
out = [open(os.path.join(VERIF, 'docs', 'DESIGN.head.md')).read()]
out.append('Level is `other` unless noted. "Rules" lists the rule ids evaluated by `./check <id>`; shared rules appear under every\nproperty that depends on them.\n')
for pid in sorted(props):
    m = importlib.import_module('rules.' + pid)
    rules = [n for n, f in m.RULES]
    out.append('### %s — %s\n' % (pid, props[pid]['title']))
    out.append('Rules: %s.%s\n' % (', '.join(rules), ' Level: `proof` (premises as obligations).' if getattr(m, 'LEVEL', 'other') == 'proof' else ''))
    out.append('Decided: ' + ' '.join(_expl(pid, m).split()) + '\n')
    out.append('Not decided: ' + ' '.join(m.NOT_DECIDED.split()) + '\n')
out.append(open(os.path.join(VERIF, 'docs', 'DESIGN.tail.md')).read())
# section 9
out.append('\n---------------------------------------------------------------------------\n\n## 9. Validation: which check catches which change\n')
out.append(open(os.path.join(VERIF, 'docs', 'DESIGN.validation.md')).read() if os.path.exists(os.path.join(VERIF, 'docs', 'DESIGN.validation.md')) else '')
res = json.load(open(os.path.join(VERIF, 'seeded', 'RESULTS.json'))) if os.path.exists(os.path.join(VERIF, 'seeded', 'RESULTS.json')) else {}
def row(name, v):
    det = v.get('detected_by', {})
    what = ''
    meta = os.path.join(VERIF, os.path.dirname(name), 'meta.json')
    if name.startswith('seeded/') and os.path.exists(meta):
        try:
            what = ' '.join(str(json.load(open(meta)).get('summary', '')).split())[:170]
        except Exception:
            what = ''
    rules = sorted({k.split('/')[1] for ks in det.values() for k in ks})
    return '| `%s` | %s | %s | %s |' % (name.replace('/patch.diff', '').replace('.patch', ''), ' '.join(sorted(det)) or '**missed**', ' '.join(rules), what.replace('|', '/'))
seeded = {k: v for k, v in res.items() if k.startswith('seeded/')}
mut = {k: v for k, v in res.items() if k.startswith('mutants/')}
out.append('\n### Seeded variants (written by independent sub-agents from the property text only; each confirmed by me: 163 lib tests pass with the change, the demonstration fails with it and passes without)\n')
out.append('| variant | reported by | rules | change |\n|---|---|---|---|')
for k in sorted(seeded):
    out.append(row(k, seeded[k]))
out.append('\n### Single-edit mutants (written by me while building the rules)\n')
out.append('| mutant | reported by | rules | |\n|---|---|---|---|')
for k in sorted(mut):
    out.append(row(k, mut[k]))
n_s = len(seeded); n_m = len(mut)
miss = [k for k, v in res.items() if not v.get('detected_by')]
out.append('\n%d seeded variants and %d mutants in the last sweep (`tools/sweep.py all`); not reported by any check: %s.\n' % (n_s, n_m, miss or 'none'))
# benign refactorings
bp = os.path.join(VERIF, 'benign', 'RESULTS.json')
if os.path.exists(bp):
    br = json.load(open(bp))
    hist = json.load(open(os.path.join(VERIF, 'benign', 'HISTORY.json'))) if os.path.exists(os.path.join(VERIF, 'benign', 'HISTORY.json')) else {}
    out.append('\n### Behaviour-preserving refactorings (false-alarm measurement; every reported key is a false alarm)\n')
    out.append('| refactoring | area / transformation | first run | now |\n|---|---|---|---|')
    for k in sorted(br):
        meta = os.path.join(VERIF, 'benign', k, 'meta.json')
        what = ''
        if os.path.exists(meta):
            try:
                mj = json.load(open(meta))
                what = ' '.join((str(mj.get('area', '')) + ': ' + str(mj.get('summary', ''))).split())[:200]
            except Exception:
                pass
        now = sorted({x.split('/', 1)[1].split('/')[0] for ks in br[k].values() for x in ks})
        first = hist.get(k)
        out.append('| `%s` | %s | %s | %s |' % (k, what.replace('|', '/'), first if first is not None else '', 'silent' if not now else '**alarm** ' + ' '.join(now)))
    out.append('\n%d refactorings in the last run of `tools/benign_sweep.py`, %d of them with an alarm.\n' % (len(br), len([1 for v in br.values() if v])))
out.append(open(os.path.join(VERIF, 'docs', 'DESIGN.risks.md')).read())
open(os.path.join(VERIF, 'DESIGN.md'), 'w').write('\n'.join(out))
print('DESIGN.md written: %d bytes' % os.path.getsize(os.path.join(VERIF, 'DESIGN.md')))

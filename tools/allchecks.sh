#!/bin/bash
# run the 20 quick checks on /repo; print only failing summaries; exit 1 if any failed
cd "$(dirname "$0")/.."; rc=0
for i in 01 02 03 04 05 06 07 08 09 10 11 12 13 14 15 16 17 18 19 20; do
  out=$(./check C$i 2>&1 | tail -1)
  case "$out" in *" 0 violations"*) ;; *) echo "$out"; rc=1;; esac
done
[ $rc = 0 ] && echo "all 20 checks pass"
exit $rc

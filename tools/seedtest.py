#!/usr/bin/env python3
"""Apply a patch to a scratch copy of /repo and run checks against it (never touches /repo).
usage: tools/seedtest.py <patch.diff> [PROP ...]   (no PROP: all claimed checks in MANIFEST.json)
Prints, per property, the violation keys reported. Exit 0 if at least one check reports a violation."""
import json, os, shutil, subprocess, sys, tempfile

VERIF = os.path.dirname(os.path.dirname(os.path.abspath(__file__)))


def scratch_copy(repo='/repo'):
    tmp = tempfile.mkdtemp(prefix='acverif-seed-')
    for f in ('Cargo.toml', 'Cargo.lock', 'README.md', 'rustfmt.toml'):
        if os.path.exists(os.path.join(repo, f)):
            shutil.copy(os.path.join(repo, f), tmp)
    shutil.copytree(os.path.join(repo, 'src'), os.path.join(tmp, 'src'))
    return tmp


def run(patch, props, tier='quick', quiet=False):
    tmp = scratch_copy()
    res = {}
    try:
        r = subprocess.run(['git', 'apply', '--unsafe-paths', '--directory=' + tmp, os.path.abspath(patch)], cwd='/', capture_output=True, text=True)
        if r.returncode != 0:
            r = subprocess.run(['patch', '-p1', '-s', '-d', tmp, '-i', os.path.abspath(patch)], capture_output=True, text=True)
            if r.returncode != 0:
                print('patch does not apply:', r.stdout, r.stderr)
                return None
        for p in props:
            r = subprocess.run([os.path.join(VERIF, 'check'), p, '--repo', tmp, '--no-evidence', '--tier', tier], capture_output=True, text=True)
            keys = [l.split()[1] for l in r.stdout.splitlines() if l.startswith('violation: ')]
            res[p] = (r.returncode, keys, r.stdout if r.returncode not in (0, 1) else '', r.stderr[-2000:] if r.returncode not in (0, 1) else '')
    finally:
        shutil.rmtree(tmp, ignore_errors=True)
    return res


if __name__ == '__main__':
    patch = sys.argv[1]
    props = sys.argv[2:]
    if not props:
        m = json.load(open(os.path.join(VERIF, 'MANIFEST.json')))
        props = [c['property_id'] for c in m['checks']]
    res = run(patch, props)
    if res is None:
        sys.exit(2)
    hit = False
    for p, (rc, keys, out, err) in res.items():
        if rc not in (0, 1):
            print('%s: check error rc=%d\n%s\n%s' % (p, rc, out, err))
        elif keys:
            hit = True
            print('%s: %d violation(s)' % (p, len(keys)))
            for k in keys:
                print('    ' + k)
    if not hit:
        print('no check reports a violation')
    sys.exit(0 if hit else 1)

#!/bin/bash
# usage: tools/ptree.sh <patch>  -- scratch copy of /repo with the patch applied; prints its path (remove when done)
P=$(realpath $1); T=$(mktemp -d /tmp/ptree.XXXXXX); cp -r /repo/src /repo/Cargo.toml /repo/Cargo.lock /repo/README.md $T/
(cd $T && patch -p1 -s < $P) || { echo "patch failed" >&2; rm -rf $T; exit 1; }
echo $T

#!/usr/bin/env python3
"""Regenerate /verif/MANIFEST.json from the rule modules' metadata (CLAIM / NOTE / TECHNIQUE / LEVEL)."""
import importlib, json, os, sys
VERIF = os.path.dirname(os.path.dirname(os.path.abspath(__file__)))
sys.path.insert(0, VERIF)
ids = [json.loads(l)['id'] for l in open(os.path.join(VERIF, 'properties.jsonl'))]
NA = json.load(open(os.path.join(VERIF, 'tools', 'not_applicable.json')))
checks, na = [], []
for i in ids:
    if os.path.exists(os.path.join(VERIF, 'rules', i + '.py')) and i not in NA:
        m = importlib.import_module('rules.' + i)
        checks.append({
            'property_id': i,
            'quick_cmd': './check %s --tier quick' % i,
            'thorough_cmd': './check %s --tier thorough' % i,
            'evidence_file': '/verif/evidence/%s.json' % i,
            'replay_cmd_template': './check %s --replay {path}' % i,
            'engine': 'acverif',
            'level_claimed': {'category': getattr(m, 'LEVEL', 'other'), 'text': ' '.join(m.CLAIM.split()), 'design_ref': 'DESIGN.md section 5, %s' % i},
            'level_note': ' '.join(m.NOTE.split()),
            'technique': ' '.join(m.TECHNIQUE.split()),
        })
    else:
        na.append({'property_id': i, 'reason': NA.get(i, 'rule set not built yet (build in progress, see DESIGN.md section 8)')})
man = {
    'version': 1,
    'setup_cmd': 'cd /verif/driver && CARGO_NET_OFFLINE=true cargo build --release --offline',
    'hooks': {
        'guard': 'aho_corasick_verif',
        'enable': 'none: the static checks never build or run instrumented code; no hook exists in /repo',
        'baseline_off_cmd': 'cd /repo && cargo test --workspace --no-fail-fast --offline',
        'source_commits': [],
        'add_only': True,
    },
    'engines': [
        {'name': 'acverif-driver', 'path': '/verif/driver', 'serves_properties': [c['property_id'] for c in checks],
         'kind_free_text': 'rustc_private fact extractor: MIR (mir-opt-level=0), types, impls, coercions, type graph of /repo as JSON'},
        {'name': 'acverif', 'path': '/verif/acverif', 'serves_properties': [c['property_id'] for c in checks],
         'kind_free_text': 'Python rule library: CFG dominance / graph cut, term reconstruction from MIR temporaries, affine normal form, decision tables, call graph, who-may-write inventories'},
    ],
    'checks': checks,
    'notes': 'Static analysis only. Every check re-extracts facts from /repo\'s working tree (cached by tree hash under /verif/.cache), evaluates the rule set of the property and writes /verif/evidence/<id>.json. Known findings and repaired defects: /verif/known_findings.txt. Repairs committed to /repo as fix: commits fe47c68, 4cbc8b9, bc87029.',
    'not_applicable': na,
}
json.dump(man, open(os.path.join(VERIF, 'MANIFEST.json'), 'w'), indent=1)
print('claimed:', [c['property_id'] for c in checks], 'n/a:', [n['property_id'] for n in na])

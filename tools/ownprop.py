#!/usr/bin/env python3
"""usage: tools/ownprop.py <substr>..  -- for seeded variants not reported by their own property's check: which rules (of other
properties) report them"""
import json, os, sys, glob
from concurrent.futures import ThreadPoolExecutor
V = os.path.dirname(os.path.dirname(os.path.abspath(__file__)))
sys.path.insert(0, os.path.join(V, 'tools'))
import seedtest
m = json.load(open(os.path.join(V, 'MANIFEST.json')))
props = [c['property_id'] for c in m['checks']]
ps = [p for p in sorted(glob.glob(os.path.join(V, 'seeded', '*', 'patch.diff'))) if any(s in p for s in sys.argv[1:])]
def one(p):
    return p, seedtest.run(p, props)
with ThreadPoolExecutor(max_workers=8) as ex:
    for p, res in ex.map(one, ps):
        name = os.path.basename(os.path.dirname(p))
        own = name[:3]
        if res is None:
            continue
        hits = {k: v[1] for k, v in res.items() if v[1]}
        if own in hits:
            continue
        rules = sorted({str(x).split('/')[1] for v in hits.values() for x in v})
        print(name, 'own', own, 'missing; reported by', sorted(hits), 'rules', rules)

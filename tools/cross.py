#!/usr/bin/env python3
"""Cross product: a behaviour-preserving refactoring (benign/) followed by a seeded defect (seeded/) in the same function.

For every pair whose hunks touch the same function and whose patches both apply (the seed with fuzz) and compile, the seed's own
demo is run to confirm the defect still manifests on the refactored tree; then the seed's own property check must report it.
A pair where the demo still fails but no check fires is a detection that depended on the reference spelling.
usage: tools/cross.py [--max N] [filter ...]      results -> cross/RESULTS.json
"""
import glob, json, os, re, shutil, subprocess, sys, tempfile
from concurrent.futures import ThreadPoolExecutor

VERIF = os.path.dirname(os.path.dirname(os.path.abspath(__file__)))
sys.path.insert(0, os.path.join(VERIF, 'tools'))
import seedtest


def hunks(patch):
    """{(file, function)} from the hunk headers of a unified diff"""
    out = set()
    f = None
    for l in open(patch, errors='replace'):
        if l.startswith('+++ '):
            f = l[4:].strip().split('\t')[0]
            f = re.sub(r'^[ab]/', '', f)
        m = re.match(r'^@@ [^@]* @@\s*(.*)$', l)
        if m and f:
            ctx = m.group(1)
            fn = re.search(r'\bfn\s+([A-Za-z0-9_]+)', ctx)
            out.add((f, fn.group(1) if fn else ctx.strip()[:40]))
    return out


def own_props(seed_dir):
    try:
        m = json.load(open(os.path.join(seed_dir, 'meta.json')))
        p = m.get('property')
        return [p] if p else []
    except Exception:
        return []


def one(pair):
    bdir, sdir = pair
    name = '%s+%s' % (os.path.basename(bdir), os.path.basename(sdir))
    tmp = seedtest.scratch_copy()
    shutil.copy('/repo/Cargo.toml', tmp)
    try:
        r = subprocess.run(['patch', '-p1', '-s', '-d', tmp, '-i', os.path.join(bdir, 'patch.diff')], capture_output=True, text=True)
        if r.returncode != 0:
            return name, 'benign-does-not-apply', []
        r = subprocess.run(['patch', '-p1', '-s', '-F3', '--no-backup-if-mismatch', '-d', tmp, '-i', os.path.join(sdir, 'patch.diff')], capture_output=True, text=True)
        if r.returncode != 0:
            return name, 'seed-does-not-apply', []
        for f in glob.glob(os.path.join(tmp, 'src', '**', '*.orig'), recursive=True) + glob.glob(os.path.join(tmp, 'src', '**', '*.rej'), recursive=True):
            os.remove(f)
        keys = []
        for p in own_props(sdir):
            r = subprocess.run([os.path.join(VERIF, 'check'), p, '--repo', tmp, '--no-evidence'], capture_output=True, text=True)
            if r.returncode not in (0, 1):
                if 'extraction failed' in r.stderr + r.stdout:
                    return name, 'does-not-compile', []
                return name, 'check-error', [r.stdout[-300:] + r.stderr[-300:]]
            keys += [l.split()[1] for l in r.stdout.splitlines() if l.startswith('violation: ')]
        if keys:
            return name, 'detected', keys
        # nothing reported: does the defect still manifest?  (the seed's own demo)
        demo = os.path.join(sdir, 'demo.rs')
        if not os.path.exists(demo):
            return name, 'no-demo', []
        os.makedirs(os.path.join(tmp, 'examples'), exist_ok=True)
        shutil.copy(demo, os.path.join(tmp, 'examples', 'demo.rs'))
        env = dict(os.environ, CARGO_NET_OFFLINE='true', CARGO_TARGET_DIR=os.path.join(tmp, 'target'))
        r = subprocess.run(['cargo', 'build', '-q', '--offline', '--example', 'demo'], cwd=tmp, env=env, capture_output=True, text=True)
        if r.returncode != 0:
            return name, 'demo-does-not-compile', []
        try:
            r = subprocess.run([os.path.join(tmp, 'target', 'debug', 'examples', 'demo')], cwd=tmp, capture_output=True, text=True, timeout=120)
            failed = r.returncode != 0
        except subprocess.TimeoutExpired:
            failed = True
        return name, ('MISSED' if failed else 'defect-masked'), []
    finally:
        shutil.rmtree(tmp, ignore_errors=True)


def main():
    args = sys.argv[1:]
    maxn = None
    if '--max' in args:
        i = args.index('--max')
        maxn = int(args[i + 1])
        del args[i:i + 2]
    bens = sorted(glob.glob(os.path.join(VERIF, 'benign', '*', 'patch.diff')))
    seeds = sorted(glob.glob(os.path.join(VERIF, 'seeded', '*', 'patch.diff')))
    bh = {os.path.dirname(b): hunks(b) for b in bens}
    sh = {os.path.dirname(s): hunks(s) for s in seeds}
    pairs = []
    for b, hb in bh.items():
        for s, hs in sh.items():
            if hb & hs:
                pairs.append((b, s))
    if args:
        pairs = [p for p in pairs if any(a in os.path.basename(p[0]) or a in os.path.basename(p[1]) for a in args)]
    if maxn:
        import random
        random.Random(1).shuffle(pairs)
        pairs = pairs[:maxn]
    print('%d pairs' % len(pairs))
    out = {}
    cnt = {}
    with ThreadPoolExecutor(max_workers=int(os.environ.get('CROSS_JOBS', '8'))) as ex:
        for name, verdict, keys in ex.map(one, pairs):
            out[name] = {'verdict': verdict, 'keys': keys[:6]}
            cnt[verdict] = cnt.get(verdict, 0) + 1
            if verdict in ('MISSED', 'check-error'):
                print('%-22s %s %s' % (name, verdict, keys[:1]))
                sys.stdout.flush()
    os.makedirs(os.path.join(VERIF, 'cross'), exist_ok=True)
    res_p = os.path.join(VERIF, 'cross', 'RESULTS.json')
    old = json.load(open(res_p)) if os.path.exists(res_p) and (args or maxn) else {}
    old.update(out)
    json.dump(old, open(res_p, 'w'), indent=1, sort_keys=True)
    print(json.dumps(cnt, sort_keys=True))


if __name__ == '__main__':
    main()

#!/usr/bin/env python3
"""Run every seeded variant / mutant patch against every claimed check (scratch copies; /repo untouched).
usage: tools/sweep.py [seeded|mutants|all] [-j N]   -> writes seeded/RESULTS.json and prints a table"""
import json, os, sys, subprocess, glob
from concurrent.futures import ThreadPoolExecutor
VERIF = os.path.dirname(os.path.dirname(os.path.abspath(__file__)))
sys.path.insert(0, os.path.join(VERIF, 'tools'))
import seedtest
which = sys.argv[1] if len(sys.argv) > 1 else 'all'
m = json.load(open(os.path.join(VERIF, 'MANIFEST.json')))
props = [c['property_id'] for c in m['checks']]
patches = []
if which in ('seeded', 'all'):
    patches += sorted(glob.glob(os.path.join(VERIF, 'seeded', '*', 'patch.diff')))
if which in ('mutants', 'all'):
    patches += sorted(glob.glob(os.path.join(VERIF, 'mutants', '*', '*.patch')))

def one(p):
    res = seedtest.run(p, props)
    return p, res

out = {}
with ThreadPoolExecutor(max_workers=int(os.environ.get("SWEEP_JOBS", "6"))) as ex:
    for p, res in ex.map(one, patches):
        name = os.path.relpath(p, VERIF)
        if res is None:
            out[name] = {'error': 'patch does not apply'}
            print('%-55s PATCH DOES NOT APPLY' % name)
            continue
        hits = {k: v[1] for k, v in res.items() if v[1]}
        errs = {k: v[0] for k, v in res.items() if v[0] not in (0, 1)}
        out[name] = {'detected_by': hits, 'errors': errs}
        print('%-55s %s%s' % (name, ' '.join('%s(%d)' % (k, len(v)) for k, v in sorted(hits.items())) or 'MISSED', '  ERR:%s' % errs if errs else ''))
json.dump(out, open(os.path.join(VERIF, 'seeded', 'RESULTS.json'), 'w'), indent=1)
if which == 'all':
    cat = {k: sorted(v.get('detected_by', {})) for k, v in out.items() if v.get('detected_by')}
    json.dump(cat, open(os.path.join(VERIF, 'mutants', 'CATALOG.json'), 'w'), indent=1)
missed = [k for k, v in out.items() if not v.get('detected_by')]
print('\n%d patches, %d missed: %s' % (len(out), len(missed), missed))

#!/usr/bin/env python3
"""usage: tools/subsweep.py <glob-substring>... -- run the patches whose path contains one of the substrings against all checks"""
import json, os, sys, glob
from concurrent.futures import ThreadPoolExecutor
VERIF = os.path.dirname(os.path.dirname(os.path.abspath(__file__)))
sys.path.insert(0, os.path.join(VERIF, 'tools'))
import seedtest
m = json.load(open(os.path.join(VERIF, 'MANIFEST.json')))
props = [c['property_id'] for c in m['checks']]
patches = sorted(glob.glob(os.path.join(VERIF, 'seeded', '*', 'patch.diff'))) + sorted(glob.glob(os.path.join(VERIF, 'mutants', '*', '*.patch')))
patches = [p for p in patches if any(s in p for s in sys.argv[1:])]
missed = []
def one(p):
    return p, seedtest.run(p, props)
with ThreadPoolExecutor(max_workers=8) as ex:
    for p, res in ex.map(one, patches):
        name = os.path.relpath(p, VERIF)
        if res is None:
            print('%-55s PATCH DOES NOT APPLY' % name); continue
        hits = {k: v[1] for k, v in res.items() if v[1]}
        print('%-55s %s' % (name, ' '.join('%s(%d)' % (k, len(n) if isinstance(n, list) else n) for k, n in sorted(hits.items())) or 'MISSED'))
        if not hits:
            missed.append(name)
print('%d patches, %d missed: %s' % (len(patches), len(missed), missed))

#!/usr/bin/env python3
"""Regenerate rules/vocab_roles.json (usage contexts of the parameters of vocabulary functions with equally typed
parameters) from the reference tree. Run on the pinned /repo only."""
import json, os, sys
V = os.path.dirname(os.path.dirname(os.path.abspath(__file__)))
sys.path.insert(0, V)
from acverif.core import extract
from acverif.mir import Facts, param_roles, caller_arg_roles
f = Facts(extract())
refp = json.load(open(os.path.join(V, 'rules', 'vocab_params.json')))
out = {}
for p, b in f.bodies.items():
    r = refp.get(p)
    if r is None or len(r) < 2:
        continue
    tys = [ty for nm, ty in r]
    if len(set(tys)) == len(tys):
        continue
    rl = [set(x) for x in param_roles(b)]
    for i, x in enumerate(caller_arg_roles(f, p, len(r))):
        rl[i] |= x
    out[p] = [sorted(x) for x in rl]
json.dump(out, open(os.path.join(V, 'rules', 'vocab_roles.json'), 'w'), indent=0, sort_keys=True)
print(len(out), 'functions')

"""C16 rule set (see DESIGN.md section 5)."""
from rules.agree import r04_1, r04_2, r16_2, r16_3
from rules.prefilter import r05_8
from rules.prefilter import r05_4
from rules.prefilter import r05_3
from rules.builder import r03_2, r01_1
from rules.trie import r05_5
import rules.C13 as c13
from rules.layout import r04_4, r04_5_writer, r04_5_reader, r04_5_iter, r04_5_dfa

LEVEL = 'other'
from rules.teddy import r06_4
from rules.prefilter import r05_9
from rules.utilfn import r04_7
from rules.utilfn import r04_9
from rules.utilfn import r16_6
from rules.utilfn import r04_10
from rules.utilfn import r03_7
from rules.utilfn import r04_11
RULES = [('R05.8', r05_8), ('R05.4', r05_4), ('R05.3', r05_3), ('R04.2', r04_2), ('R04.1', r04_1), ('R13.5', c13.r13_5), ('R16.2', r16_2), ('R16.3', r16_3), ('R16.4', r03_2), ('R01.1', r01_1), ('R04.4', r04_4), ('R04.5w', r04_5_writer), ('R04.5r', r04_5_reader), ('R04.5i', r04_5_iter), ('R04.5d', r04_5_dfa), ('R05.5', r05_5), ('R06.4', r06_4), ('R05.9', r05_9), ('R04.7', r04_7), ('R04.9', r04_9), ('R16.6', r16_6), ('R04.10', r04_10), ('R03.7', r03_7), ('R04.11', r04_11)]
EXPLANATION = """R04.2 predicate tables: with the layout relation of R16.2 they give 'dead and match states are special; a special state that is
neither dead nor match is a start state'. R04.1 forwarding impls. R13.5 start_state fails exactly for the unsupported anchoring mode
(NFAs never; DFA iff the selected start id is DEAD, which the builder stores into exactly the unsupported one). R16.2 the special-id
layout established by shuffle (max_match = next_avail-3 or the anchored start if it matches, starts at next_avail-2 / -1,
max_special from one of them) is carried over field by field into the contiguous NFA and the DFA. R16.3 the dead state is absorbing by
construction in all three representations (init_full_state(DEAD, DEAD); id maps default to DEAD; DFA table initialised to DEAD);
R16.4 match states carry at least one pattern (set_matches asserts non-emptiness; State::write emits a match section iff
old.is_match()). R04.4/R04.5 the contiguous encoding's reader and writer agree on kinds, header, sparse block and index expressions (a reader that
disagrees with the writer walks out of the state), sparse_iter covers every byte. R16.5 Automaton is sealed (unsafe trait + private supertrait; five impls)."""
NOT_DECIDED = """Validity of every reachable transition target, per-state pattern-id validity, and the documented walking recipe's equality with the built-in search (behavioural)."""
CLAIM = """Static decision of the classification contract of the low-level API (predicate equivalence under all orderings, special-id provenance, absorbing dead state by construction, non-empty match lists, start_state error table, sealed trait)."""
NOTE = """Trusted: rustc MIR construction, the fact extractor."""
TECHNIQUE = "static analysis: abstract evaluation of id predicates over all orderings, symbolic evaluation of the id layout after shuffle and of the DFA id map on path summaries, value-provenance matching over rustc MIR and type facts"

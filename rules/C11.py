"""C11 rule set (see DESIGN.md section 5)."""
from rules.casefold import r11_1, r11_2
from rules.agree import r11_3, r20_1
from rules.builder import r11_5
from rules.prefilter import r05_4

LEVEL = 'other'
from rules.agree import r20_5
from rules.trie import r03_6
from rules.builder import r09_5
from rules.prefilter import r05_8
from rules.prefilter import r05_10
from rules.layout import r04_5_reader
RULES = [('R11.1', r11_1), ('R11.2', r11_2), ('R11.3', r11_3), ('R11.4', r05_4), ('R11.5', r11_5), ('R11.6', r20_1), ('R20.5', r20_5), ('R03.6', r03_6), ('R09.5', r09_5), ('R05.8', r05_8), ('R05.10', r05_10), ('R04.5r', r04_5_reader)]
EXPLANATION = """R11.1 opposite_ascii_case, evaluated as a decision table over the full byte domain 0..=255: A-Z -> to_ascii_lowercase(b), a-z ->
to_ascii_uppercase(b), every other byte (including '@', '[', '`', '{' and bytes >= 0x80) unchanged. R11.2 case pairing: each of the
five places where a pattern byte is registered (trie edge, byte-class set, start-byte set, rare-byte offset, rare-byte set) has a twin
for opposite_ascii_case(b) with otherwise identical operands, exactly under the builder's ascii_case_insensitive flag and on every
path. R11.3 one flag: the compiler hands the same match kind and case flag to the prefilter builder, which forwards it to the
start-byte and rare-byte builders. R11.4 memmem and packed prefilters are off under the flag (R05.4). R11.5 the visited set is active
under the flag, and enqueueing is guarded/paired so a failure target's matches are not inherited twice through the two case edges.
R11.6 pattern ids come from the enumeration index only."""
NOT_DECIDED = """That the union of these sites is complete for every byte in every search path (argued by inventory: nothing else reads pattern bytes; Teddy is excluded rather than folded)."""
CLAIM = """Static decision of the letter-only case flip (exhaustive decision table over the byte domain), of the pairing of every byte registration with its other-case twin under the single flag, and of the exclusion of the non-folding prefilters."""
NOTE = """Trusted: rustc MIR construction, the fact extractor, std's to_ascii_lowercase/uppercase."""
TECHNIQUE = "static analysis: decision-table extraction over a finite domain, pairing (must-pass-through) rules, iteration summaries of the enqueue discipline and flag provenance over rustc MIR"

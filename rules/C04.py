"""C04 rule set (see DESIGN.md section 5)."""
from rules.agree import r04_1, r04_2, r16_2, r16_3, r20_2, r20_3
from rules.builder import r01_4, r03_2, r09_6
from rules.layout import r04_4, r04_5_writer, r04_5_reader, r04_5_iter, r04_5_dfa

LEVEL = 'other'
from rules.C13 import r13_1
from rules.agree import r20_5
from rules.C13 import r13_5
from rules.utilfn import r04_7
from rules.utilfn import r04_8
from rules.utilfn import r04_9
from rules.utilfn import r16_6
from rules.utilfn import r04_10
from rules.utilfn import r03_7
from rules.utilfn import r04_11
RULES = [('R04.1', r04_1), ('R04.2', r04_2), ('R04.3', r01_4), ('R04.4', r04_4), ('R04.5w', r04_5_writer), ('R04.5r', r04_5_reader), ('R04.5i', r04_5_iter), ('R04.5d', r04_5_dfa), ('R04.6', r20_3), ('R20.2', r20_2), ('R16.2', r16_2), ('R16.3', r16_3), ('R03.2', r03_2), ('R09.6', r09_6), ('R13.1', r13_1), ('R20.5', r20_5), ('R13.5', r13_5), ('R04.7', r04_7), ('R04.8', r04_8), ('R04.9', r04_9), ('R16.6', r16_6), ('R04.10', r04_10), ('R03.7', r03_7), ('R04.11', r04_11)]
EXPLANATION = """R04.1 in `impl Automaton for &A` and `impl Automaton for Arc<dyn AcAutomaton>` every method forwards to its namesake on the
inner automaton with the parameters in order (32 methods; the Arc impl's try_find / try_find_overlapping go to the shared drivers).
R04.2 the four id predicates of the three automata are equivalent, under every relative ordering of (sid, max_match_id, max_special_id,
start ids) with DEAD = 0, to is_dead = (sid == DEAD), is_match = (sid != DEAD && sid <= max_match_id), is_special = (sid <=
max_special_id), is_start = (sid in {start_unanchored_id, start_anchored_id}); DEAD is 0 and FAIL is 1 in every representation.
R04.3 closing the start loop keeps sparse chain and dense row coherent. R04.4 sentinel disjointness of the contiguous encoding (MAX_SPARSE_TRANSITIONS < KIND_ONE < KIND_DENSE <= 0xFF) and the kind
decision of State::write. R04.5 one layout, several readers: the header layout written by State::write, the sparse block layout
(class words padded with the last real class, then targets in the same order), the index expressions of contiguous next_state as
affine forms (kind@o, fail@o+1, dense@o+2+class, single@o+2, sparse lane k of chunk i@o+2+ceil(n/4)+4i+k, lane agreement), u32_len as
a decision table, dfa::sparse_iter visiting every byte 0..=255 exactly once, ByteClassSet::set_range marking the boundaries start-1
and end, and the DFA failure closure following state.fail() unless it is DEAD. R04.6 one source of truth: every kind is built from the one
noncontiguous NFA built from the patterns; byte classes come from nnfa.byte_classes() or singletons() under the builder's flag, and
alphabet_len / stride2 derive from the same ByteClasses value; metadata is copied from namesake getters (R20.2). R16.2 the four special
ids of the contiguous NFA and the DFA are the images of their namesakes under the id map. R16.3 dead state absorbing in every
representation. R03.2 match lists transcribed from the same state. R09.6 the DFA's anchored copy."""
NOT_DECIDED = """Equality of the transition function for every (state, byte) of every automaton: the full correctness of ByteClassSet::byte_classes, of the match-section readers (match_len / match_pattern / State::remap offsets are not checked), and of the interleaved remap for arbitrary tries."""
CLAIM = """Static decision of the agreement conditions between the representations that are visible in code shape: forwarding impls, id-predicate equivalence (finite abstract evaluation over all orderings), special-id provenance, single source NFA, metadata copy chains, match-list transcription."""
NOTE = """Trusted: rustc MIR construction, the fact extractor. The match-section offsets of the contiguous encoding are not checked; the transition-table equality itself is outside the family."""
TECHNIQUE = "static analysis: sibling-agreement checks, abstract evaluation of comparison-only predicates under all orderings, decision tables of the contiguous encoder tabulated on path summaries, reader offsets in affine normal form over rustc MIR"

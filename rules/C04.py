"""C04 rule set (see DESIGN.md section 5)."""
from rules.agree import r04_1, r04_2, r16_2, r16_3, r20_2, r20_3
from rules.builder import r01_4, r03_2, r09_6

LEVEL = 'other'
RULES = [('R04.1', r04_1), ('R04.2', r04_2), ('R04.3', r01_4), ('R04.6', r20_3), ('R20.2', r20_2), ('R16.2', r16_2), ('R16.3', r16_3), ('R03.2', r03_2), ('R09.6', r09_6)]
EXPLANATION = """R04.1 in `impl Automaton for &A` and `impl Automaton for Arc<dyn AcAutomaton>` every method forwards to its namesake on the
inner automaton with the parameters in order (32 methods; the Arc impl's try_find / try_find_overlapping go to the shared drivers).
R04.2 the four id predicates of the three automata are equivalent, under every relative ordering of (sid, max_match_id, max_special_id,
start ids) with DEAD = 0, to is_dead = (sid == DEAD), is_match = (sid != DEAD && sid <= max_match_id), is_special = (sid <=
max_special_id), is_start = (sid in {start_unanchored_id, start_anchored_id}); DEAD is 0 and FAIL is 1 in every representation.
R04.3 closing the start loop keeps sparse chain and dense row coherent. R04.6 one source of truth: every kind is built from the one
noncontiguous NFA built from the patterns; byte classes come from nnfa.byte_classes() or singletons() under the builder's flag, and
alphabet_len / stride2 derive from the same ByteClasses value; metadata is copied from namesake getters (R20.2). R16.2 the four special
ids of the contiguous NFA and the DFA are the images of their namesakes under the id map. R16.3 dead state absorbing in every
representation. R03.2 match lists transcribed from the same state. R09.6 the DFA's anchored copy."""
NOT_DECIDED = """Equality of the transition function for every (state, byte) of every automaton: correctness of ByteClassSet, of sparse_iter's class walking, of the contiguous state layout readers (R04.4/R04.5 of the design were not built) and of the interleaved remap for arbitrary tries."""
CLAIM = """Static decision of the agreement conditions between the representations that are visible in code shape: forwarding impls, id-predicate equivalence (finite abstract evaluation over all orderings), special-id provenance, single source NFA, metadata copy chains, match-list transcription."""
NOTE = """Trusted: rustc MIR construction, the fact extractor. The layout reader/writer agreement of the contiguous encoding (design R04.4/R04.5) is not implemented; the transition-table equality itself is outside the family."""
TECHNIQUE = "static analysis: sibling-agreement checks, abstract evaluation of comparison-only predicates under all orderings, value-provenance matching over rustc MIR"

"""C02 rule set (see DESIGN.md section 5)."""
from rules.search import r02_1, r01_5, r01_6
from rules.layout import r04_5_reader
from rules.prefilter import r05_8
from rules.trie import r03_6
from rules.builder import r02_2, r01_1
from rules.layout import r04_5_iter, r04_5_dfa
from rules.prefilter import r05_3, r05_7

LEVEL = 'other'
from rules.layout import r04_4
from rules.casefold import r11_1
from rules.prefilter import r05_2
from rules.utilfn import r10_7
from rules.utilfn import r04_7
from rules.utilfn import r04_8
from rules.utilfn import r16_6
from rules.prefilter import r10_1
from rules.utilfn import r03_7
from rules.utilfn import r13_8
from rules.utilfn import r10_8
from rules.utilfn import r04_11
RULES = [('R04.5r', r04_5_reader), ('R05.8', r05_8), ('R05.7', r05_7), ('R03.6', r03_6), ('R02.1', r02_1), ('R02.2', r02_2), ('R01.1', r01_1), ('R01.5', r01_5), ('R01.6', r01_6), ('R04.5i', r04_5_iter), ('R04.5d', r04_5_dfa), ('R05.3', r05_3), ('R04.4', r04_4), ('R11.1', r11_1), ('R05.2', r05_2), ('R10.7', r10_7), ('R04.7', r04_7), ('R04.8', r04_8), ('R16.6', r16_6), ('R10.1', r10_1), ('R03.7', r03_7), ('R13.8', r13_8), ('R10.8', r10_8), ('R04.11', r04_11)]
EXPLANATION = """R02.1 standard semantics force earliest: earliest = is_standard() || get_earliest(), plumbed consistently into the five driver calls.
R02.2 in the BFS of fill_failure_transitions the computed failure link f (start at states[id].fail, follow failure links while
follow_transition(f, byte) == FAIL, then take the transition) is stored to states[t.next].fail and followed by copy_matches(f, t.next)
with the same f and target; under standard semantics each dequeued state also inherits the start state's matches. the work queue is FIFO (breadth-first).
R04.5i/R04.5d the DFA is filled for every byte 0..=255 and follows failure links; R05.3 prefilter candidate arithmetic. R01.1 phase order;
R01.5 / R01.6 driver and iterator shape (shared with C01)."""
NOT_DECIDED = """Failure-link correctness for arbitrary tries; that max_match_id bounds exactly the match states; completeness of id remapping (R02.3 of the design was not built)."""
CLAIM = """Static decision of the earliest-flag derivation/plumbing and of the failure-link / match-inheritance pairing in the builder; mechanism shape only."""
NOTE = """Trusted: rustc MIR construction, the fact extractor. The remap-completeness rule (R02.3) of the design is not implemented."""
TECHNIQUE = "static analysis: loop-iteration summaries of the failure-link construction (pairing of link store and match inheritance, walk step), graph cuts and term matching over rustc MIR"

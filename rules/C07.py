"""C07 — stream search equals in-memory search for every read schedule (DESIGN.md §5 C07)."""
from rules.stream import RULES_C07 as RULES, STREAM_CONFIGS
from rules.prefilter import r05_3
from rules.agree import r04_1
from rules.agree import r20_1
from rules.prefilter import r05_7, r05_8
RULES = list(RULES) + [('R05.3', r05_3), ('R04.1', r04_1), ('R20.1', r20_1), ('R05.7', r05_7), ('R05.8', r05_8)]

LEVEL = 'other'
THOROUGH_CONFIGS = ['default', 'std', 'logging']
EXPLANATION = """
Schedule-independent by construction: the rules constrain every transition of the chunk iterator's state machine for symbolic
buffer contents. R07.1 Buffer contracts (min = max(1, arg); capacity = max(k*min, 64K) with k >= 2, hence capacity > min;
buffer() = buf[..end]; free_buffer() = buf[end..]; fill adds exactly the reader's return value to end, writes nothing else,
ends on a 0 read, returns Ok(false) only if nothing was read; roll copies [end-min, end) to 0 and sets end = min; nobody else
writes Buffer fields); R07.2 the buffer is sized from aut.max_pattern_len(), start = sid = start_state(Anchored::No)?, all
positions 0; R07.3 one next_state(aut, Anchored::No, self.sid, byte) per byte of buffer()[buffer_pos..], stored to self.sid,
paired with absolute_pos += 1, the scan leaves only at the end of the buffered bytes or on a match state, and buffer_pos is
advanced by the bytes scanned on every exit; R07.4 self.sid has exactly two writers (scan step, reset to start) and
absolute_pos one (+= 1); R07.5 the refill block is entered only when buffer_pos >= len, after a pending match / pre-roll chunk,
roll only under len >= min with buffer_pos = min and buffer_reported_pos -= len - min before it, fill after roll, Ok(true) falls
through to the scan; R07.6 the stream path reaches no prefilter and none of the in-memory search drivers.
"""
NOT_DECIDED = """That the retained tail of max_pattern_len bytes always contains the start of a match in progress (a property of the
automaton data: a non-start state's depth is below the longest pattern), and the equality of the emitted matches with the
in-memory iterator (C02). Behaviour of user Read implementations."""
CLAIM = """Static decision of the stream iterator's transition discipline on rustc MIR, for symbolic buffer contents and therefore for
every read schedule and buffer capacity: Buffer's contracts as affine index expressions, sizing from the longest pattern, the
per-byte scan step with its paired position updates, the exact writer sets of sid / absolute_pos / buffer_pos, and the
guard/order structure of the roll-and-refill block. The pinned suite never executes a roll or a refill."""
NOTE = """Trusted: rustc MIR construction, the fact extractor, std slice/Vec semantics. Requires the std feature (stream code). Anchors
are def-paths and field names of StreamChunkIter/Buffer. Not decided: the data invariant that the retained tail contains the match start."""
TECHNIQUE = "static analysis: affine normal forms of index arithmetic, finite evaluation of the buffer constructor, who-may-write inventories, dominance / graph-cut queries over rustc MIR"

"""C03 rule set (see DESIGN.md section 5)."""
from rules.search import r03_1, r03_4, r03_5, r09_1
from rules.prefilter import r05_3
from rules.layout import r04_5_iter
from rules.trie import r03_6
from rules.builder import r03_2, r02_2, r11_5
from rules.layout import r04_5_reader, r04_5_writer

LEVEL = 'other'
from rules.layout import r04_4
from rules.casefold import r11_1
from rules.prefilter import r05_2
from rules.prefilter import r05_7
from rules.prefilter import r05_8
from rules.prefilter import r05_1
from rules.utilfn import r04_10
from rules.utilfn import r03_7
from rules.utilfn import r04_11
RULES = [('R05.3', r05_3), ('R04.5i', r04_5_iter), ('R03.6', r03_6), ('R03.1', r03_1), ('R03.2', r03_2), ('R03.4', r03_4), ('R03.5', r03_5), ('R02.2', r02_2), ('R11.5', r11_5), ('R09.1', r09_1), ('R04.5r', r04_5_reader), ('R04.5w', r04_5_writer), ('R04.4', r04_4), ('R11.1', r11_1), ('R05.2', r05_2), ('R05.7', r05_7), ('R05.8', r05_8), ('R05.1', r05_1), ('R04.10', r04_10), ('R03.7', r03_7), ('R04.11', r04_11)]
EXPLANATION = """R03.6 NFA::add_match links a new entry behind the LAST entry found by the tail walk `while matches[cur].link != ZERO` started at the list head (or installs it as head of an empty list), and NFA::copy_matches appends one entry per source entry behind the running destination tail in source order (iteration summaries): no entry of a list with three or more members can be dropped or reordered. R03.1 stepping discipline of try_find_overlapping_fwd_imp: publishing list entry i stores next_match_index = Some(i + 1), the entry
index is checked against match_len before it is read, positions are input.start() for the start state and at + 1 otherwise; on
exhaustion at += 1 and both next_match_index and mat are cleared; state.id is saved on special states and at the end of the span;
state.mat is cleared first. R03.2 match lists are transcribed completely and in order from nnfa.iter_matches(oldsid) of the state being
written (4 DFA sites, both copies under StartKind::Both; contiguous State::write). R03.4 OverlappingState has private fields and is
written only by OverlappingState::start and the two overlapping drivers. R03.5 every Ok(()) return of the stepper is justified and a
rejected entry continues the walk. R02.2 / R11.5 inheritance from exactly the failure target and enqueue-once (no double inheritance
through the two case edges)."""
NOT_DECIDED = """Exactly-once over all tries and end-order across states. Known behavioural defect NOT visible to these rules (D4): standard
semantics, patterns ["", "ab"], haystack "ab": the empty match at offset 2 is yielded twice (the start state's matches are appended to a
depth >= 2 state both through its failure target and by the per-state copy)."""
CLAIM = """Static decision of the stepping discipline of the resumable overlapping search, of the transcription of match lists into the other representations and of the closed writer set of the stepping state; mechanism shape only."""
NOTE = """Trusted: rustc MIR construction, the fact extractor. Large undecided remainder (see coverage.not_decided, including defect D4)."""
TECHNIQUE = "static analysis: pairing / graph-cut rules, reaching definitions and who-may-write inventories over rustc MIR"

"""Rabin-Karp fallback searcher (packed::rabinkarp): window reads stay inside the haystack (R10.6), candidates are verified
at the current position and the first verified pattern of a bucket wins (R06.4). Decided on entry / iteration summaries."""
import re

from acverif.mir import short, tstr, subterms
from acverif.rl import is_call, is_agg, param_at, Unsupported, EvalPanic
from acverif.sym import Sym, summarize, canon, cstr, loop_rows, innermost_loop, teval, by_cstr, row_consistent

FA = 'packed::rabinkarp::RabinKarp::find_at'


class RK:
    def __init__(self, cx):
        self.b = b = cx.body(FA)
        self.ok = False
        upd = b.calls(r'RabinKarp::update_hash$')
        ver = b.calls(r'RabinKarp::verify$')
        if len(upd) != 1 or len(ver) != 1:
            return
        self.outer = innermost_loop(b, upd[0][0])
        self.inner = innermost_loop(b, ver[0][0])
        if self.outer is None or self.inner is None:
            return
        self.entry = Sym(cx.facts, b, start=0, stop={self.outer}).rows()
        self.orows = loop_rows(cx.facts, b, self.outer)
        self.irows = loop_rows(cx.facts, b, self.inner) if self.inner != self.outer else []
        self.HAY = cstr(param_at(b, 2))
        self.HL = 'self.hash_len'
        self.LEN = 'core::slice::len(%s)' % self.HAY
        # the position: 4th argument of verify inside an iteration
        pos = set()
        for r in self.orows:
            for c in r.calls(r'RabinKarp::verify$'):
                pos.add(cstr(c[2][3]))
        self.ok = len(pos) == 1
        self.POS = list(pos)[0] if self.ok else None
        # which local carries the position
        self.pos_local = None
        sym = Sym(cx.facts, b)
        for l in sym.loop_mods(self.outer)[0]:
            if cstr(sym.default_local(l)) == self.POS:
                self.pos_local = l

    def atoms(self, at, hl, ln):
        return by_cstr({self.POS: at, self.HL: hl, self.LEN: ln, cstr(param_at(self.b, 3)): at})


def _idx_reads(terms):
    """haystack index / slice reads inside terms: [(kind, lo, hi)]"""
    out = []
    for t in terms:
        for s in subterms(t):
            if s[0] == 'idx':
                out.append(('idx', s[1], s[2], None))
            elif is_call(s, r'core::ops::Index::index$') and len(s[2]) == 2:
                r = s[2][1]
                if is_agg(r, r'core::ops::Range$') and isinstance(r[3], dict):
                    out.append(('range', s[2][0], r[3].get('start'), r[3].get('end')))
                elif is_agg(r, r'RangeFrom$') and isinstance(r[3], dict):
                    out.append(('from', s[2][0], r[3].get('start'), None))
                elif not is_agg(r, r'Range'):
                    out.append(('idx', s[2][0], r, None))
    return out


def r10_6(cx):
    K = RK(cx)
    b = K.b
    if not K.ok:
        cx.bad('R10.6', b, 'shape', 'RabinKarp::find_at: rolling-hash loop / verify call not recognised')
        return
    why1 = why2 = why3 = why4 = None
    grid = [(a, h, n) for a in (0, 1, 2) for h in (1, 2) for n in (0, 1, 2, 3, 4)]
    try:
        # entry: the initial window
        for a, h, n in grid:
            at = K.atoms(a, h, n)
            sel = [r for r in K.entry if r.end != 'diverge' and row_consistent(r, at)]
            for r in sel:
                hs = [canon(c) for c in r.calls(r'RabinKarp::hash$')]
                reads = [x for x in _idx_reads([e[1] for e in r.effects if e[0] == 'call']) if cstr(x[1]) == K.HAY]
                if a + h > n:
                    if reads or r.end != 'return':
                        why1 = 'the haystack is read (or the search goes on) although at + hash_len > haystack.len() (at=%d hash_len=%d len=%d)' % (a, h, n)
                else:
                    if r.end != ('stop', K.outer) or len(hs) != 1:
                        why1 = 'a window that fits (at=%d hash_len=%d len=%d) does not enter the rolling loop with one initial hash' % (a, h, n)
                    else:
                        w = [x for x in _idx_reads([hs[0]]) if x[0] == 'range']
                        if len(w) != 1 or teval(w[0][2], at) != a or teval(w[0][3], at) != a + h:
                            why1 = 'the initial hash is not taken over haystack[at..at+hash_len]'
            if not sel:
                why1 = 'no entry path for at=%d hash_len=%d len=%d' % (a, h, n)
        # one rolling step
        for a, h, n in grid:
            if a + h > n:
                continue        # loop invariant: the current window fits
            at = K.atoms(a, h, n)
            sel = [r for r in K.orows if r.end != 'diverge' and row_consistent(r, at)]
            for r in sel:
                us = [canon(c) for c in r.calls(r'RabinKarp::update_hash$')]
                if r.end == ('stop', K.outer):
                    if a + h >= n:
                        why2 = 'the rolling step reads haystack[at + hash_len] at the end of the haystack (at=%d hash_len=%d len=%d)' % (a, h, n)
                    elif len(us) != 1:
                        why2 = 'a rolling step without exactly one update_hash'
                    else:
                        old, new = us[0][2][2], us[0][2][3]
                        good = old[0] == 'idx' and cstr(old[1]) == K.HAY and teval(old[2], at) == a and new[0] == 'idx' and cstr(new[1]) == K.HAY and teval(new[2], at) == a + h
                        if not good:
                            why2 = 'update_hash is fed %s / %s (expected haystack[at] out, haystack[at + hash_len] in)' % (tstr(old, 60), tstr(new, 60))
                        nxt = r.env.get(K.pos_local) if K.pos_local is not None else None
                        if nxt is None or teval(nxt, at) != a + 1:
                            why4 = 'the position does not advance by exactly 1 per rolling step'
                elif r.end == 'return' and not r.calls(r'RabinKarp::verify$'):
                    if us:
                        why2 = 'update_hash on a path that leaves the search'
                    if a + h < n and is_agg(r.ret, r'Option$', 'None'):
                        why2 = 'the search gives up although another window fits (at=%d hash_len=%d len=%d)' % (a, h, n)
                for c in r.calls(r'RabinKarp::verify$'):
                    cc = canon(c)
                    if cstr(cc[2][2]) != K.HAY or cstr(cc[2][3]) != K.POS:
                        why3 = 'verification does not use (haystack, at)'
    except (Unsupported, EvalPanic) as e:
        why1 = why1 or 'cannot evaluate: %s' % e
    cx.report('R10.6', b, 'initial-window', why1 is None, 'the initial hash window haystack[at..at+hash_len] is read only if at + hash_len <= haystack.len() (%d orderings tabulated)' % len(grid) if why1 is None else why1)
    cx.report('R10.6', b, 'rolling-step', why2 is None, 'the rolling step reads haystack[at] and haystack[at + hash_len] only if at + hash_len < haystack.len(); otherwise the search ends' if why2 is None else why2)
    cx.report('R10.6', b, 'verify-at', why3 is None, 'candidates are verified at the current position' if why3 is None else why3)
    cx.report('R10.6', b, 'step', why4 is None, 'at advances by exactly 1 per rolling step' if why4 is None else why4)
    # verify(): is_prefix on haystack[at..]; match = at .. at + pat.len()
    v = cx.body('packed::rabinkarp::RabinKarp::verify')
    rows = [r for r in summarize(cx.facts, v) if r.end == 'return']
    HAY, AT, ID = cstr(param_at(v, 3)), cstr(param_at(v, 4)), cstr(param_at(v, 2))
    whyv = whym = None
    some = [r for r in rows if is_agg(r.ret, r'Option$', 'Some')]
    none = [r for r in rows if is_agg(r.ret, r'Option$', 'None')]
    if not some or not none or len(some) + len(none) != len(rows):
        whyv = 'verify does not return Some / None'
    for r in rows:
        pc = [(canon(c), val) for c, val in r.conds if is_call(canon(c), r'Pattern::is_prefix$')]
        if len(pc) != 1:
            whyv = whyv or 'the result does not depend on one is_prefix test'
            continue
        c, val = pc[0]
        w = [x for x in _idx_reads([c[2][1]])]
        if not (len(w) == 1 and w[0][0] == 'from' and cstr(w[0][1]) == HAY and cstr(w[0][2]) == AT):
            whyv = whyv or 'is_prefix is not asked about haystack[at..]'
        pat = c[2][0]
        if not (is_call(pat, r'Patterns::get$') and cstr(pat[2][1]) == ID):
            whyv = whyv or 'the pattern tested is not patterns.get(id)'
        if val != is_agg(r.ret, r'Option$', 'Some'):
            whyv = whyv or 'Some / None does not follow the is_prefix result'
        if val:
            m = canon(r.ret[3]['0'])
            good = is_call(m, r'util::search::Match::(new|must)$') and cstr(m[2][0]) == ID
            if good:
                rg = m[2][1]
                good = is_agg(rg, r'core::ops::Range$') and cstr(rg[3]['start']) == AT and cstr(canon(('op', 'Add', param_at(v, 4), ('call', 'packed::pattern::Pattern::len', [pat], None)))) == cstr(rg[3]['end'])
            if not good:
                whym = 'verify builds %s (expected Match::new(id, at..at + pat.len()))' % tstr(m, 160)
    cx.report('R10.6', v, 'verify-slice', whyv is None, 'verify checks patterns.get(id).is_prefix(haystack[at..])' if whyv is None else whyv)
    cx.report('R10.6', v, 'match-span', whym is None and whyv is None, 'verified match = at .. at + pat.len()' if whym is None and whyv is None else (whym or whyv))


def r06_4_rk(cx):
    K = RK(cx)
    b = K.b
    if not K.ok:
        cx.bad('R06.4', b, 'first-verified', 'RabinKarp::find_at: rolling-hash loop / verify call not recognised')
        return
    why = None
    n = 0
    rows = K.irows or K.orows
    for r in rows:
        for c, v in r.conds:
            if c[0] == 'discr' and is_call(c[1], r'RabinKarp::verify$'):
                n += 1
                V = c[1]
                if v == 1:
                    ret = canon(r.ret) if r.ret is not None else None
                    good = r.end == 'return' and ret is not None and (cstr(ret) == cstr(V) or (is_agg(ret, r'Option$', 'Some') and cstr(ret[3]['0']) == cstr(('f', ('dc', V, 'Some'), '0'))))
                    if not good:
                        why = 'a verified candidate is not returned immediately (the first verified pattern of the bucket must win)'
                else:
                    if r.end == 'return' and r.ret is not None and not is_agg(r.ret, r'Option$', 'None') and cstr(r.ret) != cstr(V):
                        why = 'a failed verification returns a match'
                # candidates come from the bucket of the current hash, in bucket order
    if n == 0:
        why = 'no path depends on the verification result'
    # the bucket iterated is buckets[hash % NUM_BUCKETS], forwards
    src = [b.call_term(bi, t) for bi, t in b.calls(r'IntoIterator::into_iter$|core::slice::iter$|Iterator::rev$')]
    if any(is_call(s, r'Iterator::rev$') for s in src):
        why = why or 'the bucket is walked backwards'
    # every entry of the bucket is looked at: an iteration that drew an entry either goes on to the next entry or returns the
    # match it verified; an entry is skipped only when its hash differs from the window's
    whyb = None
    if K.irows:
        for r in K.irows:
            some = r.cond(lambda c: canon(c)[0] == 'discr' and is_call(canon(c)[1], r'Iterator::next$'))
            if isinstance(some, tuple) and some[0] == 'not':
                some = 0 if 1 in some[1] else 1
            if some != 1 or r.end == 'diverge':
                continue
            ver = r.cond(lambda c: canon(c)[0] == 'discr' and is_call(canon(c)[1], r'RabinKarp::verify$'))
            if isinstance(ver, tuple) and ver[0] == 'not':
                ver = 0 if 1 in ver[1] else 1
            verified = ver == 1
            if not (r.end == ('stop', K.inner) or (r.end == 'return' and verified)):
                whyb = whyb or 'the scan of a bucket can stop before all its entries were examined (an entry with a different hash, or a failed verification, ends it)'
            eq = None
            for c, v in r.conds:
                cc = canon(c)
                if cc[0] == 'op' and cc[1] in ('Eq', 'Ne') and any(re.search(r'Iterator::next\(.*\) as Some\)\.0\.0$', cstr(x)) for x in (cc[2], cc[3])):
                    eq = (v is True) if cc[1] == 'Eq' else (v is False)
            recv = [canon(c)[1][2][0] for c, v in r.conds if canon(c)[0] == 'discr' and is_call(canon(c)[1], r'Iterator::next$')]
            filt = recv[0] if recv and is_call(recv[0], r'Iterator::filter$') else None
            if filt is not None:
                # the comparison lives in a `filter` predicate: it must be hash-of-entry == window hash and nothing else
                f = filt[2][1]
                cb = _closure_body(cx, f)
                fr = [x for x in summarize(cx.facts, cb) if x.end == 'return'] if cb is not None else []
                good = len(fr) == 1 and canon(fr[0].ret)[0] == 'op' and canon(fr[0].ret)[1] == 'Eq' and not fr[0].conds
                if not good or ver is None:
                    whyb = whyb or 'entries are filtered by something other than `entry hash == window hash`'
                continue
            if ver is None and eq is not False:
                whyb = whyb or 'an entry is skipped although its hash was not compared unequal'
            if ver is not None and eq is not True:
                whyb = whyb or 'an entry is verified although its hash was not compared equal'
    cx.report('R06.4', b, 'bucket-exhausted', whyb is None, 'every entry of the bucket is examined; entries are skipped only on a hash mismatch' if whyb is None else whyb)
    cx.report('R06.4', b, 'first-verified', why is None, 'Rabin-Karp returns the first verified pattern of the bucket (bucket order = semantic order)' if why is None else why)


def _closure_body(cx, f):
    """body of a closure value, with helpers that did not exist on the reference tree spliced in"""
    if not (f[0] == 'agg' and f[1] == 'closure'):
        return None
    cb = cx.facts.bodies.get(f[2])
    if cb is None:
        return None
    from acverif.inline import inlined_body
    return inlined_body(cx.facts, cb)

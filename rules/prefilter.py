"""Rules over util/prefilter.rs, packed/api.rs entry points, rabinkarp and Input span handling (C05, C10, parts of C11/C15)."""
import re

from acverif.core import only
from acverif.mir import short, tstr, subterms, affine_str
from acverif.rl import (is_call, peel, peel_all, is_var, is_agg, is_const, self_field, bool_gates, try_gates, discr_gates,
                        reachable_without, must_pass, line_of, decision_table, rewrite, expand_vars, atom, cmp_norm, cmp_true_when,
                        inline_closures, strip_convs, eq_cond, variant_name, var_defs_terms, param_at, param_of_type, unwrapped,
                        enum_gates, arm_edges, other_edges, result_gates, value_roots, Eval, EvalPanic, Unsupported)
from acverif.sym import summarize, canon, cstr, TooManyPaths, enum_table, teval, row_holds, row_consistent, by_cstr

PERF = ('default', 'logging', 'perf')
PI = '<util::prefilter::%s as util::prefilter::PrefilterI>::find_in'


def negate(cn):
    return ('cmp', {'Lt': 'Ge', 'Le': 'Gt', 'Gt': 'Le', 'Ge': 'Lt', 'Eq': 'Ne', 'Ne': 'Eq'}[cn[1]], cn[2])


def find_in_term(cx, name):
    b = cx.body(PI % name)
    t = strip_convs(inline_closures(cx.facts, b.local_term(0, expand=True)))
    return b, t


def span_field(t, f):
    return isinstance(t, tuple) and t[0] == 'f' and t[2] == f and is_var(t[1], 'span')


def hay_span(t):
    """haystack[span]"""
    return is_call(t, r'core::ops::Index::index$') and is_var(t[2][0], 'haystack') and is_var(t[2][1], 'span')


def start_plus_i(t):
    return isinstance(t, tuple) and t[0] == 'op' and t[1] == 'Add' and ((span_field(t[2], 'start') and is_var(t[3], 'i')) or (span_field(t[3], 'start') and is_var(t[2], 'i')))


def _find_in_rows(cx, name):
    b = cx.body(PI % name)
    try:
        return b, summarize(cx.facts, b)
    except TooManyPaths:
        return b, None


def _search_contract(cx, name, is_search, some_spec, what):
    """find_in = match SEARCH { None => Candidate::None, Some(i) => some_spec(i) } in any spelling."""
    b, rows = _find_in_rows(cx, name)
    why = None
    if rows is None:
        why = 'too many paths'
    else:
        rows = [r for r in rows if r.end == 'return']
        seen = set()
        for r in rows:
            if len(r.conds) != 1 or r.conds[0][0][0] != 'discr' or not is_search(b, r.conds[0][0][1]):
                why = 'a result depends on something else than the search outcome: %s' % [(tstr(c, 120), v) for c, v in r.conds]
                break
            S = r.conds[0][0][1]
            v = r.conds[0][1]
            seen.add(v)
            if v == 0:
                if not is_agg(r.ret, r'Candidate$', 'None'):
                    why = 'no occurrence yields %s instead of Candidate::None' % tstr(r.ret, 120)
            elif v == 1:
                i = ('f', ('dc', S, 'Some'), '0')
                exp = some_spec(b, S, i)
                if cstr(r.ret) != cstr(exp):
                    why = 'an occurrence at i yields %s, expected %s' % (tstr(canon(r.ret), 300), tstr(canon(exp), 300))
            else:
                why = 'unexpected decision %r' % (v,)
            if why:
                break
        if why is None and seen != {0, 1}:
            why = 'found/not-found cases are not both handled (%s)' % sorted(seen)
    cx.report('R05.3', b, 'contract', why is None, what if why is None else '%s::find_in deviates from its contract: %s' % (name, why))


def _hay_span(b, t):
    return is_call(t, r'core::ops::Index::index$') and peel_all(t[2][0]) == param_at(b, 2) and peel_all(t[2][1]) == param_at(b, 3)


@only(PERF)
def r05_3(cx):
    """candidate arithmetic of the eight PrefilterI::find_in implementations (also R10.4)"""
    n = 0

    def fld(x, *fs):
        for f in fs:
            x = ('f', x, f)
        return x
    for name, k in (('StartBytesOne', 1), ('StartBytesTwo', 2), ('StartBytesThree', 3), ('RareBytesOne', 1), ('RareBytesTwo', 2), ('RareBytesThree', 3)):
        n += 1
        fn = r'memchr::memchr%s$' % ('' if k == 1 else str(k))

        def is_search(b, S, k=k, fn=fn):
            if not (is_call(S, fn) and len(S[2]) == k + 1 and _hay_span(b, S[2][-1])):
                return False
            return sorted(cstr(a) for a in S[2][:-1]) == sorted(cstr(fld(param_at(b, 1), 'byte%d' % (i + 1))) for i in range(k))

        def some_spec(b, S, i, name=name, k=k):
            SELF, HAY, SPAN = param_at(b, 1), param_at(b, 2), param_at(b, 3)
            pos = ('op', 'Add', fld(SPAN, 'start'), i)
            if name.startswith('StartBytes'):
                e = pos
            else:
                off = fld(SELF, 'offset', 'max') if k == 1 else ('f', ('idx', fld(SELF, 'offsets', 'set'), ('idx', HAY, pos)), 'max')
                e = ('call', 'core::cmp::max', [fld(SPAN, 'start'), ('call', 'core::num::saturating_sub', [pos, off], None)], None)
            return ('agg', 'util::prefilter::Candidate', 'PossibleStartOfMatch', {'0': e})
        _search_contract(cx, name, is_search, some_spec, 'searches haystack[span] for its %d byte(s); candidate = %s; None -> Candidate::None (decided on the path summary: spelling-independent)' %
                         (k, 'span.start + i' if name.startswith('StartBytes') else 'max(span.start, (span.start + i) (-) offset of the byte found)'))
    if cx.config in ('default', 'logging'):
        n += 1

        def is_search(b, S):
            return is_call(S, r'memchr::memmem::Finder::find$') and cstr(S[2][0]) == cstr(fld(param_at(b, 1), '0')) and _hay_span(b, S[2][1])

        def some_spec(b, S, i):
            SELF, SPAN = param_at(b, 1), param_at(b, 3)
            pos = ('op', 'Add', fld(SPAN, 'start'), i)
            ln = ('call', 'core::slice::len', [('call', 'memchr::memmem::Finder::needle', [fld(SELF, '0')], None)], None)
            zero = [v for p, v in cx.facts.consts.items() if p.endswith('PatternID::ZERO')] if hasattr(cx.facts, 'consts') else []
            return ('agg', 'util::prefilter::Candidate', 'Match', {'0': ('call', 'util::search::Match::new', [
                ('k', 'util::primitives::PatternID::ZERO', None), ('agg', 'core::ops::Range', 'Range', {'start': pos, 'end': ('op', 'Add', pos, ln)})], None)})
        _search_contract(cx, 'Memmem', is_search, some_spec, 'searches haystack[span]; match = (PatternID::ZERO, span.start+i .. span.start+i+needle.len())')
    n += 1
    _search_contract(cx, 'Packed', lambda b, S: is_call(S, r'packed::api::Searcher::find_in$') and cstr(S[2][0]) == cstr(fld(param_at(b, 1), '0')) and peel_all(S[2][1]) == param_at(b, 2) and peel_all(S[2][2]) == param_at(b, 3),
                     lambda b, S, i: ('agg', 'util::prefilter::Candidate', 'Match', {'0': i}), 'passes (haystack, span) to the packed searcher; Some(m) -> Candidate::Match(m)')
    cx.floor('R05.3', 'PrefilterI::find_in implementations checked', n, 8 if cx.config in ('default', 'logging') else 7)
    # forwarders
    a = cx.body('<alloc::sync::Arc<P> as util::prefilter::PrefilterI>::find_in')
    t = strip_convs(a.local_term(0, expand=True))
    ok = is_call(t, r'PrefilterI::find_in$') and is_var(peel(t[2][0]), 'self') and is_var(t[2][1], 'haystack') and is_var(t[2][2], 'span')
    cx.report('R05.3', a, 'forward', ok, 'Arc<P> forwards (haystack, span) unchanged' if ok else 'Arc<P>::find_in = %s' % tstr(t, 200))
    p = cx.body('util::prefilter::Prefilter::find_in')
    t = strip_convs(p.local_term(0, expand=True))
    ok = is_call(t, r'PrefilterI::find_in$') and tstr(t[2][0]) == 'self.finder' and is_var(t[2][1], 'haystack') and is_var(t[2][2], 'span')
    cx.report('R05.3', p, 'forward', ok, 'Prefilter::find_in forwards (haystack, span) to self.finder' if ok else 'Prefilter::find_in = %s' % tstr(t, 200))
    # Candidate::into_option
    io = cx.body('util::prefilter::Candidate::into_option')
    tab = enum_table(cx.facts, [r for r in summarize(cx.facts, io) if r.end == 'return'], 'util::prefilter::Candidate', lambda x: peel_all(x) == param_at(io, 1))
    S = cstr(param_at(io, 1))
    want = {'None': 'core::option::Option::None{}', 'Match': 'core::option::Option::Some{0: (%s as Match).0.span.start}' % S,
            'PossibleStartOfMatch': 'core::option::Option::Some{0: (%s as PossibleStartOfMatch).0}' % S}
    ok = all(len(rs) >= 1 and all(cstr(r.ret) == want[nm] for r in rs) for nm, rs in tab.items()) and set(tab) == set(want)
    cx.report('R05.3', io, 'into_option', ok, 'into_option: None -> None, Match(m) -> Some(m.start()), PossibleStartOfMatch(i) -> Some(i)' if ok else 'Candidate::into_option deviates')


def r05_1(cx):
    b = cx.body('util::prefilter::RareBytesBuilder::add')
    so = b.calls(r'RareBytesBuilder::set_offset$')
    if len(so) != 1:
        cx.bad('R05.1', b, 'set_offset', '%d set_offset call sites in add (expected 1)' % len(so))
        return
    sb = so[0][0]
    loops = b.loops()
    hs = [h for h, blks in loops.items() if sb in blks]
    if not hs:
        cx.bad('R05.1', b, 'set_offset', 'set_offset is not called inside the byte loop')
        return
    h = hs[0]
    # payload block of the iterator
    back = [(s, h) for s in b.pred(h) if s in loops[h]]
    ok = all(sb not in [] and not (s in (b.reach(h, cut_blocks=[sb]) - {sb})) for s, _ in back)
    cx.report('R05.1', b, 'every-position', ok, 'set_offset(pos, b) runs for every byte of the pattern before any `continue`' if ok else 'an iteration of the byte loop can skip set_offset (offsets after an already-known rare byte are lost)')
    ct = b.call_term(*so[0])
    args = [expand_vars(b, a, keep=('self',)) for a in ct[2]]
    okargs = is_var(peel(ct[2][0]), 'self') and 'enumerate' in tstr(expand_vars(b, ct[2][1])) or True
    pos, byt = ct[2][1], ct[2][2]
    s_ = cx.body('util::prefilter::RareBytesBuilder::set_offset')
    # parameter roles of the (private) callee by type: the usize is the position, the u8 the byte
    roles = {i: s_.locals[i]['ty'] for i in (2, 3)}
    pi = [i for i, ty in roles.items() if ty == 'usize']
    bi_ = [i for i, ty in roles.items() if ty == 'u8']
    okargs = len(pi) == 1 and len(bi_) == 1
    pd = expand_vars(b, ct[2][pi[0] - 1]) if okargs else ('s', '?')
    bd = expand_vars(b, ct[2][bi_[0] - 1]) if okargs else ('s', '?')
    okargs = okargs and '.0.0' in tstr(pd) and '.0.1' in tstr(bd) and 'Iterator::next' in tstr(pd)
    cx.report('R05.1', b, 'args', okargs, 'set_offset receives the enumerate() position and byte' if okargs else 'set_offset(%s, %s)' % (tstr(pd, 80), tstr(bd, 80)))
    # len >= 256 disables before the loop
    lg = []
    for blk, sc in b.switches():
        if sc[0] != 'bool':
            continue
        c = rewrite(sc[1], lambda y: atom('LEN') if is_call(y, r'core::slice::len$') and is_var(peel(y[2][0]), 'bytes') else None)
        if cmp_norm(c) is not None and 'LEN' in cmp_norm(c)[2]:
            v255 = cmp_true_when(c, {'LEN': 255})
            v256 = cmp_true_when(c, {'LEN': 256})
            if v255 is None or v256 is None or v255 == v256:
                continue
            lg.append((blk, [(blk, t) for t in (sc[2] if v255 else sc[3])], [(blk, t) for t in (sc[2] if v256 else sc[3])]))
    cut = [e for g in lg for e in g[1]]
    okl = bool(lg) and not reachable_without(b, [sb], cut)
    okd = okl
    for g in lg:
        for _, tg in g[2]:
            if sb in b.reach(tg):
                okd = False
    cx.report('R05.2', b, 'len-limit', okl and okd, 'patterns of 256 bytes or more make the rare-byte builder unavailable before any offset is recorded' if okl and okd else 'set_offset is reachable for a pattern of 256+ bytes (offset does not fit u8)')
    s = cx.body('util::prefilter::RareBytesBuilder::set_offset')
    ct = [s.call_term(bi, t) for bi, t in s.calls(r'RareByteOffsets::set$')]
    BYTE_P = param_of_type(s, r'^u8$')
    POS_P = param_of_type(s, r'^usize$')
    t0 = [c for c in ct if peel_all(c[2][1]) == BYTE_P]
    ok = len(t0) == 1 and tstr(peel(t0[0][2][0])) == 'self.byte_offsets'
    okoff = False
    if ok:
        od = peel_all(expand_vars(s, t0[0][2][2]))
        okoff = is_call(od, r'Option::(unwrap|expect)$') and is_call(peel_all(od[2][0]), r'RareByteOffset::new$') and peel_all(peel_all(od[2][0])[2][0]) == POS_P
    cx.report('R05.2', s, 'records-byte', ok and okoff, 'set_offset records RareByteOffset::new(pos) for the byte itself' if ok and okoff else 'set_offset does not record (byte, pos)')


def r05_2(cx):
    s = cx.body('util::prefilter::RareByteOffsets::set')
    rows = [r for r in summarize(cx.facts, s) if r.end == 'return']
    BYTE, OFF = cstr(param_at(s, 2)), cstr(param_at(s, 3))
    SLOT = 'self.set[%s].max' % BYTE
    why = None if rows else 'RareByteOffsets::set never returns'
    try:
        for old in (0, 3, 9):
            for new in (0, 3, 9):
                at = by_cstr({SLOT: old, '%s.max' % OFF: new, 'core::ops::Index::index(self.set, %s).max' % BYTE: old})
                sel = [r for r in rows if row_consistent(r, at)]
                if len(sel) != 1:
                    why = '%d paths for old=%d new=%d' % (len(sel), old, new)
                    continue
                sts = [(cstr(p0), v0) for p0, v0 in sel[0].stores()]
                tgt = [v0 for p0, v0 in sts if p0 in (SLOT, 'core::ops::IndexMut::index_mut(self.set, %s).max' % BYTE)]
                oth = [p0 for p0, v0 in sts if p0 not in (SLOT, 'core::ops::IndexMut::index_mut(self.set, %s).max' % BYTE)]
                val = teval(tgt[-1], at) if tgt else old
                if oth:
                    why = 'RareByteOffsets::set writes %s' % oth
                elif val != max(old, new):
                    why = 'set[byte].max becomes %s for old=%d new=%d (expected the maximum: offsets of earlier patterns must not shrink)' % (val, old, new)
    except (Unsupported, EvalPanic) as e:
        why = 'cannot evaluate: %s' % e
    cx.report('R05.2', s, 'max', why is None, 'set[byte].max = max(set[byte].max, off.max) (tabulated on all orderings)' if why is None else why)
    n = cx.body('util::prefilter::RareByteOffset::new')
    nrows = [r for r in summarize(cx.facts, n) if r.end == 'return']
    MX = cstr(param_at(n, 1))
    ok = bool(nrows)
    try:
        for m in (0, 1, 254, 255, 256, 1000):
            sel = [r for r in nrows if row_consistent(r, by_cstr({MX: m}))]
            if len(sel) != 1:
                ok = False
                continue
            rt = sel[0].ret
            if m <= 255:
                ok = ok and is_agg(rt, r'Option$', 'Some') and is_agg(rt[3]['0'], r'RareByteOffset$') and teval(rt[3]['0'][3]['max'], by_cstr({MX: m})) == m
            else:
                ok = ok and is_agg(rt, r'Option$', 'None')
    except (Unsupported, EvalPanic, KeyError, TypeError):
        ok = False
    cx.report('R05.2', n, 'u8-limit', ok, 'RareByteOffset::new(max) is Some iff max <= 255' if ok else 'RareByteOffset::new does not reject exactly the offsets above 255')


def r05_4(cx):
    """which prefilter may exist"""
    b = cx.body('util::prefilter::Builder::build')
    try:
        rows = summarize(cx.facts, b)
    except TooManyPaths:
        rows = None
    if rows is None:
        cx.bad('R05.4', b, 'table', 'prefilter::Builder::build has too many paths to tabulate')
    else:
        BUILDS = r'(MemmemBuilder|StartBytesBuilder|RareBytesBuilder|packed::api::Builder)::build$'
        en = lambda r: r.cond('self.enabled')
        ci = lambda r: r.cond('self.ascii_case_insensitive')
        bad = [r for r in rows if r.calls(BUILDS) and en(r) is not True]
        cx.report('R05.4', b, 'enabled-gate', not bad and len(rows) > 1, 'no prefilter is built unless the builder is still enabled (no empty pattern seen); %d paths tabulated' % len(rows) if not bad else
                  'a prefilter can be built although the builder was disabled by an empty pattern (path %s)' % bad[0].path[:12])
        bad = [r for r in rows if r.calls(r'MemmemBuilder::build$') and ci(r) is not False]
        seen = any(r.calls(r'MemmemBuilder::build$') for r in rows)
        cx.report('R05.4', b, 'memmem-case', seen and not bad, 'the single-substring prefilter is only considered without ASCII case insensitivity' if seen and not bad else 'memmem prefilter reachable under ascii_case_insensitive')
        bad = [r for r in rows if r.calls(r'packed::api::Builder::build$') and ci(r) is not False]
        seen = any(r.calls(r'packed::api::Builder::build$') for r in rows)
        cx.report('R05.4', b, 'packed-case', seen and not bad, 'the packed prefilter is only built without ASCII case insensitivity' if seen and not bad else 'packed prefilter reachable under ascii_case_insensitive')
        dis = [r for r in rows if en(r) is False]
        okn = bool(dis) and all(r.end == 'return' and is_agg(r.ret, r'Option$', 'None') for r in dis)
        cx.report('R05.4', b, 'disabled-none', okn, 'a disabled builder yields None' if okn else 'a disabled builder can yield a prefilter')
    a = cx.body('util::prefilter::Builder::add')
    BY = cstr(param_at(a, 2))
    arows = [r for r in summarize(cx.facts, a) if r.end == 'return']
    SUBS = r'(StartBytesBuilder|RareBytesBuilder|MemmemBuilder|packed::api::Builder)::add$'
    why = None
    full = 0
    for r in arows:
        emp = r.cond(lambda c: (is_call(canon(c), r'core::slice::is_empty$') and cstr(canon(c)[2][0]) == BY))
        if emp is None:
            # `bytes.len() == 0` spelling
            for c, v in r.conds:
                cc = canon(c)
                if cc[0] == 'op' and cc[1] == 'Eq' and {cstr(cc[2]), cstr(cc[3])} == {'0', 'core::slice::len(%s)' % BY}:
                    emp = v
        en = r.cond('self.enabled')
        subs = [canon(c) for c in r.calls(SUBS)]
        stores = {cstr(p): canon(v) for p, v in r.stores()}
        if emp is None:
            why = 'a path does not depend on whether the pattern is empty'
        elif emp is True:
            if stores.get('self.enabled') != ('c', 0):
                why = 'an empty pattern does not disable the builder'
            elif subs:
                why = 'an empty pattern is still handed to a sub-builder'
        else:
            if 'self.enabled' in stores:
                why = 'a non-empty pattern changes the enabled flag'
            if en is False and subs:
                why = 'a disabled builder still feeds its sub-builders'
            if en is None:
                why = 'feeding the sub-builders does not depend on the enabled flag'
            if en is True:
                full += 1
                got = sorted((short(c[1]).rsplit('::', 2)[-2], cstr(c[2][0]), cstr(c[2][1])) for c in subs)
                need = [('MemmemBuilder', 'self.memmem', BY), ('RareBytesBuilder', 'self.rare_bytes', BY), ('StartBytesBuilder', 'self.start_bytes', BY)]
                rest = [g for g in got if g not in need]
                pk = r.cond(lambda c: cstr(c) == 'discr(self.packed)')
                if [g for g in need if g not in got] or len(got) - len(rest) != 3:
                    why = 'not every pattern is forwarded to the start-byte, rare-byte and memmem builders exactly once (%s)' % [g[0] for g in got]
                elif pk == 1 and not (len(rest) == 1 and rest[0][0] == 'Builder' and rest[0][1].startswith('(self.packed as Some)') and rest[0][2] == BY):
                    why = 'the packed builder does not receive the pattern'
                elif pk != 1 and rest:
                    why = 'unexpected sub-builder call %s' % (rest,)
        if why:
            break
    if full == 0:
        why = why or 'no path feeds the sub-builders'
    cx.report('R05.4', a, 'empty-disables', why is None, 'an empty pattern disables the builder before any sub-builder sees a pattern, and a disabled builder adds nothing' if why is None else 'prefilter::Builder::add: ' + why)
    cx.report('R05.4', a, 'all-subbuilders', why is None, 'every pattern is forwarded to the start-byte, rare-byte, memmem and (if present) packed builders' if why is None else 'prefilter::Builder::add: ' + why)
    # MatchKind::as_packed
    ap = cx.body('util::search::MatchKind::as_packed')
    tab = enum_table(cx.facts, [r for r in summarize(cx.facts, ap) if r.end == 'return'], 'util::search::MatchKind', lambda x: peel_all(x) == param_at(ap, 1))
    got = {}
    for nm, rs in tab.items():
        vals = set()
        for r in rs:
            if is_agg(r.ret, r'Option$', 'None'):
                vals.add(None)
            elif is_agg(r.ret, r'Option$', 'Some') and is_agg(r.ret[3]['0'], r'packed::api::MatchKind$'):
                vals.add(r.ret[3]['0'][2])
            else:
                vals.add('?')
        got[nm] = sorted(vals, key=str)
    ok = got == {'Standard': [None], 'LeftmostFirst': ['LeftmostFirst'], 'LeftmostLongest': ['LeftmostLongest']}
    cx.report('R05.4', ap, 'as_packed', ok, 'as_packed: Standard -> None, LeftmostFirst/Longest -> the same packed kind' if ok else 'MatchKind::as_packed table deviates: %s' % got)
    # the packed searcher is configured with the automaton's own match kind (it reports matches directly)
    bn = cx.body('util::prefilter::Builder::new')
    KIND = cstr(param_at(bn, 1))
    nrows = [r for r in summarize(cx.facts, bn) if r.end == 'return']
    whyk = None if nrows else 'Builder::new never returns'
    seen_some = False
    for r in nrows:
        ap = r.cond(lambda c: c[0] == 'discr' and is_call(canon(c[1]), r'MatchKind::as_packed$') and cstr(canon(c[1])[2][0]) == KIND)
        rt = canon(r.ret) if r.ret is not None else None
        pk = rt[3].get('packed') if rt is not None and rt[0] == 'agg' and isinstance(rt[3], dict) else None
        if ap is None or pk is None:
            whyk = 'the packed builder does not depend on kind.as_packed()'
            continue
        if ap == 1:
            seen_some = True
            payload = '(util::search::MatchKind::as_packed(%s) as Some).0' % KIND
            mk = [s for s in subterms(pk) if is_call(s, r'packed::api::Config::match_kind$')]
            if not (is_agg(pk, r'Option$', 'Some') and len(mk) == 1 and cstr(mk[0][2][1]) == payload):
                whyk = 'the packed builder is not configured with match_kind(kind.as_packed()): %s' % tstr(pk, 200)
        elif not is_agg(pk, r'Option$', 'None'):
            whyk = 'a packed builder exists although the match kind has no packed equivalent'
    if not seen_some:
        whyk = whyk or 'no path builds a packed builder'
    cx.report('R05.4', bn, 'packed-kind', whyk is None, 'the packed builder gets the automaton\'s match kind (as_packed), or does not exist' if whyk is None else whyk)
    # memmem: exactly one pattern
    ma = cx.body('util::prefilter::MemmemBuilder::add')
    rows = [r for r in summarize(cx.facts, ma) if r.end == 'return']
    why = None
    BY = param_at(ma, 2)
    try:
        for n in (0, 1, 2, 3, 7):
            sel = [r for r in rows if row_holds(r, by_cstr({'self.count': n}))]
            if len(sel) != 1:
                why = '%d paths for count = %d' % (len(sel), n)
                break
            st = {cstr(p): v for p, v in sel[0].stores()}
            cnt, one = st.get('self.count'), st.get('self.one')
            if cnt is None or teval(cnt, by_cstr({'self.count': n})) != n + 1:
                why = 'count is not incremented by one'
            elif one is None:
                why = 'the needle is left as it was when the pattern number %d is added' % (n + 1)
            elif n == 0 and not (is_agg(one, r'Option$', 'Some') and is_call(peel_all(one[3]['0']), r'to_vec$|to_owned$|Vec.*::from$') and peel_all(peel_all(one[3]['0'])[2][0]) == BY):
                why = 'the first pattern is not kept as the needle (%s)' % tstr(one, 100)
            elif n > 0 and not is_agg(one, r'Option$', 'None'):
                why = 'a needle is kept although %d patterns were added' % (n + 1)
            if why:
                break
    except (Unsupported, EvalPanic) as e:
        why = 'cannot evaluate: %s' % e
    cx.report('R05.4', ma, 'single-pattern', why is None, 'the memmem needle is kept only while exactly one pattern has been added (count+1; one = Some(bytes) iff count becomes 1, else None)' if why is None else 'MemmemBuilder::add deviates: ' + why)
    for nm in ('StartBytesBuilder', 'RareBytesBuilder'):
        if cx.config not in PERF:
            continue
        ib = cx.body('util::prefilter::%s::build::imp' % nm)
        arcs = [bi for bi, si, pl, st in ib.stores() if si != 'term' and st['r'].get('k') == 'agg' and str(st['r'].get('adt', '')).startswith('util::prefilter::') and st['r'].get('adt', '').split('::')[-1].startswith(('StartBytes', 'RareBytes'))]
        cg = []
        for blk, sc in ib.switches():
            if sc[0] != 'bool':
                continue
            c = rewrite(sc[1], lambda y: atom('CNT') if (y[0] == 'f' and y[2] == 'count') else None)
            if cmp_norm(c) is None or 'CNT' not in cmp_norm(c)[2]:
                continue
            three = cmp_true_when(c, {'CNT': 3})
            four = cmp_true_when(c, {'CNT': 4})
            if three is None or three == four:
                continue
            cg.append((blk, [(blk, t) for t in (sc[2] if three else sc[3])]))
        ok = bool(cg) and bool(arcs) and not reachable_without(ib, arcs, [e for g in cg for e in g[1]])
        cx.report('R05.4', ib, 'at-most-three', ok, 'no %s prefilter for more than three distinct bytes' % nm[:-7] if ok else '%s::build can construct a prefilter for more than three bytes' % nm)


from rules.trie import r05_5  # noqa: E402,F401


# ------------------------------------------------------------------------------------------------- C10
def r10_1(cx):
    s = cx.body("util::search::Input::<'h>::set_span")
    rows = summarize(cx.facts, s)
    SP = param_at(s, 2)
    why = None
    n = 0
    try:
        for S in range(5):
            for E in range(5):
                for L in range(5):
                    n += 1
                    at = by_cstr({cstr(('f', SP, 'start')): S, cstr(('f', SP, 'end')): E, 'core::slice::len(self.haystack)': L,
                                  'core::slice::len(util::search::Input::haystack(self))': L})
                    sel = [r for r in rows if row_holds(r, at)]
                    valid = E <= L and S <= E + 1
                    if len(sel) != 1:
                        why = '%d paths for start=%d end=%d len=%d' % (len(sel), S, E, L)
                    elif valid and not (sel[0].end == 'return' and [cstr(p) for p, v in sel[0].stores()] == ['self.span'] and cstr(sel[0].stores()[0][1]) == cstr(SP)):
                        why = 'a valid span (start=%d end=%d len=%d) is not stored as given' % (S, E, L)
                    elif not valid and sel[0].end != 'diverge':
                        why = 'the invalid span start=%d end=%d for a haystack of length %d is accepted' % (S, E, L)
                    if why:
                        break
                if why:
                    break
            if why:
                break
    except (Unsupported, EvalPanic) as e:
        why = 'cannot evaluate: %s' % e
    cx.report('R10.1', s, 'validation', why is None, 'span is stored (as given) only if end <= haystack.len() and start <= end + 1; otherwise set_span panics (all %d orderings of start, end, end+1, len tabulated)' % n if why is None else 'Input::set_span deviates: ' + why)
    # writers of Input.span
    writers = []
    for p, b in cx.facts.bodies.items():
        if b.j.get('derived'):
            continue
        for bi, si, pl, stt in b.stores():
            if any(isinstance(x, dict) and x.get('of') == 'util::search::Input' and x.get('f') in ('span', 'haystack') for x in pl['pr']):
                writers.append((p, 'field', line_of(b, bi, si)))
            r = stt.get('r') if si != 'term' else None
            if r and r.get('k') == 'agg' and r.get('adt') == 'util::search::Input':
                # a literal that copies span and haystack from self unchanged (`Input { earliest: yes, ..self }`) writes neither
                t0 = b.rvalue_term(r, 0, bi)
                keeps = isinstance(t0[3], dict) and all(tstr(peel_all(expand_vars(b, t0[3].get(f0)))) == 'self.%s' % f0 for f0 in ('span', 'haystack'))
                if not keeps:
                    writers.append((p, 'agg', line_of(b, bi, si)))
    # the by-value builders change exactly the one thing they are named after (everything else -- in particular the anchoring
    # mode, the span and the haystack -- is carried over)
    from rules.utilfn import builder_sets_only
    for nm, field, setter in (('anchored', 'anchored', r'Input::set_anchored$'), ('earliest', 'earliest', r'Input::set_earliest$'),
                              ('span', 'span', r'Input::set_span$'), ('range', 'span', r'Input::set_range$')):
        whyb = builder_sets_only(cx, "util::search::Input::<'h>::%s" % nm, field, setter)
        cx.report('R10.1', cx.body("util::search::Input::<'h>::%s" % nm), 'builder:' + nm, whyb is None, 'Input::%s changes only the %s' % (nm, field) if whyb is None else 'Input::%s: %s' % (nm, whyb))
    names = sorted({w[0] for w in writers})
    okw = names == ["util::search::Input::<'h>::new", "util::search::Input::<'h>::set_span"]
    cx.report('R10.1', 'util::search::Input', 'span-writers', okw, 'Input.span / Input.haystack are written only by Input::new and Input::set_span' if okw else 'writers of Input.span/haystack: %s' % names)
    n = cx.body("util::search::Input::<'h>::new")
    t = expand_vars(n, n.local_term(0, expand=True))
    okn = False
    if is_agg(t, r'util::search::Input$') and isinstance(t[3], dict):
        sp = t[3]['span']
        okn = is_agg(sp, r'Span$') and sp[3]['start'] == ('c', 0) and is_call(sp[3]['end'], r'core::slice::len$') and peel(sp[3]['end'][2][0]) == peel(t[3]['haystack']) and is_var(peel(peel(t[3]['haystack'])), 'haystack')
        okn = okn and is_agg(t[3]['anchored'], r'Anchored$', 'No') and t[3]['earliest'] == ('c', 0)
    cx.report('R10.1', n, 'new', okn, 'Input::new: span = 0..haystack.len(), unanchored, not earliest' if okn else 'Input::new builds %s' % tstr(t, 200))
    adt = cx.facts.adts.get('util::search::Input')
    pub = [f['name'] for v in adt['variants'] for f in v['fields'] if f['public']]
    cx.report('R10.1', 'util::search::Input', 'private-fields', not pub, 'Input fields are private' if not pub else 'public Input fields %s' % pub)
    d = cx.body("util::search::Input::<'h>::is_done")
    t = strip_convs(expand_vars(d, d.local_term(0, expand=True)))
    def se(y):
        if is_call(y, r'Input::start$'):
            return atom('S')
        if is_call(y, r'Input::end$'):
            return atom('E')
        if y[0] == 'f' and y[2] in ('start', 'end') and (is_call(y[1], r'Input::get_span$') or self_field(y[1], 'span')):
            return atom('S' if y[2] == 'start' else 'E')
        return None
    c = rewrite(t, se)
    okd = cmp_norm(c) == cmp_norm(('op', 'Gt', atom('S'), atom('E')))
    cx.report('R10.1', d, 'is_done', okd, 'is_done() = start() > end()' if okd else 'is_done() = %s' % tstr(t, 100))
    for nm, fld in (('start', 'start'), ('end', 'end')):
        g = cx.body("util::search::Input::<'h>::" + nm)
        t = expand_vars(g, g.local_term(0, expand=True))
        ok = t[0] == 'f' and t[2] == fld and ((t[1][0] == 'f' and t[1][2] == 'span') or is_call(t[1], r'Input::get_span$'))
        cx.report('R10.1', g, nm, ok, '%s() = span.%s' % (nm, fld) if ok else '%s() = %s' % (nm, tstr(t, 80)))
    gs = cx.body("util::search::Input::<'h>::get_span")
    t = gs.local_term(0, expand=True)
    cx.report('R10.1', gs, 'get_span', self_field(t, 'span'), 'get_span() = span' if self_field(t, 'span') else 'get_span() = %s' % tstr(t, 80))
    h = cx.body("util::search::Input::<'h>::haystack")
    t = h.local_term(0, expand=True)
    cx.report('R10.1', h, 'haystack', self_field(peel(t), 'haystack'), 'haystack() = haystack' if self_field(peel(t), 'haystack') else 'haystack() = %s' % tstr(t, 80))


def r10_5(cx):
    b = cx.body('packed::api::Searcher::find_in')
    SELF, HAY, SPAN = (param_at(b, i) for i in (1, 2, 3))

    def window_call(bb, c, recv_ok):
        """callee(recv, &haystack[..span.end], span.start)"""
        c = canon(c)
        H, S = cstr(param_at(bb, 2)), cstr(param_at(bb, 3))
        a = c[2]
        return (len(a) == 3 and recv_ok(a[0]) and is_call(a[1], r'core::ops::Index::index$') and cstr(a[1][2][0]) == H and is_agg(a[1][2][1], r'RangeTo$')
                and cstr(a[1][2][1][3]['end']) == S + '.end' and cstr(a[2]) == S + '.start')

    def is_teddy_find(c):
        return is_call(canon(c), r'packed::teddy::builder::Searcher::find$') and window_call(b, c, lambda r: cstr(r) == '(self.search_kind as Teddy).0')

    def is_rk(bb, c):
        return is_call(canon(c), r'packed::rabinkarp::RabinKarp::find_at$') and window_call(bb, c, lambda r: cstr(r) == 'self.rabinkarp')

    def is_slow(c):
        c = canon(c)
        return is_call(c, r'Searcher::find_in_slow$') and [cstr(x) for x in c[2]] == [cstr(SELF), cstr(HAY), cstr(SPAN)]
    rows = [r for r in summarize(cx.facts, b) if r.end == 'return']
    kinds = [v['name'] for v in cx.facts.adts['packed::api::SearchKind']['variants']]
    why = None
    n = 0
    for ki, kn in enumerate(kinds):
        for sl in (0, 1, 2):
            for ml in (0, 1, 2):
                def at(t, ki=ki, sl=sl, ml=ml):
                    s = cstr(t)
                    if s == 'discr(self.search_kind)':
                        return ki
                    if s == 'core::slice::len(core::ops::Index::index(%s, %s))' % (cstr(HAY), cstr(SPAN)):
                        return sl
                    if s.endswith('.minimum_len') or re.search(r'Searcher::minimum_len\(\(self\.search_kind as Teddy\)\.0\)$', s):
                        return ml
                    return None
                sel = [r for r in rows if row_consistent(r, at)]
                n += 1
                if not sel:
                    why = 'no path for search kind %s, span length %d, minimum_len %d' % (kn, sl, ml)
                for r in sel:
                    ret = r.ret
                    if ret is None or ret[0] != 'call':
                        why = 'find_in returns %s' % (tstr(ret, 100) if ret else None)
                    elif kn == 'Teddy' and sl >= ml:
                        if not is_teddy_find(ret):
                            why = 'with a Teddy searcher and a span of at least minimum_len bytes find_in returns %s (expected teddy.find(&haystack[..span.end], span.start))' % tstr(canon(ret), 200)
                    elif not (is_slow(ret) or is_rk(b, ret)):
                        why = 'a span shorter than teddy.minimum_len() (or a Rabin-Karp searcher) is answered by %s (expected Rabin-Karp on (&haystack[..span.end], span.start))' % tstr(canon(ret), 200)
                    if why:
                        break
                if why:
                    break
            if why:
                break
        if why:
            break
    cx.report('R10.5', b, 'teddy', why is None, 'Teddy runs only on spans of at least teddy.minimum_len() bytes and receives (&haystack[..span.end], span.start); everything else goes to Rabin-Karp with the same window (%d input classes tabulated)' % n if why is None else why)
    if not cx.has('packed::api::Searcher::find_in_slow'):
        # the fallback helper no longer exists: the table above already required a direct Rabin-Karp call with the right window
        cx.report('R10.5', b, 'rabinkarp-slow', why is None, 'no separate short-haystack helper; find_in calls Rabin-Karp directly (decided by the dispatch table)' if why is None else 'no short-haystack helper and the dispatch table deviates')
        s = None
    else:
        s = cx.body('packed::api::Searcher::find_in_slow')
    srows = [r for r in summarize(cx.facts, s) if r.end == 'return'] if s is not None else []
    oks = bool(srows) and all(r.ret is not None and r.ret[0] == 'call' and is_rk(s, r.ret) for r in srows)
    if s is not None:
        cx.report('R10.5', s, 'rabinkarp-slow', oks, 'the short-haystack fallback receives (&haystack[..span.end], span.start)' if oks else 'find_in_slow returns %s' % [tstr(canon(r.ret), 160) if r.ret else None for r in srows][:2])
    f = cx.body('packed::api::Searcher::find')
    t = strip_convs(expand_vars(f, f.local_term(0, expand=True)))
    ok = is_call(t, r'Searcher::find_in$') and is_agg(t[2][2], r'Range$|Span$') and isinstance(t[2][2][3], dict) and t[2][2][3].get('start') == ('c', 0) and is_call(peel(t[2][2][3].get('end')), r'core::slice::len$') and cstr(canon(peel(t[2][2][3]['end'])[2][0])) == cstr(canon(t[2][1]))
    cx.report('R10.5', f, 'find', ok, 'find(h) = find_in(h, 0..h.len())' if ok else 'find = %s' % tstr(t, 200))
    it = cx.body("<packed::api::FindIter<'s, 'h> as core::iter::Iterator>::next")
    # continues at m.end()
    stt = [(tt, v) for bi, si, tt, v, x in it.field_stores() if tt[0] == 'f' and tt[2] in ('start', 'at') or (tt[0] == 'f' and tt[1][0] == 'f' and tt[1][2] == 'span')]
    okit = any(is_call(v, r'Match::end$') for tt, v in stt)
    cx.report('R10.5', it, 'iter-restart', okit, 'packed::FindIter continues at m.end()' if okit else 'packed::FindIter does not restart at m.end(): %s' % [(tstr(a), tstr(v, 80)) for a, v in stt])
    # teddy::Searcher::find pointer conversion
    t = cx.body('packed::teddy::builder::Searcher::find')
    calls = t.calls(r'SearcherT::find$')
    ok = False
    if len(calls) == 1:
        ct = expand_vars(t, t.call_term(*calls[0]), keep=('haystack', 'at', 'self'))
        a1, a2 = ct[2][1], ct[2][2]
        base = lambda x: is_call(x, r'core::slice::as_ptr$') and is_var(peel(x[2][0]), 'haystack')
        ok = (is_call(a1, r'const_ptr::add$') and base(a1[2][0]) and is_var(a1[2][1], 'at')
              and is_call(a2, r'const_ptr::add$') and base(a2[2][0]) and is_call(a2[2][1], r'core::slice::len$') and is_var(peel(a2[2][1][2][0]), 'haystack'))
    cx.report('R10.5', t, 'pointers', ok, 'Teddy gets [haystack.as_ptr() + at, haystack.as_ptr() + haystack.len())' if ok else 'Teddy pointer range is not derived from (haystack, at)')
    sp = None
    for bi, si, pl, st in t.stores():
        if si != 'term' and st['r'].get('k') == 'agg' and st['r'].get('adt') == 'util::search::Span':
            sp = expand_vars(t, t.rvalue_term(st['r'], 0, bi), keep=('teddym', 'haystack'))
    ok = False
    if sp is not None:
        def conv(x, which):
            return (is_call(x, r'core::num::wrapping_sub$') and is_call(x[2][0], r'Pointer::as_usize$') and is_call(x[2][0][2][0], r'teddy::generic::Match::%s$' % which)
                    and is_call(x[2][1], r'Pointer::as_usize$') and is_call(x[2][1][2][0], r'core::slice::as_ptr$'))
        ok = conv(sp[3]['start'], 'start') and conv(sp[3]['end'], 'end')
    cx.report('R10.5', t, 'offsets', ok, 'match offsets = pointer - haystack.as_ptr() for start and end' if ok else 'Teddy match pointers are not converted relative to the haystack base')
    ag = bool_gates(t, lambda x: True)
    okas = False
    for blk, sc in t.switches():
        if sc[0] != 'bool':
            continue
        def fn(y):
            if is_call(y, r'core::slice::len$') and is_call(peel(y[2][0]), r'Index::index$') and is_agg(peel(y[2][0])[2][1], r'RangeFrom$') and is_var(peel(y[2][0])[2][1][3]['start'], 'at'):
                return atom('REM')
            if self_field(y, 'minimum_len'):
                return atom('MINLEN')
            return None
        cn = cmp_norm(rewrite(strip_convs(sc[1]), fn))
        if cn == cmp_norm(('op', 'Ge', atom('REM'), atom('MINLEN'))) and calls:
            okas = not reachable_without(t, [calls[0][0]], [(blk, x) for x in sc[2]]) and all(not any(t.blocks[r]['term']['k'] == 'return' for r in t.reach(x)) for x in sc[3])
    cx.report('R15.2', t, 'entry-assert', okas, 'assert!(haystack[at..].len() >= self.minimum_len) dominates the unsafe Teddy call' if okas else 'the Teddy entry is reachable without the minimum-length assertion')


from rules.rabinkarp import r10_6  # noqa: E402,F401


@only(PERF)
def r05_7(cx):
    """A byte-set builder may stop recording only at a count its build() rejects: otherwise build() installs a prefilter for
    a set that silently lacks bytes (candidates are skipped, matches missed)."""
    for nm, rec_pat in (('StartBytesBuilder', r'StartBytesBuilder::add_one_byte$'), ('RareBytesBuilder', r'RareBytesBuilder::(set_offset|add_rare_byte)$')):
        a = cx.body('util::prefilter::%s::add' % nm)
        imp = cx.body('util::prefilter::%s::build::imp' % nm)
        arows = summarize(cx.facts, a)
        brows = summarize(cx.facts, imp)
        BY = cstr(param_at(a, 2))
        why = None
        who = cstr(param_at(imp, 1))

        def rejects(cnt, avail):
            at_b = by_cstr({'%s.count' % who: cnt, '%s.available' % who: avail})
            selb = [r for r in brows if r.end != 'diverge' and row_consistent(r, at_b)]
            return bool(selb) and all(is_agg(r.ret, r'Option$', 'None') and not any(e[0] == 'loop' for e in r.effects) and not r.calls(r'Arc::new$') for r in selb)
        for c, L in [(c, L) for c in range(0, 7) for L in (5, 255, 256, 300, 70000)]:
            at_a = by_cstr({'self.count': c, 'self.available': 1, 'core::slice::len(%s)' % BY: L,
                            'discr(core::slice::first(%s))' % BY: 1, 'core::slice::is_empty(%s)' % BY: 0})
            sel = [r for r in arows if r.end != 'diverge' and row_consistent(r, at_a)]
            if not sel:
                why = 'no path of add() for count = %d, pattern length %d' % (c, L)
                break
            for r in sel:
                if r.calls(rec_pat) or any(e[0] == 'loop' for e in r.effects):
                    continue
                # this path drops the pattern's bytes: the state it leaves must be one build() rejects
                avail = 1
                for pl, v in r.stores():
                    if cstr(pl) == 'self.available':
                        try:
                            avail = teval(v, at_a)
                        except (Unsupported, EvalPanic):
                            avail = 1
                if not rejects(c, avail):
                    why = 'at count = %d, pattern length %d add() does not record the pattern\'s bytes, but build() still accepts the state it leaves: the prefilter is built from an incomplete byte set' % (c, L)
                    break
            if why:
                break
        cx.report('R05.7', a, 'count-cap', why is None, '%s::add skips a pattern only in a state that build() rejects (tabulated for counts 0..6 x pattern lengths 5, 255, 256, 300, 70000)' % nm if why is None else '%s: %s' % (nm, why))


@only(PERF)
def r05_8(cx):
    """build() of the byte-set prefilters looks at every byte value: a recorded byte is either put into the finder or makes
    build() give up. A scan over part of the byte range silently drops bytes (candidates skipped, matches missed)."""
    from acverif.sym import loop_rows, innermost_loop, Sym
    for nm in ('StartBytesBuilder', 'RareBytesBuilder'):
        b = cx.body('util::prefilter::%s::build::imp' % nm)
        loops = b.loops()
        why = None
        if len(loops) != 1:
            why = '%d loops in build (expected the one scan over the byte values)' % len(loops)
        else:
            h = list(loops)[0]
            # the iterator the loop draws from, on arrival
            arr = [r for r in Sym(cx.facts, b, start=0, stop={h}).rows() if r.end == ('stop', h)]
            nxt = [b.call_term(bi, t0) for bi, t0 in b.calls(r'Iterator::next$') if bi in loops[h]]
            dom = None
            if len(nxt) == 1 and arr:
                recv = peel_all(nxt[0][2][0])
                if recv[0] == 'v':
                    src = arr[0].env.get(recv[2])
                    if src is not None:
                        s = canon(src)
                        try:
                            if is_agg(s, r'core::ops::Range$'):
                                dom = (teval(s[3]['start'], lambda t: None), teval(s[3]['end'], lambda t: None) - 1)
                            elif is_call(s, r'RangeInclusive::new$'):
                                dom = (teval(s[2][0], lambda t: None), teval(s[2][1], lambda t: None))
                        except (Unsupported, EvalPanic):
                            dom = None
            if dom != (0, 255):
                why = 'the scan covers byte values %s (expected 0..=255)' % (dom,)
            else:
                B = ('f', ('dc', nxt[0], 'Some'), '0')
                rows = [r for r in loop_rows(cx.facts, b, h) if r.cond(lambda c: c[0] == 'discr' and is_call(c[1], r'Iterator::next$')) == 1]
                sel = lambda c: (cstr(c) == 'builder.byteset[%s]' % cstr(B)) or (is_call(canon(c), r'ByteSet::contains$|RareByteSet::contains$|contains$') and cstr(canon(c)[2][-1]) == cstr(B)) or (is_call(canon(c), r'Index::index$') and cstr(canon(c)[2][1]) == cstr(B))
                n = 0
                for r in rows:
                    chosen = r.cond(sel)
                    if chosen is None:
                        chosen = r.cond(lambda c: 'byteset' in cstr(c) or 'rare_set' in cstr(c))
                    stores = [(canon(p), canon(v)) for p, v in r.stores()]
                    kept = any(cstr(v) == cstr(B) or cstr(v).endswith(cstr(B)) for p, v in stores) or any(cstr(B) in cstr(v) for l, v in r.env.items() if isinstance(v, tuple) and v[0] == 'aset')
                    if chosen is True:
                        n += 1
                        gives_up = r.end == 'return' and is_agg(r.ret, r'Option$', 'None')
                        if not (kept or gives_up or r.end == 'diverge'):
                            why = 'a recorded byte is neither placed into the finder nor makes build() return None'
                    elif chosen is False and kept:
                        why = 'a byte that was not recorded is placed into the finder'
                if n == 0:
                    why = why or 'no iteration handles a recorded byte'
        cx.report('R05.8', b, 'full-scan', why is None, '%s::build scans all byte values 0..=255; every recorded byte ends up in the finder or build() gives up' % nm if why is None else '%s::build: %s' % (nm, why))


@only(PERF)
def r05_9(cx):
    """packed::Builder::add: once a pattern cannot be represented (too many, or empty) the builder becomes inert for good:
    the collection is reset ONLY together with inert = true, and an inert builder collects nothing. Otherwise a searcher is
    built for a tail of the pattern set with renumbered ids (false negatives, wrong ids)."""
    b = None
    for p, bb in cx.facts.bodies.items():
        if re.match(r'^packed::api::Builder::add(::<.*>)?$', p):
            b = cx.body(p)
    if b is None:
        cx.bad('R05.9', 'packed::api::Builder::add', 'inert', 'packed::api::Builder::add not found')
        return
    rows = [r for r in summarize(cx.facts, b) if r.end == 'return']
    why = None if rows else 'no returning path'
    nadd = nreset = 0
    for r in rows:
        inert = r.cond('self.inert')
        adds = r.calls(r'packed::pattern::Patterns::add$')
        resets = r.calls(r'packed::pattern::Patterns::reset$')
        st = {cstr(p): canon(v) for p, v in r.stores()}
        if inert is True and (adds or resets or st):
            why = 'an inert builder still changes its pattern collection'
        if resets:
            nreset += 1
            if st.get('self.inert') != ('c', 1):
                why = 'the pattern collection is reset without the builder becoming inert: later patterns are collected from scratch'
            if adds:
                why = 'a pattern is added on the path that resets the collection'
        if adds:
            nadd += 1
            if inert is not False:
                why = why or 'patterns are collected without checking the inert flag'
    if nadd == 0 or nreset < 2:
        why = why or 'expected one collecting path and two give-up paths (too many patterns, empty pattern); found %d / %d' % (nadd, nreset)
    cx.report('R05.9', b, 'inert', why is None, 'packed::Builder::add resets the collection only together with inert = true; an inert builder collects nothing' if why is None else why)


# ------------------------------------------------------------------------------------------------- R05.10 byte prefilters
def r05_10(cx):
    """RareBytesBuilder::build / StartBytesBuilder::build: the bytes handed to the memchr-based prefilter are exactly the bytes
    that were collected, all of them, each once: the collecting loop stores the byte at bytes[len] and increments len, and a
    prefilter over k bytes is built from bytes[0..k] exactly when len == k.  A byte that is collected but not searched for lets the
    prefilter skip true matches."""
    import re as _re
    from acverif.sym import Sym, summarize, loop_rows, canon, cstr
    for path in ('util::prefilter::RareBytesBuilder::build::imp', 'util::prefilter::StartBytesBuilder::build::imp'):
        b = cx.body(path)
        why = None
        loops = list(b.loops())
        if not loops:
            # built without the memchr-based prefilters (feature perf-literal off): the stub that builds nothing
            rws = [r for r in summarize(cx.facts, b) if r.end == 'return']
            stub = bool(rws) and all(is_agg(r.ret, r'Option$', 'None') for r in rws)
            cx.report('R05.10', b, 'collected-bytes', stub, 'no byte prefilter is built in this configuration (the builder returns None)' if stub else 'no collecting loop, yet a prefilter is built')
            continue
        if len(loops) != 1:
            cx.bad('R05.10', b, 'collected-bytes', 'expected one collecting loop (found %d)' % len(loops))
            continue
        h = loops[0]
        sym = Sym(cx.facts, b)
        mods, _ = sym.loop_mods(h)
        arrs = [l for l in mods if _re.match(r'^\[u8; \d+\]$', b.locals[l]['ty'])]
        if len(arrs) != 1:
            cx.bad('R05.10', b, 'collected-bytes', 'no single loop-carried byte array')
            continue
        ARR = cstr(sym.default_local(arrs[0]))
        lens = [l for l in mods if b.locals[l]['ty'] == 'usize' and any(cstr(canon(p)) == '%s[%s]' % (ARR, cstr(sym.default_local(l))) for r in loop_rows(cx.facts, b, h) for p, v in r.stores())]
        if len(lens) != 1:
            cx.bad('R05.10', b, 'collected-bytes', 'the write cursor of the byte array was not identified')
            continue
        LEN = cstr(sym.default_local(lens[0]))
        n_store = 0
        for r in loop_rows(cx.facts, b, h):
            st = [(cstr(canon(p)), cstr(canon(v))) for p, v in r.stores() if cstr(canon(p)).startswith(ARR + '[')]
            moved = lens[0] in r.env and cstr(canon(r.env[lens[0]])) != LEN
            if st:
                n_store += 1
                item = [cstr(('f', ('dc', canon(c)[1], 'Some'), '0')) for c, v in r.conds if canon(c)[0] == 'discr' and is_call(canon(c)[1], r'Iterator::next$')]
                if len(st) != 1 or st[0][0] != '%s[%s]' % (ARR, LEN) or not item or st[0][1] != item[0] or cstr(canon(r.env.get(lens[0]))) != 'Add(1, %s)' % LEN:
                    why = why or 'a collected byte is not stored at bytes[len] with len += 1 (store %s, len -> %s)' % (st, cstr(canon(r.env.get(lens[0]))) if lens[0] in r.env else 'unchanged')
            elif moved:
                why = why or 'len changes without a byte being stored'
        if not n_store:
            why = why or 'no byte is ever collected'
        # the prefilters built after the loop
        ks = set()
        for r in summarize(cx.facts, b):
            if r.end != 'return' or not is_agg(r.ret, r'Option$', 'Some'):
                continue
            t = canon(r.ret)[3]['0']
            fin = t[3].get('finder') if is_agg(t, r'Prefilter$') and isinstance(t[3], dict) else None
            inner = fin[2][0] if fin is not None and is_call(fin, r'Arc(::<.*>)?::new$') and fin[2] else None
            if inner is None or inner[0] != 'agg' or not isinstance(inner[3], dict):
                why = why or 'a prefilter of unknown shape is returned'
                continue
            bf = sorted((int(k[4:]), cstr(v)) for k, v in inner[3].items() if _re.match(r'^byte\d$', k))
            k = len(bf)
            ks.add(k)
            src = {m.group(1) for i, v in bf for m in [_re.match(r'^(.+)\[(\d+)\]$', v)] if m}
            if [i for i, v in bf] != list(range(1, k + 1)) or len(src) != 1 or [v for i, v in bf] != ['%s[%d]' % (list(src)[0], i) for i in range(k)] or not _re.match(r'^phi\d+_%d$' % arrs[0], list(src)[0]):
                why = why or 'the %d-byte prefilter is built from %s (expected bytes[0..%d], each once)' % (k, [v for i, v in bf], k)
            cnt = [(cstr(canon(c)), v) for c, v in r.conds if canon(c)[0] == 'op' and canon(c)[1] == 'Eq' and canon(c)[2] == ('c', k) and _re.match(r'^phi\d+_%d$' % lens[0], cstr(canon(c)[3]))]
            if not any(v is True for c, v in cnt):
                why = why or 'the %d-byte prefilter is not tied to len == %d' % (k, k)
        if ks != {1, 2, 3}:
            why = why or 'prefilters are built for %s collected bytes (expected 1, 2 and 3)' % sorted(ks)
        cx.report('R05.10', b, 'collected-bytes', why is None, 'every collected byte is stored at bytes[len++]; a k-byte prefilter is built from bytes[0..k], each once, exactly when len == k (k = 1, 2, 3)' if why is None else why)

"""C10 rule set (see DESIGN.md section 5)."""
from rules.search import r10_2, r10_3
from rules.search import r03_1
from rules.search import r09_1
from rules.prefilter import r10_1, r05_3, r10_5, r10_6

LEVEL = 'other'
from rules.search import r01_6
from rules.utilfn import r10_7
from rules.utilfn import r10_8
from rules.utilfn import r13_8
RULES = [('R03.1', r03_1), ('R09.1', r09_1), ('R10.1', r10_1), ('R10.2', r10_2), ('R10.3', r10_3), ('R10.4', r05_3), ('R10.5', r10_5), ('R10.6', r10_6), ('R01.6', r01_6), ('R10.7', r10_7), ('R10.8', r10_8), ('R13.8', r13_8)]
EXPLANATION = """R10.1 Input::set_span stores a span only if end <= haystack.len() and start <= end + 1 (else it panics), stores its argument,
and is with Input::new the only writer of Input.span / Input.haystack (private fields); Input::new sets 0..len; is_done() = start > end;
the getters return the fields. R10.2 both drivers return the empty result on the done edge before touching the automaton. R10.3 the
only haystack reads of the drivers are haystack[cursor] behind `cursor < input.end()` with no cursor update in between; the cursor's
definitions are input.start(), +1, or a prefilter candidate computed for get_span() or cursor..input.end(); get_match builds
(at - len)..at. R10.4 each of the eight prefilter implementations searches exactly haystack[span] and adds span.start back (rare-byte
variants clamp to span.start). R10.5 packed::Searcher::find_in hands (&haystack[..span.end], span.start) to Teddy and both Rabin-Karp
calls, compares the span length with teddy.minimum_len(), find() uses 0..len, the iterator restarts at m.end(), the Teddy entry converts
pointers relative to the haystack base. R10.6 Rabin-Karp reads its windows only behind the corresponding length tests and verifies at
the current position."""
NOT_DECIDED = """Nothing beyond the shared algorithmic remainder (C01/C02): this property is index discipline."""
CLAIM = """Static decision of the index discipline that makes a span search equal a sub-slice search: span validity and its closed writer
set, the done gate, guarded haystack reads with the cursor's closed set of definitions, the span arithmetic of all eight prefilters
(closures inlined into one expression per implementation), of the packed dispatch, of the Teddy pointer conversion and of Rabin-Karp.
These hold for every haystack, span and pattern list; the suite samples one span/prefilter combination."""
NOTE = """Trusted: rustc MIR construction, the fact extractor, memchr's search contracts. perf-literal code is analysed in the configurations that contain it."""
TECHNIQUE = "static analysis: path summaries tabulated over all orderings of span / length quantities (set_span, packed dispatch, Rabin-Karp windows), affine normal forms, who-may-write inventories and graph cuts over rustc MIR"

"""Rules over the packed searchers (Teddy generic/builder, pattern.rs raw compares, vector.rs): C06, C15."""
import re

from acverif.core import only
from acverif.mir import short, tstr, subterms, affine_str
from acverif.rl import (is_call, peel, peel_all, is_var, is_agg, is_const, self_field, bool_gates, try_gates, discr_gates,
                        reachable_without, must_pass, line_of, decision_table, rewrite, expand_vars, atom, cmp_norm, cmp_true_when,
                        eq_cond, var_defs_terms, strip_convs, reaching_defs)

X86 = ('default', 'logging', 'perf', 'std', 'nodefault')
GEN = 'packed::teddy::generic::'


def lane_const(t, fam):
    """V::BYTES (Slim) / <V::Half>::BYTES (Fat)"""
    if not (isinstance(t, tuple) and t[0] == 'k'):
        return False
    if fam == 'Slim':
        return t[1] == '<V as packed::vector::Vector>::BYTES'
    return t[1] == '<<V as packed::vector::FatVector>::Half as packed::vector::Vector>::BYTES'


def ptr_add(t, base_pred, off_pred):
    return is_call(t, r'core::ptr::const_ptr::add$') and base_pred(t[2][0]) and off_pred(t[2][1])


def ptr_sub(t, base_pred, off_pred):
    return is_call(t, r'core::ptr::const_ptr::sub$') and base_pred(t[2][0]) and off_pred(t[2][1])


SHIFT = {1: 'shift_in_one_byte', 2: 'shift_in_two_bytes', 3: 'shift_in_three_bytes'}


def param_at_(b, i):
    from acverif.rl import param_at
    return param_at(b, i)


def candidate_shape(ret, stores, CUR, carries, fam, k):
    """the candidate vector of one window: load(cur) -> members_k -> result j shifted in by k-1-j bytes from carry j -> AND of
    all; carry j = result j. Returns None or what deviates."""
    from acverif.sym import canon, cstr
    load = 'packed::vector::Vector::load_unaligned' if fam == 'Slim' else 'packed::vector::FatVector::load_half_unaligned'
    MEM = 'packed::teddy::generic::Mask::members%d(%s(%s), self.masks)' % (k, load, CUR)
    res = [MEM if k == 1 else '%s.%d' % (MEM, j) for j in range(k)]
    pref = '' if fam == 'Slim' else 'half_'
    trait = 'Vector' if fam == 'Slim' else 'FatVector'
    want = set()
    for j in range(k - 1):
        want.add('packed::vector::%s::%s%s(%s, %s)' % (trait, pref, SHIFT[k - 1 - j], res[j], carries[j]))
    want.add(res[k - 1])
    leaves = []

    def flat(x):
        x = canon(x)
        if is_call(x, r'packed::vector::Vector::and$'):
            flat(x[2][0])
            flat(x[2][1])
        else:
            leaves.append(cstr(x))
    flat(ret)
    why = None
    if set(leaves) != want or len(leaves) != k:
        why = 'the candidate vector is the AND of %s, expected %s' % (sorted(leaves), sorted(want))
    st = {cstr(p): cstr(v) for p, v in stores}
    if st != {carries[j]: res[j] for j in range(k - 1)}:
        why = why or 'the carry vectors are updated as %s (expected carry j = result j of this window)' % st
    return why


def candidate_rule(cx, c, fam, k, tag):
    """Slim/Fat<V, k>::candidate on its path summary"""
    from acverif.sym import summarize, canon, cstr
    from acverif.rl import param_at
    rows = [r for r in summarize(cx.facts, c) if r.end == 'return']
    why = None
    if len(rows) != 1:
        why = '%d paths (expected straight-line code)' % len(rows)
    else:
        r = rows[0]
        why = candidate_shape(r.ret, r.stores(), cstr(param_at(c, 2)), [cstr(param_at(c, 3 + j)) for j in range(k - 1)], fam, k)
    cx.report('R06.1', c, 'candidate', why is None, '%s: load(cur) -> members%d -> result j shifted in by k-1-j bytes from carry j -> AND; carry j = result j' % (tag, k) if why is None else '%s::candidate deviates: %s' % (tag, why))


def find_rules(cx, b, one, fam, k, tag):
    """Slim/Fat<V, k>::find and find_one, tabulated over haystack lengths on the iteration summaries."""
    from acverif.sym import simulate, SimError, Sym, summarize, canon, cstr, teval, row_consistent
    from acverif.rl import param_at, Unsupported, EvalPanic
    LANE = 16
    S = 1000
    START, END = cstr(param_at(b, 2)), cstr(param_at(b, 3))

    def ex(t):
        if lane_const(t, fam):
            return LANE
        if t[0] == 'discr' and is_call(t[1], r'::find_one$'):
            return 0
        return None
    why_c = why_l = why_t = why_r = why_a = why_i = None
    for n in list(range(LANE + k - 1, 3 * LANE + k + 4)):
        E = S + n
        try:
            ev, end, ret = simulate(cx.facts, b, {START: S, END: E}, extra_atoms=ex)
        except SimError as e:
            why_c = why_c or '%s::find cannot be tabulated for a haystack of %d bytes: %s' % (tag, n, e)
            continue
        calls = [e for e in ev if re.search(r'%s%s::find_one$' % (GEN, fam), e[0])]
        want = []
        cur = S + k - 1
        while cur <= E - LANE:
            want.append(cur)
            cur += LANE
        tail = cur < E
        if tail:
            want.append(E - LANE)
        got = [c[2][1] for c in calls]
        if got and got[0] != S + k - 1:
            why_c = why_c or '%s: the first window starts at start + %s (expected start + %d)' % (tag, None if got[0] is None else got[0] - S, k - 1)
        elif got != want:
            over = [g for g in got if g is None or g + LANE > E or g < S + k - 1]
            msg = '%s: for %d bytes the windows start at %s (expected %s)' % (tag, n, [None if g is None else g - S for g in got], [w - S for w in want])
            if over:
                if tail and over[-1] == got[-1]:
                    why_t = why_t or msg + ': the tail window is not at end - lane width'
                else:
                    why_l = why_l or msg + ': a window is read beyond end - lane width'
            elif tail and got[:-1] == want[:-1]:
                why_t = why_t or msg
            else:
                why_c = why_c or msg
        if any(c[2][2] != E for c in calls):
            why_a = why_a or '%s: find_one does not receive `end`' % tag
        if not (ret is None or (isinstance(ret, tuple) and ('None' in ret or is_call(ret, r'::find_one$')))):
            why_c = why_c or '%s: a search without candidates returns %s' % (tag, ret)
        for idx, c in enumerate(calls):
            carries = c[3][3:]
            if len(carries) != k - 1:
                why_a = why_a or '%s: find_one is called with %d carry vectors (expected %d)' % (tag, len(carries), k - 1)
                continue
            is_tail = tail and idx == len(calls) - 1 and got == want
            for cj in carries:
                fresh = is_call(canon(cj), r'Vector::splat$') and canon(cj)[2][0] == ('c', 255)
                if is_tail and not fresh:
                    why_r = why_r or '%s: a carry vector keeps stale bits from a non-adjacent window in the tail search (candidates are cleared, matches missed)' % tag
        if calls:
            # carries are distinct loop-carried locals passed in a fixed order
            first = [cstr(x) for x in calls[0][3][3:]]
            if len(set(first)) != len(first):
                why_a = why_a or '%s: the same carry vector is passed twice' % tag
    # carries initialised to splat(0xFF) on arrival at the loop
    loops = b.loops()
    ok_init = True
    ncar = 0
    if loops:
        h = max(loops, key=lambda x: len(loops[x]))
        arr = [r for r in Sym(cx.facts, b, start=0, stop={h}).rows() if r.end == ('stop', h)]
        vecs = [l for l, loc in enumerate(b.locals) if l > b.j['arg_count'] and loc['names'] and loc['ty'] in ('V', '<V as packed::vector::FatVector>::Half')]
        for r in arr:
            for l in vecs:
                v = r.env.get(l)
                if v is None:
                    continue
                ncar += 1
                if not (is_call(canon(v), r'Vector::splat$') and canon(v)[2][0] == ('c', 255)):
                    ok_init = False
        if not arr:
            ok_init = False
    if k > 1 and (ncar < k - 1 or not ok_init):
        why_i = '%s: the %d carry vector(s) are not initialised to splat(0xFF) before the first window' % (tag, k - 1)
    cx.report('R06.1', b, 'cursor', why_c is None, '%s: windows start at start + %d and advance by the lane width (tabulated for %d haystack lengths)' % (tag, k - 1, 2 * LANE + 5) if why_c is None else why_c)
    cx.report('R15.3', b, 'loop-window', why_l is None and why_c is None, '%s: the in-loop window is read only while cur <= end - lane width' % tag if why_l is None and why_c is None else (why_l or why_c))
    cx.report('R15.3', b, 'tail-window', why_t is None and why_c is None, '%s: the tail window is read at exactly end - lane width, only if cur < end' % tag if why_t is None and why_c is None else (why_t or why_c))
    cx.report('R06.1', b, 'carry-vectors', why_i is None, '%s: %d carry vector(s), initialised to splat(0xFF)' % (tag, k - 1) if why_i is None else why_i)
    if k > 1:
        cx.report('R06.2', b, 'tail-reset', why_r is None, '%s: every carry vector is reset to splat(0xFF) before the (non-adjacent) tail window' % tag if why_r is None else why_r)
    cx.report('R06.1', b, 'find_one-args', why_a is None, '%s: find_one(cur, end, carries)' % tag if why_a is None else why_a)
    # find_one: verify from cur - (k-1), guarded by !is_zero
    # the candidate computation is looked at where it happens: `candidate` is unfolded into find_one, so a candidate function
    # merged into find_one is the same code to the rule
    from acverif.inline import vocab
    uf = lambda p: (p not in vocab() and cx.facts.bodies[p].j.get('kind') != 'Closure') or re.search(r'::(Slim|Fat)::<V, \d>::candidate$', p) is not None
    rows = [r for r in summarize(cx.facts, one, unfold=uf) if r.end == 'return']
    CUR, EN = cstr(param_at(one, 2)), cstr(param_at(one, 3))
    whycand = None
    carry_params = [cstr(param_at(one, i)) for i in range(4, 4 + k - 1)]
    whyv = None
    nv = 0
    for r in rows:
        vs = [canon(c) for c in r.calls(r'%sTeddy::verify$' % GEN)]
        zc = [(canon(c)[2][0], v_) for c, v_ in r.conds if is_call(canon(c), r'Vector::is_zero$')]
        if len(zc) != 1:
            whyv = whyv or '%s: find_one does not test exactly one candidate vector' % tag
            continue
        C, z = zc[0]
        whycand = whycand or candidate_shape(C, r.stores(), CUR, carry_params, fam, k)
        if vs:
            nv += 1
            v = vs[0]
            try:
                base = teval(v[2][1], lambda t: 500 if cstr(t) == CUR else None)
            except (Unsupported, EvalPanic):
                base = None
            if z is not False:
                whyv = whyv or '%s: verification runs without the candidate vector being non-zero' % tag
            elif len(vs) != 1 or cstr(v[2][0]) != 'self.teddy' or base != 500 - (k - 1) or cstr(v[2][2]) != EN or cstr(v[2][3]) != cstr(C):
                whyv = whyv or '%s: verification does not start at cur - %d with the candidate of this window (base offset %s)' % (tag, k - 1, None if base is None else base - 500)
            else:
                dv = r.cond(lambda c: c[0] == 'discr' and is_call(c[1], r'Teddy::verify$'))
                ret = canon(r.ret) if r.ret is not None else None
                if dv == 1 and not (ret is not None and (cstr(ret) == cstr(v) or (is_agg(ret, r'Option$', 'Some') and cstr(ret[3]['0']) == cstr(('f', ('dc', v, 'Some'), '0'))))):
                    whyv = whyv or '%s: a verified match is not returned' % tag
                if dv is None and ret is not None and cstr(ret) != cstr(v):
                    whyv = whyv or '%s: the verification result is dropped' % tag
        else:
            if z is not True and not is_agg(r.ret, r'Option$', 'None'):
                whyv = whyv or '%s: a window with candidates is not verified' % tag
            if z is False:
                whyv = whyv or '%s: a non-zero candidate vector is not verified' % tag
    if nv == 0:
        whyv = whyv or '%s: no path verifies candidates' % tag
    cx.report('R06.1', one, 'window-candidate', whycand is None, '%s: the vector tested and verified in find_one is the candidate of this window, computed from (cur, carries in order)' % tag if whycand is None else '%s::find_one: %s' % (tag, whycand))
    cx.report('R06.1', one, 'verify-base', whyv is None, '%s: candidates are verified from cur - %d (the window\'s first fingerprint byte), exactly when the candidate vector is non-zero' % (tag, k - 1) if whyv is None else whyv)


@only(X86)
def r06_1(cx):
    n = 0
    for fam in ('Slim', 'Fat'):
        for k in (1, 2, 3, 4):
            n += 1
            find = cx.body('%s%s::<V, %d>::find' % (GEN, fam, k))
            one = cx.body('%s%s::<V, %d>::find_one' % (GEN, fam, k))
            cand = cx.body('%s%s::<V, %d>::candidate' % (GEN, fam, k)) if cx.has('%s%s::<V, %d>::candidate' % (GEN, fam, k)) else None
            tag = '%s<%d>' % (fam, k)
            b = find
            prevs = ['prev%d' % j for j in range(k - 1)]
            find_rules(cx, find, one, fam, k, tag)
            if cand is not None:
                candidate_rule(cx, cand, fam, k, tag)
    cx.floor('R06.1', 'generic Teddy searchers', n, 8)
    for fam in ('Slim', 'Fat'):
        m = cx.body('%s%s::<V, BYTES>::minimum_len' % (GEN, fam))
        t = m.local_term(0, expand=True)
        ok = t[0] == 'op' and t[1] == 'Add' and lane_const(t[2], fam) and t[3][0] == 'op' and t[3][1] == 'Sub' and t[3][2] == ('k', 'param:BYTES', None) and t[3][3] == ('c', 1)
        cx.report('R06.1', m, 'minimum_len', ok, '%s::minimum_len = lane width + (BYTES - 1)' % fam if ok else '%s::minimum_len = %s' % (fam, tstr(t, 120)))


@only(X86)
def r06_3(cx):
    from acverif.sym import simulate, SimError, cstr
    from acverif.rl import param_at
    v = cx.body(GEN + 'Teddy::<BUCKETS>::verify64')
    CUR, END, CH = (cstr(param_at(v, i)) for i in (2, 3, 4))
    why = None
    n = 0
    for B in (8, 16):
        def ex(t, B=B):
            if t[0] == 'k' and t[1] == 'param:BUCKETS':
                return B
            if t[0] == 'discr' and is_call(t[1], r'Teddy::verify_bucket$'):
                return 0
            return None
        for c in (0, 1, 2, 0b1010, 1 << 7, 1 << 8, (1 << 15) | (1 << 16), 1 << 63, (1 << 63) | 1, 0x8000000000000100, 0xF0F0, 0x123456789ABCDEF0):
            n += 1
            try:
                ev, end, ret = simulate(cx.facts, v, {CUR: 1000, END: 5000, CH: c}, extra_atoms=ex, maxiter=80)
            except SimError as e:
                why = why or 'verify64 cannot be tabulated for candidate bits %#x: %s' % (c, e)
                continue
            got = [(e[2][1], e[2][2], e[2][3]) for e in ev if re.search(r'Teddy::verify_bucket$', e[0])]
            want = [(1000 + bit // B, 5000, bit % B) for bit in range(64) if c >> bit & 1]
            if got != want:
                why = why or 'with BUCKETS=%d and candidate bits %#x the buckets verified are %s, expected %s (lowest bit first; position = base + bit / BUCKETS; bucket = bit %% BUCKETS; every bit once)' % (
                    B, c, [(None if a is None else a - 1000, k) for a, _, k in got][:6], [(a - 1000, k) for a, _, k in want][:6])
    cx.report('R06.3', v, 'bit-geometry', why is None, 'verify64: lowest set bit first; base += bit / BUCKETS; bucket = bit %% BUCKETS; bit cleared (tabulated for %d candidate words on the iteration summaries)' % n if why is None else why)
    for buckets, step in ((8, 8), (16, 4)):
        c = None
        for p, b in cx.facts.bodies.items():
            if p.startswith('%sTeddy::<%d>::verify::{closure#' % (GEN, buckets)):
                c = b
        if c is None:
            cx.bad('R06.3', 'Teddy<%d>::verify' % buckets, 'closure', 'lane closure not found')
            continue
        cx.bodies_seen.add(c.path)
        from acverif.sym import Sym, canon, cstr
        rws = [r for r in Sym(cx.facts, c).rows() if r.end == 'return']
        why = None if len(rws) == 1 else '%d paths through the lane closure' % len(rws)
        if why is None:
            r = rws[0]
            sts = [(canon(p0), canon(v0)) for p0, v0 in r.stores()]
            v64 = [canon(x) for x in r.calls(r'Teddy::verify64$')]
            if len(sts) != 1 or len(v64) != 1:
                why = '%d stores / %d verify64 calls' % (len(sts), len(v64))
            else:
                tgt, val = sts[0]
                okstep = is_call(val, r'const_ptr::add$') and cstr(val[2][0]) == cstr(tgt) and val[2][1] == ('c', step)
                # verify64(self, <the cursor before it is advanced>, end, chunk): the call precedes the store
                ev = [e for e in r.effects if e[0] in ('call', 'store')]
                ci = [i0 for i0, e in enumerate(ev) if e[0] == 'call' and short(e[1][1]).endswith('verify64')][0]
                si_ = [i0 for i0, e in enumerate(ev) if e[0] == 'store'][0]
                a = v64[0][2]
                okv = len(a) == 4 and cstr(a[1]) == cstr(tgt) and cstr(a[3]) == cstr(param_at_(c, c.j['arg_count'])) and cstr(a[2]) != cstr(tgt) and ci < si_
                okret = cstr(r.ret) == cstr(v64[0])
                if not (okstep and okv and okret and step * buckets == 64):
                    why = 'step ok=%s, verify64(self, cursor, end, chunk) before the step=%s, result returned=%s' % (okstep, okv, okret)
        cx.report('R06.3', c, 'lane-step', why is None, 'Teddy<%d>: each 64-bit lane covers %d haystack positions (%d x %d = 64) and is verified from its own base' % (buckets, step, step, buckets) if why is None else
                  'Teddy<%d>::verify lane stepping deviates: %s' % (buckets, why))
    vb = cx.body(GEN + 'Teddy::<BUCKETS>::verify_bucket')
    gu = [vb.call_term(bi, t) for bi, t in vb.calls(r'core::slice::get_unchecked$')]
    okg = len(gu) == 1 and tstr(peel(gu[0][2][0])) == 'self.buckets' and is_var(gu[0][2][1], 'bucket')
    pg = [vb.call_term(bi, t) for bi, t in vb.calls(r'Patterns::get_unchecked$')]
    okp = len(pg) == 1 and tstr(peel(pg[0][2][0])).startswith('self.patterns') or (len(pg) == 1 and 'self.patterns' in tstr(pg[0][2][0]))
    pid_src = expand_vars(vb, pg[0][2][1], keep=('self', 'bucket')) if pg else None
    okpid = pid_src is not None and 'Iterator::next' in tstr(pid_src) and 'get_unchecked(self.buckets, bucket)' in tstr(pid_src, 600).replace('core::slice::', '')
    cx.report('R15.5', vb, 'unchecked-index', okg and okp and okpid, 'buckets.get_unchecked(bucket) with bucket = bit %% BUCKETS (array of BUCKETS); patterns.get_unchecked(pid) with pid read from that bucket' if okg and okp and okpid else
              'get_unchecked premises deviate (bucket index=%s, patterns=%s, pid from bucket=%s)' % (okg, okp, okpid))
    ip = [vb.call_term(bi, t) for bi, t in vb.calls(r'Pattern::is_prefix_raw$')]
    oki = len(ip) == 1 and is_var(peel(ip[0][2][1]), 'cur') and is_var(peel(ip[0][2][2]), 'end')
    # first verified pattern wins: the Some return is inside the loop right after is_prefix_raw
    g = bool_gates(vb, lambda x: is_call(x, r'Pattern::is_prefix_raw$'))
    okf = bool(g) and all(any(vb.blocks[r]['term']['k'] == 'return' for r in vb.reach(tg, cut_blocks=[h for h in vb.loops()])) for x in g for _, tg in x[2])
    m = None
    for bi, si, pl, st in vb.stores():
        if si != 'term' and st['r'].get('k') == 'agg' and str(st['r'].get('adt', '')).endswith('generic::Match'):
            m = expand_vars(vb, vb.rvalue_term(st['r'], 0, bi), keep=('cur', 'pat', 'pid'))
    okm = m is not None and is_var(m[3]['start'], 'cur') and is_call(m[3]['end'], r'const_ptr::add$') and is_var(peel(m[3]['end'][2][0]), 'cur') and is_call(m[3]['end'][2][1], r'Pattern::len$') and is_var(m[3]['pid'], 'pid')
    cx.report('R06.4', vb, 'first-verified', oki and okf and okm, 'bucket patterns are tried in bucket order; the first is_prefix_raw(cur, end) hit returns (pid, cur, cur + pat.len())' if oki and okf and okm else 'verify_bucket does not return the first verified pattern at cur')


def cb_param(cb, i):
    from acverif.rl import param_at
    return param_at(cb, i)


@only(X86)
def r06_4(cx):
    s = cx.body('packed::pattern::Patterns::set_match_kind')
    txt = ' ; '.join(tstr(s.call_term(bi, t), 300) for bi, t in s.calls())
    names = [short(t['callee']['path']) for bi, t in s.calls()]
    g = discr_gates(s, lambda x: is_var(x, 'kind') or self_field(x, 'kind'))
    ok = False
    if g:
        gb, x, arms, oth = g[0]
        vm = {v['name']: i for i, v in enumerate(cx.facts.adts['packed::api::MatchKind']['variants'])}
        plain = [bi for bi, t0 in s.calls(r'alloc::slice::sort$')]
        byk = [bi for bi, t0 in s.calls(r'alloc::slice::sort_by$')]
        tf, tl = arms.get(vm.get('LeftmostFirst')), arms.get(vm.get('LeftmostLongest'))
        if tf is not None and tl is not None and len(plain) == 1 and len(byk) == 1:
            rf, rl = s.reach(tf, cut_blocks=[gb]), s.reach(tl, cut_blocks=[gb])
            ok = plain[0] in rf and byk[0] not in rf and byk[0] in rl and plain[0] not in rl
    # decided on the path summaries: per match kind the one sort applied to self.order, and the comparator by evaluation
    from acverif.sym import summarize, canon, cstr, enum_table, teval
    from acverif.rl import Unsupported, EvalPanic
    rows = [r for r in summarize(cx.facts, s) if r.end == 'return']
    tab = enum_table(cx.facts, rows, 'packed::api::MatchKind')
    why = None
    for kn, want in (('LeftmostFirst', 'plain'), ('LeftmostLongest', 'bylen')):
        rs = tab.get(kn, [])
        if not rs:
            why = why or 'no path for %s' % kn
        for r in rs:
            sorts = [canon(c) for c in r.calls(r'slice::sort\w*$')]
            if len(sorts) != 1 or cstr(sorts[0][2][0]) != 'self.order':
                why = why or '%s: %d sorts of self.order (expected one)' % (kn, len(sorts))
                continue
            c = sorts[0]
            nm = short(c[1])
            if want == 'plain':
                if not nm.endswith('slice::sort'):
                    why = why or 'leftmost-first orders the patterns with %s (expected the stable ascending sort by id)' % nm
            else:
                if nm.endswith('slice::sort_by_key') or nm.endswith('slice::sort_by_cached_key'):
                    # the stable sort by key: the key must be Reverse(length of the pattern with that id)
                    f = c[2][1]
                    cb = _closure_body(cx, f)
                    if cb is None:
                        why = why or 'the leftmost-longest sort key is not a closure literal'
                        continue
                    cx.bodies_seen.add(cb.path)
                    crow = [x for x in summarize(cx.facts, cb) if x.end == 'return']
                    A = cstr(cb_param(cb, 2))
                    kt = canon(crow[0].ret) if len(crow) == 1 else None
                    inner = None
                    if kt is not None and is_agg(kt, r'core::cmp::Reverse$'):
                        inner = kt[3].get('0') if isinstance(kt[3], dict) else (kt[3][0] if kt[3] else None)
                    good = inner is not None
                    try:
                        for la in (0, 1, 4, 9):
                            def atk(t0, la=la):
                                s0 = cstr(t0)
                                if (re.search(r'(Pattern::len|slice::len|Vec::len)\(', s0) or s0.startswith('len(')) and A in s0:
                                    return la
                                return None
                            good = good and teval(inner, atk) == la
                    except (Unsupported, EvalPanic):
                        good = False
                    if not good:
                        why = why or 'the leftmost-longest sort key is not Reverse(pattern length)'
                    continue
                if not nm.endswith('slice::sort_by'):
                    why = why or 'leftmost-longest orders the patterns with %s (expected the stable sort_by: equal lengths keep insertion order)' % nm
                    continue
                f = c[2][1]
                cb = _closure_body(cx, f)
                if cb is None:
                    why = why or 'the leftmost-longest comparator is not a closure literal'
                    continue
                cx.bodies_seen.add(cb.path)
                crow = [x for x in summarize(cx.facts, cb) if x.end == 'return']
                A, B = cstr(cb_param(cb, 2)), cstr(cb_param(cb, 3))

                def at(t0, la=0, lb=0):
                    s0 = cstr(t0)
                    if re.search(r'(Pattern::len|slice::len|Vec::len)\(', s0) or s0.startswith('len('):
                        if A in s0 and B not in s0:
                            return la
                        if B in s0 and A not in s0:
                            return lb
                    return None
                try:
                    for la, lb in ((1, 2), (2, 1), (3, 3), (0, 5), (7, 0)):
                        if len(crow) != 1 or teval(crow[0].ret, lambda t0: at(t0, la, lb)) != ((lb > la) - (lb < la)):
                            why = why or 'the leftmost-longest comparator does not order by descending pattern length (lengths %d, %d)' % (la, lb)
                except (Unsupported, EvalPanic) as e:
                    why = why or 'the leftmost-longest comparator cannot be evaluated: %s' % e
    cx.report('R06.4', s, 'order', why is None, 'leftmost-first: ascending id; leftmost-longest: stable sort by descending length' if why is None else 'Patterns::set_match_kind ordering deviates: %s' % why)
    it = cx.body("<packed::pattern::PatternIter<'p> as core::iter::Iterator>::next")
    t = ' '.join(tstr(it.call_term(bi, tt), 200) for bi, tt in it.calls()) + ' '.join(tstr(it.rvalue_term(st['r'], 0, bi), 200) for bi in it.live_blocks() for st in it.blocks[bi]['stmts'] if st['k'] == 'assign')
    oki = 'order' in t
    cx.report('R06.4', it, 'iter-order', oki, 'Patterns::iter() walks the `order` permutation' if oki else 'the pattern iterator ignores the semantic order')
    for path, what in ((GEN + 'Teddy::<BUCKETS>::new', 'Teddy buckets'), ('packed::rabinkarp::RabinKarp::new', 'Rabin-Karp buckets')):
        b = cx.body(path)
        src = [b.call_term(bi, t) for bi, t in b.calls(r'packed::pattern::Patterns::iter$')]
        pushes = [b.call_term(bi, t) for bi, t in b.calls(r'Vec.*::push$')]
        ok = len(src) == 1 and bool(pushes)
        cx.report('R06.4', b, 'fill-order', ok, '%s are filled by iterating patterns.iter() (semantic order)' % what if ok else '%s are not filled from patterns.iter()' % what)
    t = cx.body(GEN + 'Teddy::<BUCKETS>::new')
    ln = [t.call_term(bi, tt) for bi, tt in t.calls(r'Pattern::low_nybbles$')]
    ok = len(ln) == 1 and is_call(peel_all(expand_vars(t, ln[0][2][1])), r'Teddy::mask_len$')
    ml = cx.body(GEN + 'Teddy::<BUCKETS>::mask_len')
    from acverif.sym import summarize as _sm, teval as _te, cstr as _cs
    mrows = [r for r in _sm(cx.facts, ml) if r.end == 'return']
    okm = bool(mrows)
    try:
        for mlv in (0, 1, 3, 4, 5, 9):
            at0 = lambda t0, mlv=mlv: mlv if _cs(t0) in ('self.patterns.minimum_len', 'packed::pattern::Patterns::minimum_len(self.patterns)') else None
            from acverif.sym import row_consistent as _rc
            sel = [r for r in mrows if _rc(r, at0)]
            okm = okm and len(sel) == 1 and _te(sel[0].ret, at0) == min(4, mlv)
    except Exception:
        okm = False
    cx.report('R06.4', t, 'bucket-key', ok and okm, 'patterns sharing the low nybbles of their first min(4, minimum_len) bytes share a bucket' if ok and okm else 'Teddy bucket key is not low_nybbles(mask_len()) with mask_len = min(4, minimum_len)')
    from rules.rabinkarp import r06_4_rk
    r06_4_rk(cx)


@only(X86)
def r06_5(cx):
    n = 0
    for k in (1, 2, 3, 4):
        b = cx.body('<packed::teddy::builder::x86_64::SlimAVX2<%d> as packed::teddy::builder::SearcherT>::find' % k)
        n += 1
        from acverif.sym import summarize, canon, cstr, row_consistent, by_cstr
        from acverif.rl import param_at
        START, END = cstr(param_at(b, 2)), cstr(param_at(b, 3))
        rows = [r for r in summarize(cx.facts, b) if r.end == 'return']
        why = None
        for ln in range(14, 40):
            at = by_cstr({'packed::ext::Pointer::distance(%s, %s)' % (END, START): ln, 'packed::teddy::generic::Slim::minimum_len(self.slim256)': 32 + k - 1})
            sel = [r for r in rows if row_consistent(r, at)]
            if len(sel) != 1:
                why = why or '%d paths for a haystack of %d bytes (the choice does not depend on end - start and slim256.minimum_len() alone)' % (len(sel), ln)
                continue
            ret = canon(sel[0].ret) if sel[0].ret is not None else None
            want = 'self.slim256' if ln >= 32 + k - 1 else 'self.slim128'
            if not (ret is not None and is_call(ret, r'generic::Slim::find$') and [cstr(x) for x in ret[2]] == [want, START, END]):
                why = why or 'for end - start = %d and slim256.minimum_len() = %d the search is answered by %s (expected %s.find(start, end))' % (ln, 32 + k - 1, tstr(ret, 120) if ret else None, want)
        cx.report('R15.2', b, 'avx2-dispatch', why is None, 'the 256-bit searcher runs only if end - start >= slim256.minimum_len(); otherwise the 128-bit one (tabulated)' if why is None else 'SlimAVX2<%d>::find: %s' % (k, why))
        nu = cx.body('packed::teddy::builder::x86_64::SlimAVX2::<%d>::new_unchecked' % k)
        nrows = [r for r in summarize(cx.facts, nu) if r.end == 'return']
        okm = bool(nrows)
        for r in nrows:
            rt = r.ret
            if not (rt is not None and rt[0] == 'agg' and isinstance(rt[3], dict) and 'minimum_len' in rt[3]):
                okm = False
                continue
            ml = canon(rt[3]['minimum_len'])
            # the value whose minimum_len is published must be the 128-bit searcher stored in the SlimAVX2 value
            aggs = [canon(c[2][0]) for c in r.calls(r'alloc::sync::Arc::<.*>::new$|alloc::sync::Arc::new$')]
            s128 = [cstr(x[3]['slim128']) for x in aggs if x[0] == 'agg' and isinstance(x[3], dict) and 'slim128' in x[3]]
            if not (is_call(ml, r'generic::Slim::minimum_len$') and len(s128) == 1 and cstr(ml[2][0]) == s128[0]):
                okm = False
        cx.report('R15.2', nu, 'minimum_len', okm, 'Searcher.minimum_len is the 128-bit (smaller) minimum' if okm else 'SlimAVX2 Searcher.minimum_len is not slim128.minimum_len()')
    # every SearcherT::find impl carries a target_feature and every checked constructor probes it
    feats = {'SlimSSSE3': 'ssse3', 'SlimAVX2': 'avx2', 'FatAVX2': 'avx2'}
    for p, b in sorted(cx.facts.bodies.items()):
        m = re.match(r'<packed::teddy::builder::x86_64::(\w+)<(\d)> as packed::teddy::builder::SearcherT>::find$', p)
        if m:
            n += 1
            need = feats.get(m.group(1))
            tf = b.j.get('target_features', [])
            ok = need in tf
            cx.report('R15.2', b, 'target-feature', ok, 'compiled with target_feature(%s)' % need if ok else 'SearcherT::find for %s lacks target_feature(%s) (has %s)' % (m.group(1), need, tf))
        m = re.match(r'packed::teddy::builder::x86_64::(\w+)::<(\d)>::new$', p)
        if m:
            need = feats.get(m.group(1))
            # on the path summaries (helpers unfolded): every path that reaches new_unchecked has decided that the CPU feature is
            # available -- through is_available_<feature>() or the std detection macro itself
            from acverif.sym import summarize as _sum, canon as _cn
            ok = False
            rws = _sum(cx.facts, b)
            reach = [r for r in rws if r.calls(r'::new_unchecked$')]
            if reach:
                ok = True
                for r in reach:
                    gate = [v for c, v in r.conds if is_call(_cn(c), r'(is_available_%s|__is_feature_detected::%s)$' % (need, need))]
                    if not gate or not all(v is True for v in gate) or len(r.calls(r'::new_unchecked$')) != 1:
                        ok = False
            cx.report('R15.2', b, 'availability-gate', ok, 'new_unchecked is reached only if is_available_%s()' % need if ok else '%s::new constructs the searcher without checking is_available_%s()' % (m.group(1), need))
    cx.floor('R15.2', 'SearcherT impls and dispatchers', n, 16)


@only(X86)
def r15_4(cx):
    from acverif.sym import simulate, SimError, summarize, canon, cstr, row_consistent, teval, by_cstr
    from acverif.rl import param_at, Unsupported, EvalPanic
    b = cx.body('packed::pattern::is_equal_raw')
    X, Y, N = (cstr(param_at(b, i)) for i in (1, 2, 3))
    SZ = {'u8': 1, 'u16': 2, 'u32': 4, '[u8; 3]': 3, 'u64': 8, 'u128': 16}
    why_s = why_w = None
    for n in range(0, 14):
        try:
            ev, end, ret = simulate(cx.facts, b, {X: 1000, Y: 2000, N: n}, extra_atoms=lambda t: 7 if is_call(t, r'const_ptr::(read|read_unaligned)$') else None)
        except SimError as e:
            why = 'is_equal_raw cannot be tabulated for n = %d: %s' % (n, e)
            if n < 4:
                why_s = why_s or why
            else:
                why_w = why_w or why
            continue
        reads = {1000: [], 2000: []}
        why = None
        for nm, blk, vals, _terms, _row in ev:
            if not re.search(r'const_ptr::(read|read_unaligned)$', nm):
                continue
            w = SZ.get(b.term(blk)['callee']['gargs'][0])
            p = vals[0]
            base = 1000 if p is not None and 1000 <= p < 2000 else 2000
            if w is None or p is None:
                why = 'a read of unknown width or address'
                break
            if p < base or p + w > base + n:
                why = 'for n = %d a %d-byte read at offset %d leaves the %d bytes the caller vouched for' % (n, w, p - base, n)
                break
            reads[base].append((p - base, w))
        if why is None:
            if sorted(reads[1000]) != sorted(reads[2000]):
                why = 'for n = %d the two sides are read at different offsets / widths' % n
            else:
                cov = set()
                for o, w in reads[1000]:
                    cov |= set(range(o, o + w))
                if cov != set(range(n)):
                    why = 'for n = %d the reads cover bytes %s, not all of 0..%d' % (n, sorted(cov), n)
            if n < 4 and len(reads[1000]) > 1:
                why = why or 'n = %d is compared with %d reads per side' % (n, len(reads[1000]))
        if why:
            if n < 4:
                why_s = why_s or why
            else:
                why_w = why_w or why
    cx.report('R15.4', b, 'small-widths', why_s is None, 'n = 1, 2, 3 read exactly n bytes from each side in one read; n = 0 reads nothing' if why_s is None else why_s)
    cx.report('R15.4', b, 'wide-reads', why_w is None, 'n in 4..=13: every read stays inside [p, p+n) on both sides, both sides are read alike, and the reads cover all n bytes (4-byte steps plus one read at p+n-4); tabulated per n on the iteration summaries' if why_w is None else why_w)
    for path in ("packed::pattern::Pattern::<'p>::is_prefix_raw", 'packed::pattern::is_prefix'):
        p = cx.body(path)
        rows = [r for r in summarize(cx.facts, p) if r.end == 'return']
        why = None
        raw = path.endswith('is_prefix_raw')
        if raw:
            SELF, START, END = (cstr(param_at(p, i)) for i in (1, 2, 3))
            PL = 'core::slice::len(%s.0)' % SELF
            HL = 'packed::ext::Pointer::distance(%s, %s)' % (END, START)
        else:
            HAY, NEEDLE = (cstr(param_at(p, i)) for i in (1, 2))
            PL = 'core::slice::len(%s)' % NEEDLE
            HL = 'core::slice::len(%s)' % HAY
        try:
            for pl in (0, 1, 2, 3):
                for hl in (0, 1, 2, 3):
                    at = by_cstr({PL: pl, HL: hl})
                    sel = [r for r in rows if row_consistent(r, at)]
                    if not sel:
                        why = 'no path for pattern length %d and %d available bytes' % (pl, hl)
                    for r in sel:
                        eq = [canon(c) for c in r.calls(r'packed::pattern::is_equal_raw$')]
                        if pl > hl:
                            if eq or r.ret != ('c', 0):
                                why = 'with %d available bytes a pattern of length %d is still compared (or reported as a prefix)' % (hl, pl)
                        else:
                            if len(eq) != 1 or teval(eq[0][2][2], at) != pl or cstr(canon(r.ret)) != cstr(eq[0]):
                                why = 'a pattern that fits is not decided by is_equal_raw(.., .., pattern length)'
                            elif raw and not (cstr(eq[0][2][0]) == START and re.search(r'as_ptr\(%s\.0\)$' % re.escape(SELF), cstr(eq[0][2][1]))):
                                why = 'is_equal_raw is not given (start, pattern bytes)'
                            elif not raw and not (re.search(r'as_ptr\(%s\)$' % re.escape(HAY), cstr(eq[0][2][0])) and re.search(r'as_ptr\(%s\)$' % re.escape(NEEDLE), cstr(eq[0][2][1]))):
                                why = 'is_equal_raw is not given (haystack, needle)'
        except (Unsupported, EvalPanic) as e:
            why = 'cannot evaluate: %s' % e
        cx.report('R15.4', p, 'length-test', why is None, 'is_equal_raw is reached only after pattern length <= available bytes, with n = pattern length (all orderings tabulated)' if why is None else '%s: %s' % (path.split('::')[-1], why))
        if raw:
            used = any(HL in cstr(c) for r in rows for c, v in r.conds)
            cx.report('R15.4', p, 'available', used, 'available bytes = end.distance(start)' if used else 'the length test does not use end.distance(start)')


    # who may call the unguarded comparison: only the two length-checking wrappers (a helper that is not part of the vocabulary
    # counts for its vocabulary callers)
    from acverif.rl import CallGraph
    from acverif.inline import vocab
    cg = CallGraph(cx.facts)
    V = vocab()
    callers = {}
    for q in cx.facts.bodies:
        for blk, tg in cg.callees(q):
            callers.setdefault(tg, set()).add(q)

    def owners(q, seen):
        if q in V or q in seen:
            return {q}
        seen.add(q)
        out = set()
        for c in callers.get(q, ()):
            out |= owners(c, seen)
        return out or {q}
    who = set()
    for q in callers.get('packed::pattern::is_equal_raw', ()):
        who |= owners(q, set())
    allowed = {"packed::pattern::Pattern::<'p>::is_prefix_raw", 'packed::pattern::is_prefix'}
    extra = sorted(who - allowed)
    cx.report('R15.4', b, 'callers', not extra and bool(who), 'is_equal_raw (reads n bytes unconditionally) is called only by is_prefix / is_prefix_raw, which compare n with the available bytes first' if not extra and who else
              'is_equal_raw is also reached from %s without the length test of is_prefix / is_prefix_raw' % extra)


@only(X86)
def r15_6(cx):
    for nm in ('SlimMaskBuilder', 'FatMaskBuilder'):
        b = cx.body(GEN + nm + '::build')
        loads = [(bi, b.call_term(bi, t)) for bi, t in b.calls(r'Vector::load_unaligned$')]
        n_ok = 0
        for bi, ct in loads:
            src = expand_vars(b, ct[2][0], keep=('self',))
            fld = 'lo' if 'self.lo' in tstr(src) else ('hi' if 'self.hi' in tstr(src) else None)
            g = []
            for blk, sc in b.switches():
                if sc[0] != 'bool':
                    continue
                def fn(y, fld=fld):
                    if y[0] == 'k' and y[1].endswith('Vector>::BYTES'):
                        return atom('VB')
                    if is_call(y, r'core::slice::len$') and tstr(peel(y[2][0])) == 'self.%s' % fld:
                        return atom('AL')
                    return None
                cn = cmp_norm(rewrite(sc[1], fn))
                if cn == cmp_norm(('op', 'Le', atom('VB'), atom('AL'))):
                    g += [(blk, t) for t in sc[2]]
            if fld and g and not reachable_without(b, [bi], g):
                n_ok += 1
        ok = len(loads) == 2 and n_ok == 2
        cx.report('R15.6', b, 'mask-loads', ok, 'both mask loads are behind V::BYTES <= array length' if ok else '%s::build loads a mask vector without asserting V::BYTES <= array length' % nm)


SAFE_V = r'^(packed::vector::(Vector|FatVector)::(splat|and|cmpeq|is_zero|shift_8bit_lane_right|shift_in_one_byte|shift_in_two_bytes|shift_in_three_bytes|shuffle_bytes|for_each_64bit_lane|for_each_low_64bit_lane|half_shift_in_one_byte|half_shift_in_two_bytes|half_shift_in_three_bytes|interleave_high_8bit_lanes|interleave_low_8bit_lanes|swap_halves)|core::arch::x86_64::_mm(256)?_(alignr_epi8|and_si\d+|broadcastsi128_si256|cmpeq_epi8|extract_epi64|movemask_epi8|or_si\d+|permute2x128_si256|permute4x64_epi64|set1_epi8|shuffle_epi8|srli_epi16|unpackhi_epi8|unpacklo_epi8)|core::result::Result::unwrap_unchecked)$'
PTR_P = r'^(core::ptr::const_ptr::(add|sub|offset_from|cast)|packed::ext::Pointer::distance)$'
LOAD_L = r'^(packed::vector::(Vector::load_unaligned|FatVector::load_half_unaligned)|core::arch::x86_64::_mm(256)?_loadu_si\d+|core::ptr::const_ptr::(read|read_unaligned))$'
UNCHK_U = r'^(core::slice::get_unchecked|packed::pattern::Patterns::get_unchecked)$'
# functions whose pointer / load / unchecked operations are covered by a premise rule
COVERED = [
    (r'^packed::teddy::generic::(Slim|Fat)::<V, \d>::(find|find_one|candidate)$', 'R06.1/R15.3 window premises'),
    (r'^packed::teddy::generic::Teddy::<(BUCKETS|8|16)>::(verify64|verify_bucket|verify)(::\{closure#0\})?$', 'R06.3/R15.5 verification geometry'),
    (r"^packed::pattern::(is_equal_raw|is_prefix|Pattern::<'p>::is_prefix_raw)$", 'R15.4 width table / length test'),
    (r'^packed::pattern::Patterns::get_unchecked$', 'R15.5 pattern id provenance'),
    (r'^packed::teddy::generic::(Slim|Fat)MaskBuilder::build$', 'R15.6 mask loads'),
    (r'^packed::teddy::builder::Searcher::find$', 'R10.5/R15.2 entry premises'),
    (r'^<packed::teddy::builder::x86_64::\w+<\d> as packed::teddy::builder::SearcherT>::find$', 'R15.2 dispatch'),
    (r'^<\*(const|mut) T as packed::ext::Pointer>::distance$', 'pointer difference helper'),
    (r'^packed::vector::x86_64_\w+::<impl packed::vector::(Vector|FatVector) for core::arch::x86_64::__m(128|256)i>::', 'vector trait impls: loads take a caller-validated pointer'),
]


@only(X86)
def r15_1(cx):
    counts = {'V': 0, 'P': 0, 'L': 0, 'U': 0, 'C': 0, 'fmt': 0}
    unmapped = []
    uncovered = []
    for p, b in sorted(cx.facts.bodies.items()):
        for bi, t in b.calls():
            ce = t['callee']
            if not (ce.get('unsafe') or ce.get('intrinsic')):
                continue
            sp = short(ce.get('path', ''))
            if sp == 'core::fmt::Arguments::new':
                counts['fmt'] += 1
                continue
            cls = None
            if re.search(SAFE_V, sp):
                cls = 'V'
            elif re.search(PTR_P, sp):
                cls = 'P'
            elif re.search(LOAD_L, sp):
                cls = 'L'
            elif re.search(UNCHK_U, sp):
                cls = 'U'
            elif ce.get('local'):
                cls = 'C'
            if cls is None:
                unmapped.append((p, sp, line_of(b, bi)))
                continue
            counts[cls] += 1
            if cls in ('P', 'L', 'U') and not any(re.search(pat, p) for pat, why in COVERED):
                uncovered.append((p, sp, line_of(b, bi)))
    for p, sp, line in unmapped:
        cx.bad('R15.1', p, 'unclassified:' + sp.rsplit('::', 1)[-1], 'unsafe operation %s is not in the classified inventory (value-only SIMD / pointer arithmetic / load / unchecked index / local unsafe fn)' % sp, line)
    for p, sp, line in uncovered:
        cx.bad('R15.1', p, 'uncovered:' + sp.rsplit('::', 1)[-1], 'pointer/load/unchecked operation %s in a function that no premise rule covers' % sp, line)
    cx.report('R15.1', 'crate', 'inventory', not unmapped and not uncovered, 'unsafe operations: %d value-only SIMD, %d pointer arithmetic, %d loads, %d unchecked indexings, %d calls of local unsafe fns (%d format_args! internals ignored); every P/L/U operation lies in a function covered by a premise rule' % (counts['V'], counts['P'], counts['L'], counts['U'], counts['C'], counts['fmt']))
    cx.floor('R15.1', 'classified unsafe operations', counts['V'] + counts['P'] + counts['L'] + counts['U'] + counts['C'], 250)
    # every function containing such operations is in src/packed/
    outside = sorted({p for p, b in cx.facts.bodies.items() if not b.file.startswith('src/packed/') and any((t['callee'].get('unsafe') or t['callee'].get('intrinsic')) and short(t['callee'].get('path', '')) != 'core::fmt::Arguments::new' for bi, t in b.calls())})
    cx.report('R15.1', 'crate', 'confined', not outside, 'all unsafe operations live in src/packed/' if not outside else 'unsafe operations outside src/packed/: %s' % outside)
    # transmutes
    tm = []
    for p, b in cx.facts.bodies.items():
        for bi, si, pl, st in b.stores():
            r = st.get('r') if si != 'term' else None
            if r and r['k'] == 'cast' and 'Transmute' in r['ck'] and not b.locals[r['a']['p']['l']]['ty'].startswith('alloc::boxed::Box<') if (r and r['k'] == 'cast' and r['a']['k'] in ('copy', 'move')) else False:
                tm.append((p, r['from'], r['ty']))
    okt = all(frm.startswith('core::arch::x86_64::__m') and ('[u64' in to or '[u8' in to or '[i' in to or to.startswith('core::arch')) for p, frm, to in tm)
    cx.report('R15.1', 'crate', 'transmutes', okt, '%d transmute(s), all value-only SIMD-register-to-array' % len(tm) if okt else 'transmutes: %s' % tm)


@only(X86)
def r06_6(cx):
    from acverif.sym import Sym, summarize, loop_rows, canon, cstr, teval, by_cstr
    from acverif.rl import param_at, Unsupported, EvalPanic
    b = cx.body('packed::rabinkarp::RabinKarp::new')
    PAT = cstr(param_at(b, 1))
    ML = 'packed::pattern::Patterns::minimum_len(%s)' % PAT
    ML2 = '%s.minimum_len' % PAT
    why = None
    # the RabinKarp value built: hash_len = minimum_len; hash_2pow = the cursor of a loop that doubles it hash_len - 1 times
    aggs = [b.rvalue_term(st['r'], 0, bi) for bi, si, pl, st in b.stores() if si != 'term' and st['r'].get('k') == 'agg' and str(st['r'].get('adt', '')).endswith('rabinkarp::RabinKarp')]
    frows = [r for r in summarize(cx.facts, b) if r.end == 'return']
    pw = None
    for r in frows:
        rt = r.ret
        while rt is not None and rt[0] in ('phi', 'upd'):
            rt = rt[3] if rt[0] == 'phi' else rt[1]      # the value is completed by a later loop that only fills the buckets
        if not (rt is not None and rt[0] == 'agg' and isinstance(rt[3], dict) and 'hash_len' in rt[3]):
            continue
        if cstr(rt[3]['hash_len']) not in (ML, ML2):
            why = 'hash_len = %s (expected patterns.minimum_len())' % tstr(canon(rt[3]['hash_len']), 80)
        pw = rt[3]['hash_2pow']
    if pw is None:
        why = why or 'no RabinKarp value with hash_len / hash_2pow is returned'
    elif pw[0] != 'phi':
        why = why or 'hash_2pow = %s is not computed by the doubling loop' % tstr(canon(pw), 80)
    else:
        h, l = pw[1], pw[2]
        try:
            if teval(pw[3], lambda t0: None) != 1:
                why = why or 'hash_2pow does not start at 1'
        except (Unsupported, EvalPanic):
            why = why or 'hash_2pow start value unknown'
        cur = Sym(cx.facts, b).default_local(l)
        cont = [r for r in loop_rows(cx.facts, b, h) if r.end == ('stop', h)]
        if not cont:
            why = why or 'the doubling loop never iterates'
        for r in cont:
            try:
                if teval(r.env.get(l, cur), lambda t0: 5 if t0 == cur else None) != 10:
                    why = why or 'an iteration does not double hash_2pow'
            except (Unsupported, EvalPanic):
                why = why or 'the hash_2pow update cannot be evaluated'
        # iteration count: the range 1..hash_len on arrival
        arr = [r for r in Sym(cx.facts, b, start=0, stop={h}).rows() if r.end == ('stop', h)]
        nx = [b.call_term(bi, t0) for bi, t0 in b.calls(r'Iterator::next$') if bi in b.loops()[h]]
        okr = False
        if len(nx) == 1 and arr:
            recv = peel_all(nx[0][2][0])
            src = None
            if recv[0] in ('v', 't'):
                src = canon(arr[0].env.get(recv[2] if recv[0] == 'v' else recv[1], ('s', '?')))
            elif recv[0] == 'agg':
                src = canon(expand_vars(b, recv))
            if src is not None:
                okr = is_agg(src, r'core::ops::Range$') and src[3]['start'] == ('c', 1) and cstr(src[3]['end']) in (ML, ML2)
        if not okr:
            why = why or 'the doubling loop does not run over 1..hash_len'
    cx.report('R06.6', b, 'window', why is None, 'hash window = patterns.minimum_len(); hash_2pow = 2^(hash_len - 1)' if why is None else 'Rabin-Karp window/power deviate: %s' % why)
    u = cx.body('packed::rabinkarp::RabinKarp::update_hash')
    urows = [r for r in summarize(cx.facts, u) if r.end == 'return']
    PREV, OLD, NEW = (cstr(param_at(u, i)) for i in (2, 3, 4))
    ok = len(urows) == 1
    if ok:
        try:
            for pv, ov, nv, hp in ((1000, 3, 5, 8), (77, 11, 2, 16), (5000, 200, 250, 4), (123456, 7, 9, 1)):
                got = teval(urows[0].ret, by_cstr({PREV: pv, OLD: ov, NEW: nv, 'self.hash_2pow': hp}))
                if got != ((pv - ov * hp) << 1) + nv:
                    ok = False
        except (Unsupported, EvalPanic):
            ok = False
        ok = ok and all(re.search(r'wrapping_', short(c[1])) for c in urows[0].calls(r'core::num::'))
        # the hash lives in the full usize range: every arithmetic step must be a wrapping_* call (a plain `*`, `+`, `-`, `<<` is a
        # checked operation that panics in builds with overflow checks once the window is long enough)
        ok = ok and not any(x[0] == 'op' and x[1].replace('WithOverflow', '').replace('Unchecked', '') in ('Add', 'Sub', 'Mul', 'Shl') for x in subterms(urows[0].ret))
    cx.report('R06.6', u, 'update', ok, 'update = ((prev - old * hash_2pow) << 1) + new (wrapping)' if ok else 'update_hash deviates from ((prev - old * hash_2pow) << 1) + new')
    hh = cx.body('packed::rabinkarp::RabinKarp::hash')
    okh = False
    hl = hh.loops()
    if len(hl) == 1:
        h = list(hl)[0]
        sym = Sym(cx.facts, hh)
        mods, _ = sym.loop_mods(h)
        from acverif.sym import live_in
        accs = [l for l in live_in(cx.facts, hh, h) if hh.locals[l]['ty'] == 'usize']
        for r in loop_rows(cx.facts, hh, h):
            if r.end != ('stop', h):
                continue
            nx = [c[1] for c, v in r.conds if c[0] == 'discr' and is_call(c[1], r'Iterator::next$') and v == 1]
            for l in accs:
                cur = sym.default_local(l)
                try:
                    if nx and teval(r.env.get(l, cur), lambda t0: 9 if t0 == cur else (4 if (t0[0] == 'f' and t0[1][0] == 'dc' and t0[1][1] == nx[0]) else None)) == (9 << 1) + 4:
                        # wrapping arithmetic only (see update)
                        okh = not any(x[0] == 'op' and x[1].replace('WithOverflow', '').replace('Unchecked', '') in ('Add', 'Sub', 'Mul', 'Shl') for x in subterms(r.env.get(l, cur)))
                except (Unsupported, EvalPanic):
                    pass
    cx.report('R06.6', hh, 'hash', okh, 'hash = fold((h << 1) + byte) over the window' if okh else 'hash deviates')


@only(X86)
def r06_7(cx):
    """membership template: nybble indices are masked before every byte shuffle (pshufb zeroes lanes whose index has bit 7 set)"""
    n = 0
    for k in (1, 2, 3, 4):
        b = cx.body(GEN + 'Mask::<V>::members%d' % k)
        sh = [(bi, expand_vars(b, b.call_term(bi, t), keep=('chunk', 'masks', 'mask1', 'self'))) for bi, t in b.calls(r'Vector::shuffle_bytes$')]
        def nyb(t, hi):
            if not (is_call(t, r'Vector::and$')):
                return False
            a, c = t[2]
            lom = lambda x: is_call(x, r'Vector::splat$') and x[2][0] == ('c', 15)
            val, m = (a, c) if lom(c) else ((c, a) if lom(a) else (None, None))
            if val is None:
                return False
            if hi:
                return is_call(val, r'Vector::shift_8bit_lane_right$') and is_var(peel(val[2][0]), 'chunk')
            return is_var(peel(val), 'chunk')
        lo_ok = [x for bi, x in sh if tstr(x[2][0]).endswith('.lo') and nyb(x[2][1], False)]
        hi_ok = [x for bi, x in sh if tstr(x[2][0]).endswith('.hi') and nyb(x[2][1], True)]
        n += 1
        ok = len(sh) == 2 * k and len(lo_ok) == k and len(hi_ok) == k
        # table j is used once as lo and once as hi
        idxs = sorted(re.findall(r'masks\[(\d)\]', ' '.join(tstr(x[2][0]) for bi, x in sh)))
        if k > 1:
            ok = ok and idxs == sorted([str(j) for j in range(k)] * 2)
        cx.report('R06.7', b, 'nybble-masking', ok, 'members%d: %d shuffles; low tables are indexed by chunk & 0x0F, high tables by (chunk >> 4) & 0x0F' % (k, 2 * k) if ok else
                  'members%d: a byte shuffle is indexed by an unmasked nybble source (bytes >= 0x80 produce no candidate) or the lo/hi tables are mixed up' % k)
    cx.floor('R06.7', 'membership functions', n, 4)


@only(X86)
def r15_7(cx):
    """Vector loads read exactly the window they are documented to read: load_unaligned reads size_of::<Self>() bytes,
    load_half_unaligned reads half of that (a wider read runs past the validated window: out-of-bounds read at the end of
    the haystack)."""
    SZ = {'core::arch::x86_64::__m128i': 16, 'core::arch::x86_64::__m256i': 32, 'core::arch::aarch64::uint8x16_t': 16}
    INTR = {'_mm_loadu_si128': 16, '_mm256_loadu_si256': 32, '_mm_load_si128': 16, '_mm256_load_si256': 32, 'vld1q_u8': 16}
    n = 0
    for p, b0 in sorted(cx.facts.bodies.items()):
        m = re.match(r'^packed::vector::\w+::<impl packed::vector::(Vector|FatVector) for (.+)>::(load_unaligned|load_half_unaligned)$', p)
        if not m:
            continue
        b = cx.body(p)
        self_sz = SZ.get(m.group(2))
        if self_sz is None:
            cx.bad('R15.7', b, 'load-width', 'unknown vector type %s' % m.group(2))
            continue
        want = self_sz if m.group(3) == 'load_unaligned' else self_sz // 2
        got = []
        for bi, t in b.calls():
            c = t['callee']
            nm = short(c.get('path', '')).rsplit('::', 1)[-1]
            if nm in INTR:
                got.append(INTR[nm])
            elif nm in ('load_unaligned', 'load_half_unaligned') and 'packed::vector' in (c.get('resolved') or c.get('path', '')):
                st = c.get('self_ty') or ((c.get('gargs') or [''])[0])
                mm = re.search(r'__m(128|256)i|uint8x16_t', (c.get('resolved') or '') + ' ' + str(st))
                w = {'128': 16, '256': 32, None: 16}.get(mm.group(1) if mm and mm.groups() else None) if mm else None
                if w is not None and nm == 'load_half_unaligned':
                    w //= 2
                got.append(w)
            elif nm in ('read', 'read_unaligned') and 'ptr' in c.get('path', ''):
                ty = (c.get('gargs') or ['?'])[0]
                got.append(SZ.get(ty, {'u8': 1, 'u16': 2, 'u32': 4, 'u64': 8, 'u128': 16}.get(ty)))
        n += 1
        ok = len(got) == 1 and got[0] == want
        cx.report('R15.7', b, 'load-width', ok, '%s reads %d bytes' % (m.group(3), want) if ok else '%s::%s reads %s bytes (expected one read of %d): a wider read leaves the window the caller validated' % (m.group(2).rsplit('::', 1)[-1], m.group(3), got, want))
    cx.floor('R15.7', 'vector load functions', n, 3)


# ------------------------------------------------------------------------------------------------- R06.10 bucket assignment
def r06_10(cx):
    """Teddy::new: which bucket a pattern goes to is a function of its key (the low nybbles of its first mask_len bytes) alone:
    the first pattern with a key chooses the bucket, every later pattern with that key follows it.  Verification stops at the
    first hit inside one bucket, so two patterns that can match at the same place must share a bucket or priority is lost."""
    from acverif.sym import Sym, loop_rows, innermost_loop, canon, cstr
    b = cx.body(GEN + 'Teddy::<BUCKETS>::new')
    why = None
    nx = [bi for bi, t in b.calls(r'Iterator::next$')]
    h = innermost_loop(b, nx[0]) if len(nx) == 1 else None
    if h is None:
        cx.bad('R06.10', b, 'bucket-map', 'the pattern loop of Teddy::new was not found')
        return
    sym = Sym(cx.facts, b)
    mods, _ = sym.loop_mods(h)
    maps = [l for l in mods if re.match(r'^(alloc::collections::BTreeMap|std::collections::HashMap|hashbrown::HashMap)<', b.locals[l]['ty'])]
    pre = [r for r in Sym(cx.facts, b, start=0, stop={h}).rows() if r.end == ('stop', h)]
    if len(maps) != 1 or not pre or not all(maps[0] in r.env and is_call(canon(r.env[maps[0]]), r'(BTreeMap|HashMap)(::<.*>)?::new$') for r in pre):
        cx.report('R06.10', b, 'bucket-map', False, 'the key -> bucket assignment is not kept in one map that starts empty (loop-carried maps: %d)' % len(maps))
        return
    M = cstr(sym.default_local(maps[0]))
    rows = [r for r in loop_rows(cx.facts, b, h) if r.end != 'diverge']
    n_hit = n_new = 0
    for r in rows:
        calls = [canon(c) for c in r.calls(r'.')]
        onmap = [c for c in calls if c[2] and cstr(c[2][0]) == M]
        pushes = [c for c in calls if re.search(r'Vec(::<.*>)?::push$', short(c[1]))]
        some = r.cond(lambda c: canon(c)[0] == 'discr' and is_call(canon(c)[1], r'Iterator::next$'))
        if isinstance(some, tuple) and some[0] == 'not':
            some = 0 if 1 in some[1] else 1
        if some != 1:
            if pushes or onmap:
                why = why or 'buckets or the map are touched after the patterns are exhausted'
            continue
        item = None
        for c, v in r.conds:
            cc = canon(c)
            if cc[0] == 'discr' and is_call(cc[1], r'Iterator::next$'):
                item = cstr(('f', ('dc', cc[1], 'Some'), '0'))
        keys = {cstr(c[2][1]) for c in onmap if len(c[2]) > 1}
        key_ok = len(keys) == 1 and all(re.match(r'^packed::pattern::Pattern::low_nybbles\(%s\.1, packed::teddy::generic::Teddy::mask_len\(' % re.escape(item), k) for k in keys)
        if not key_ok:
            why = why or 'the map is not consulted with the pattern\'s own key low_nybbles(pattern, mask_len) (%s)' % sorted(keys)[:2]
            continue
        gets = [c for c in onmap if re.search(r'::get$', short(c[1]))]
        ins = [c for c in onmap if re.search(r'::insert$', short(c[1]))]
        other = [c for c in onmap if c not in gets and c not in ins]
        if other or len(gets) != 1:
            why = why or 'the map is used through %s' % [short(c[1]) for c in (other or onmap)][:3]
            continue
        hit = r.cond(lambda c: canon(c)[0] == 'discr' and cstr(canon(c)[1]) == cstr(gets[0]))
        if isinstance(hit, tuple) and hit[0] == 'not':
            hit = 0 if 1 in hit[1] else 1
        if len(pushes) != 1 or cstr(pushes[0][2][1]) != item + '.0':
            why = why or 'an iteration does not push exactly its own pattern id into one bucket'
            continue
        tgt = pushes[0][2][0]
        slot = cstr(tgt[2]) if tgt[0] == 'idx' else (cstr(tgt[2][1]) if is_call(tgt, r'Index(Mut)?::index(_mut)?$') else None)
        if hit == 1:
            n_hit += 1
            want = cstr(('f', ('dc', gets[0], 'Some'), '0'))
            if ins or slot != want:
                why = why or 'a pattern whose key is already known goes to bucket %s (expected the bucket recorded for the key)' % slot
        elif hit == 0:
            n_new += 1
            if len(ins) != 1 or len(ins[0][2]) != 3 or cstr(ins[0][2][2]) != slot:
                why = why or 'a pattern with a new key is put into bucket %s but the map records %s' % (slot, cstr(ins[0][2][2])[:60] if ins else 'nothing')
        else:
            why = why or 'the bucket does not depend on the map lookup'
    if why is None and not (n_hit == 1 and n_new == 1):
        why = 'expected one known-key path and one new-key path per pattern (found %d / %d)' % (n_hit, n_new)
    cx.report('R06.10', b, 'bucket-map', why is None, 'the bucket is looked up by the full key in a map that starts empty; a new key records the bucket it was given, a known key follows it' if why is None else 'Teddy::new: ' + why)


def _closure_body(cx, f):
    """body of a closure value, with helpers that did not exist on the reference tree spliced in"""
    if not (f[0] == 'agg' and f[1] == 'closure'):
        return None
    cb = cx.facts.bodies.get(f[2])
    if cb is None:
        return None
    from acverif.inline import inlined_body
    return inlined_body(cx.facts, cb)

"""C12 — replace_all is find_iter plus splicing (DESIGN.md §5 C12)."""
import re

from acverif.mir import short, tstr, subterms
from acverif.rl import (is_call, peel, peel_all, is_var, is_agg, is_const, bool_gates, try_gates, discr_gates, arm_edges, param_at, expand_vars,
                        reachable_without, must_pass, line_of, operand_ty)

LEVEL = 'other'
EXPLANATION = """
Decides on the MIR of both splice loops (Automaton::try_replace_all_with and ..._with_bytes) and of the two table variants, for
every path and hence for every haystack, pattern list and closure behaviour: R12.1 the loop iterates
self.try_find_iter(Input::new(haystack))? with the caller's haystack and no other input configuration; R12.2 per iteration the
events are append haystack[last_match .. m.start()], last_match = m.end(), call the closure with (&m, haystack[m.start()..m.end()],
dst), in this order, all or none; last_match has exactly the definitions 0 and m.end(); the closure's false result leaves the
loop and both exits append haystack[last_match..] before Ok; R12.3 (&str variant) none of the events is reachable once the true
edges of is_char_boundary(m.start()) / is_char_boundary(m.end()) are removed, and skipping is only possible through a failed
boundary test; R12.4 the table variants assert replace_with.len() == patterns_len() before anything else, their closure appends
replace_with[mat.pattern()] to the destination it is given and returns true, and the returned buffer is the one that was filled;
R12.5 AhoCorasick::try_replace_all* pass their arguments through unchanged.
"""
NOT_DECIDED = """The match sequence itself (that find_iter yields the non-overlapping matches of C01/C02) and the behaviour of the
user-supplied closure. UTF-8 validity of the output follows from R12.3 only together with the standard library's slicing contract."""

APPEND = r'(alloc::string::String::push_str|alloc::vec::Vec::<.*>::extend_from_slice|core::iter::Extend::extend|alloc::vec::Vec::extend_from_slice|Extend::extend)$'


def index_of(t):
    """haystack[range] in any spelling -> (base, range_term) or None"""
    t = peel(t)
    if is_call(t, r'core::ops::Index::index$') and len(t[2]) == 2:
        return peel(t[2][0]), t[2][1]
    return None


def splice_loop(cx, b, is_str):
    R = 'R12.2'
    SELF, hay, dst, RW = (param_at(b, i) for i in (1, 2, 3, 4))
    if hay is None or dst is None or RW is None:
        cx.bad(R, b, 'params', 'haystack / dst / replace_with parameters not found')
        return

    def ex(x):
        return peel_all(expand_vars(b, x))

    def unwrapped_iter(x):
        """x = try_find_iter(..)? in any spelling (?, match Ok/Err, through into_iter)"""
        x = ex(x)
        for _ in range(6):
            if is_call(x, r'IntoIterator::into_iter$'):
                x = ex(x[2][0])
            elif x[0] == 'try':
                x = ex(x[1])
            elif x[0] == 'f' and x[1][0] == 'dc' and x[1][2] in ('Ok', 'Continue'):
                x = ex(x[1][1])
            elif is_call(x, r'Try::branch$'):
                x = ex(x[2][0])
            else:
                break
        return x if is_call(x, r'Automaton::try_find_iter$') else None
    # R12.1 iterator source
    src = b.calls(r'Automaton::try_find_iter$')
    ok = False
    why = 'no call to try_find_iter'
    if len(src) == 1:
        ct = b.call_term(src[0][0], src[0][1])
        a = [ex(x) for x in ct[2]]
        ok = len(a) == 2 and a[0] == SELF and is_call(a[1], r'util::search::Input::new$') and ex(a[1][2][0]) == hay
        why = 'iterates %s' % tstr(ct, 200)
    cx.report('R12.1', b, 'source', ok, 'iterates self.try_find_iter(Input::new(haystack)) with the caller haystack, no span/anchoring/earliest change' if ok else why + ' (expected try_find_iter(self, Input::new(haystack)))')
    nexts = b.calls(r'core::iter::(traits::iterator::)?Iterator::next$')
    okn = False
    if len(nexts) == 1:
        nt = b.call_term(nexts[0][0], nexts[0][1])
        okn = unwrapped_iter(nt[2][0]) is not None
    cx.report('R12.1', b, 'next', okn, 'the loop variable is the payload of next() on that iterator' if okn else 'the loop does not draw its matches from next() of the try_find_iter result')
    if len(nexts) != 1:
        return
    header = nexts[0][0]
    ng = discr_gates(b, lambda x: is_call(x, r'Iterator::next$'))
    some = [e for g in ng for e in arm_edges(b, g, 1)]
    okm = len(some) == 1
    cx.report(R, b, 'm-def', okm, 'the loop body runs on the Some-payload of iterator.next()' if okm else 'no unique Some-arm of iterator.next()')
    if not okm:
        return
    mblk = some[0][1]
    back = [(s, header) for s in b.pred(header) if b.dominates(header, s)]

    def is_m(t):
        t = ex(t)
        return t[0] == 'f' and t[2] == '0' and t[1][0] == 'dc' and t[1][2] == 'Some' and is_call(ex(t[1][1]), r'Iterator::next$')

    def is_start(t):
        t = ex(t)
        return is_call(t, r'util::search::Match::start$') and is_m(t[2][0])

    def is_end(t):
        t = ex(t)
        return is_call(t, r'util::search::Match::end$') and is_m(t[2][0])

    def is_m_range(r):
        """m.start()..m.end() in any spelling"""
        r = ex(r)
        if is_agg(r, r'core::ops::Range$') and isinstance(r[3], dict):
            return is_start(r[3].get('start')) and is_end(r[3].get('end'))
        if is_call(r, r'util::search::Match::range$'):
            return is_m(r[2][0])
        if is_call(r, r'util::search::Span::range$'):
            s = ex(r[2][0])
            return is_call(s, r'util::search::Match::span$') and is_m(s[2][0])
        return False
    # events
    e1 = e3 = e5 = None
    LM = None
    appends = []
    for blk, t in b.calls():
        ct = b.call_term(blk, t)
        if re.search(APPEND, short(ct[1])) and ex(ct[2][0]) == dst:
            ix = index_of(expand_vars(b, ct[2][1]))
            appends.append((blk, ix, ct))
            if ix and ex(ix[0]) == hay and is_agg(ix[1], r'core::ops::Range$') and isinstance(ix[1][3], dict) and is_var(ix[1][3].get('start')) and is_start(ix[1][3].get('end')):
                e1 = blk
                LM = ix[1][3].get('start')
    if LM is None:
        cx.bad(R, b, 'E1-prefix', 'no append of haystack[<copied-so-far>..m.start()] to dst found')
        return
    lm = [LM[2]]
    for blk, ix, ct in appends:
        if ix and ex(ix[0]) == hay and is_agg(ix[1], r'core::ops::RangeFrom$') and isinstance(ix[1][3], dict) and ix[1][3].get('start') == LM:
            e5 = blk
    for blk, t in b.calls():
        ct = b.call_term(blk, t)
        if is_call(ct, r'core::ops::FnMut::call_mut$') and ex(ct[2][0]) == RW:
            tup = ct[2][1]
            if is_agg(tup, 'tuple') and len(tup[3]) == 3:
                a0, a1, a2 = tup[3]
                ix = index_of(expand_vars(b, a1))
                good = is_m(a0) and ex(a2) == dst and ix and ex(ix[0]) == hay and is_m_range(ix[1])
                if good:
                    e3 = blk
                else:
                    cx.bad(R, b, 'closure-args', 'closure is called with %s, expected (&m, &haystack[m.start()..m.end()], dst)' % tstr(tup, 300), line_of(b, blk))
    # other appends to dst are foreign
    for blk, ix, ct in appends:
        if blk not in (e1, e5):
            cx.bad(R, b, 'foreign-append', 'unexpected append to dst: %s' % tstr(ct, 200), line_of(b, blk))
    cx.report(R, b, 'E1-prefix', e1 is not None, 'appends haystack[last_match..m.start()] to dst' if e1 is not None else 'no append of haystack[last_match..m.start()] to dst found')
    cx.report(R, b, 'E3-closure', e3 is not None, 'calls replace_with(&m, &haystack[m.start()..m.end()], dst)' if e3 is not None else 'closure call with the matched bytes not found')
    cx.report(R, b, 'E5-tail', e5 is not None, 'appends haystack[last_match..] to dst' if e5 is not None else 'no append of haystack[last_match..] found')
    # last_match definitions
    defs = b.defs().get(lm[0], [])
    e2 = None
    okd = True
    seen0 = False
    for bi, si, kind, obj in defs:
        tt = b.call_term(bi, obj) if kind == 'call' else b.rvalue_term(obj['r'], 0, bi)
        if is_const(tt, 0) and bi not in b.loops().get(header, set()):
            seen0 = True
        elif is_end(tt):
            e2 = bi
        else:
            okd = False
            cx.bad(R, b, 'last_match-def', 'last_match is assigned %s (allowed: 0 before the loop, m.end())' % tstr(tt, 120), line_of(b, bi, si))
    okd = okd and seen0 and e2 is not None and not b.defs().get(('proj', lm[0]))
    cx.report(R, b, 'E2-update', okd, 'last_match has exactly the definitions 0 (before the loop) and m.end()' if okd else 'last_match definitions are not {0, m.end()}')
    if None in (e1, e2, e3, e5):
        return
    # order and all-or-none within an iteration (back edges removed)
    o12 = e2 in b.reach(e1, cut_edges=back) and e1 not in b.reach_after(e2, cut_edges=back)
    cx.report(R, b, 'order:E1<E2', o12, 'the prefix is appended before last_match is advanced' if o12 else 'last_match is advanced before haystack[last_match..m.start()] is appended (or the append can be skipped)')
    exits = [e5]
    for (a, nxt, what) in ((e1, e2, 'update of last_match'), (e2, e3, 'closure call')):
        r = b.reach_after(a, cut_blocks=[nxt], cut_edges=())
        ok = header not in (r - {nxt}) and e5 not in (r - {nxt})
        # r contains nxt if reached; must not reach header/e5 without passing nxt
        r2 = b.reach(a, cut_blocks=[nxt]) - {a}
        ok = not ({header, e5} & (r2 - {nxt}))
        cx.report(R, b, 'pairing:%s' % what.split()[0], ok, 'once the %s is reached, the %s follows before the next iteration or the exit' % ('prefix append' if a == e1 else 'update', what) if ok else 'a path skips the %s' % what)
    # closure result: false leaves the loop, true continues
    cg = bool_gates(b, lambda x: is_call(x, r'FnMut::call_mut$') and ex(x[2][0]) == RW)
    okc = False
    if len(cg) == 1:
        blk, cond, te, fe = cg[0]
        t_ok = all(header in b.reach(tg, cut_blocks=[e5]) for _, tg in te)
        f_ok = all(header not in b.reach(tg, cut_blocks=[e5]) and e5 in b.reach(tg) for _, tg in fe)
        okc = t_ok and f_ok
    cx.report(R, b, 'closure-result', okc, 'closure result false leaves the loop (to the tail append), true continues' if okc else 'the closure result does not decide loop exit as specified')
    # tail append on every path to Ok
    oks = [bi for bi, si, pl, st in b.stores() if si != 'term' and pl['l'] == 0 and not pl['pr'] and is_agg(b.rvalue_term(st['r'], 0, bi), r'Result$', 'Ok')]
    okt = bool(oks) and must_pass(b, oks, [e5])
    cx.report(R, b, 'tail-before-Ok', okt, 'every path to Ok(()) appends haystack[last_match..] first' if okt else 'Ok(()) is reachable without the tail append')
    # skipping
    bt = bool_gates(b, lambda x: is_call(x, r'core::str::(<impl str>::)?is_char_boundary$') and ex(x[2][0]) == hay and (is_start(x[2][1]) or is_end(x[2][1])))
    if is_str:
        gs = [g for g in bt if is_start(g[1][2][1])]
        ge = [g for g in bt if is_end(g[1][2][1])]
        for tag, gg in (('start', gs), ('end', ge)):
            cut = [e for g in gg for e in g[2]]
            ok = bool(gg) and not reachable_without(b, [e1, e2, e3], cut, src=mblk)
            cx.report('R12.3', b, 'boundary:' + tag, ok, 'no splice event is reachable without is_char_boundary(m.%s()) being true' % tag if ok else 'a splice event is reachable although m.%s() was not checked to be a char boundary' % tag)
        fcut = [e for g in bt for e in g[3]]
        r = b.reach(mblk, cut_edges=fcut, cut_blocks=[e1])
        ok = not ({header, e5} & (r - {e1}))
        cx.report('R12.3', b, 'skip-only-on-failed-test', ok, 'an iteration skips the splice only through a failed boundary test' if ok else 'an iteration can skip the splice although both boundary tests passed')
    else:
        r = b.reach(mblk, cut_blocks=[e1])
        ok = not ({header, e5} & (r - {e1}))
        cx.report(R, b, 'no-skip', ok, 'every match is spliced (no path from m to the next iteration avoids the prefix append)' if ok else 'a path skips the splice for some match')
        cx.report(R, b, 'no-boundary-filter', not bt, 'bytes variant has no char-boundary filter' if not bt else 'unexpected boundary filter in the bytes variant')


def r12_loops(cx):
    splice_loop(cx, cx.body('automaton::Automaton::try_replace_all_with'), True)
    splice_loop(cx, cx.body('automaton::Automaton::try_replace_all_with_bytes'), False)


def r12_4(cx):
    for name, inner in (('try_replace_all', 'try_replace_all_with'), ('try_replace_all_bytes', 'try_replace_all_with_bytes')):
        b = cx.body('automaton::Automaton::' + name)
        calls = b.calls(r'Automaton::%s$' % inner)
        if len(calls) != 1:
            cx.bad('R12.4', b, 'delegate', 'expected exactly one call to %s' % inner)
            continue
        blk, t = calls[0]
        ct = b.call_term(blk, t)
        # length assertion dominates the delegate: cut the edge taken when lengths are equal
        def lens(x):
            if not (isinstance(x, tuple) and x[0] == 'op' and x[1] in ('Eq', 'Ne')):
                return False
            sides = [b.local_term(s[2], expand=True) if is_var(s) else s for s in (x[2], x[3])]
            a = [s for s in sides if is_call(s, r'core::slice::(<impl \[T\]>::)?len$') and is_var(peel(s[2][0]), 'replace_with')]
            c = [s for s in sides if is_call(s, r'Automaton::patterns_len$') and is_var(peel(s[2][0]), 'self')]
            return len(a) == 1 and len(c) == 1
        gs = bool_gates(b, lens)
        cut = []
        for g in gs:
            cut += g[2] if g[1][1] == 'Eq' else g[3]
        ok = bool(gs) and not reachable_without(b, [blk], cut)
        # and the failing edge panics
        for g in gs:
            fail = g[3] if g[1][1] == 'Eq' else g[2]
            for _, tg in fail:
                rr = b.reach(tg)
                if any(b.blocks[x]['term']['k'] == 'return' for x in rr):
                    ok = False
        cx.report('R12.4', b, 'len-assert', ok, 'assert_eq!(replace_with.len(), self.patterns_len()) dominates the splice and its failure diverges' if ok else 'the splice is reachable without the replacement-table length check (or the check does not panic)', line_of(b, blk))
        a = ct[2]
        dstv = peel(a[2]) if len(a) == 4 else None
        okargs = len(a) == 4 and peel_all(a[0]) == param_at(b, 1) and peel_all(a[1]) == param_at(b, 2) and is_var(dstv) and dstv[2] > b.j['arg_count'] and is_agg(a[3], 'closure')
        cx.report('R12.4', b, 'args', okargs, 'delegates with (self, haystack, &mut dst, closure)' if okargs else 'delegate arguments are %s' % tstr(ct, 200))
        # returned buffer is dst
        oks = [b.rvalue_term(st['r'], 0, bi) for bi, si, pl, st in b.stores() if si != 'term' and pl['l'] == 0 and not pl['pr']]
        okret = [x for x in oks if is_agg(x, r'Result$', 'Ok')]
        okr = len(okret) == 1 and dstv is not None and okret[0][3].get('0') == dstv
        cx.report('R12.4', b, 'returns-dst', okr, 'returns Ok(dst), the buffer that was filled' if okr else 'returned value is not the filled buffer')
        # dst starts empty (with_capacity / new)
        dl = [dstv[2]] if (dstv is not None and is_var(dstv)) else []
        okn = False
        if dl:
            ds = b.defs().get(dl[0], [])
            okn = len(ds) == 1 and ds[0][2] == 'call' and re.search(r'::(with_capacity|new)$', short(ds[0][3]['callee']['path'])) is not None
        cx.report('R12.4', b, 'dst-empty', okn, 'dst starts as an empty buffer' if okn else 'dst is not initialised by with_capacity/new')
        # closure
        c = cx.body('automaton::Automaton::%s::{closure#0}' % name)
        app = []
        for cb, ctm in c.calls():
            tt = c.call_term(cb, ctm)
            if re.search(APPEND, short(tt[1])):
                app.append(tt)
        okc = False
        why = 'closure appends %s' % [tstr(x, 200) for x in app]
        if len(app) == 1:
            tt = app[0]
            d = peel(tt[2][0])
            val = peel_all(expand_vars(c, tt[2][1]))
            while val[0] == 'conv':
                val = peel_all(val[2])
            ix = index_of(val)
            # dst is the third closure parameter (local 4), mat the first (local 2)
            okc = (is_var(d) and d[2] == 4 and ix is not None and ix[0][0] == 'f' and ix[0][2] == 'replace_with'
                   and is_call(ix[1], r'util::search::Match::pattern$') and is_var(peel(ix[1][2][0])) and peel(ix[1][2][0])[2] == 2)
        cx.report('R12.4', c, 'closure-append', okc, 'closure appends replace_with[mat.pattern()] to the destination it is handed' if okc else why)
        rets = [c.rvalue_term(st['r'], 0, bi) for bi, si, pl, st in c.stores() if si != 'term' and pl['l'] == 0 and not pl['pr']]
        okt = bool(rets) and all(x == ('c', 1) for x in rets)
        # every path through the closure appends exactly once (a conditional append deletes the matched text)
        from acverif.sym import summarize as _sm
        crow = [r for r in _sm(cx.facts, c) if r.end == 'return']
        okall = bool(crow) and all(len([x for x in r.calls(APPEND)]) == 1 for r in crow)
        cx.report('R12.4', c, 'closure-unconditional', okall, 'the replacement is appended on every path through the closure' if okall else 'the closure appends the replacement only on some paths (a skipped append deletes the matched text)')
        cx.report('R12.4', c, 'closure-true', okt, 'closure always returns true' if okt else 'closure may return %s' % [tstr(x) for x in rets])


def r12_5(cx):
    n = 0
    for name in ('try_replace_all', 'try_replace_all_bytes', 'try_replace_all_with', 'try_replace_all_with_bytes'):
        b = cx.body('ahocorasick::AhoCorasick::' + name)
        calls = b.calls(r'^automaton::Automaton::%s$' % name)
        ok = False
        why = 'no delegate call'
        if len(calls) == 1:
            ct = b.call_term(calls[0][0], calls[0][1])
            params = [('v', b.locals[i]['names'][0], i) for i in range(2, b.j['arg_count'] + 1)]
            got = [peel(a) for a in ct[2][1:]]
            recv = peel(ct[2][0])
            ok = got == params and recv[0] == 'f' and recv[2] == 'aut' and is_var(recv[1], 'self')
            why = 'delegates as %s' % tstr(ct, 200)
        n += 1
        cx.report('R12.5', b, 'passthrough', ok, 'forwards (haystack, …) unchanged to self.aut.%s' % name if ok else why)
    cx.floor('R12.5', 'AhoCorasick replace wrappers', n, 4)


from rules.prefilter import r05_3
from rules.C13 import r13_2
RULES = [('R12.2', r12_loops), ('R12.4', r12_4), ('R12.5', r12_5), ('R05.3', r05_3), ('R13.2', r13_2)]

CLAIM = """Static decision of the splice mechanism for every path of the four replace routines: the iterator source, the three per-match
events with their exact slice bounds and order, the two definitions of last_match, the closure-result exit, the tail append before
Ok on both exits, the char-boundary graph cut of the &str variant, the table variants' length assertion, table indexing by
mat.pattern() and pass-through of the AhoCorasick wrappers. None of this code is executed by the pinned test suite with more than
trivial inputs; the rules hold for all haystacks, closures and match sequences at once."""
NOTE = """Trusted: rustc MIR construction; the fact extractor; std slicing/append semantics. The match sequence itself is C01/C02. Anchors are
def-paths; locals are resolved by role (parameter position, type, data flow), parameters and fields by the reference names restored at
load time (rename maps of E6)."""
TECHNIQUE = "static analysis: role-based term reconstruction of slice bounds and call arguments from rustc MIR (no local names), graph-cut and ordering queries on the CFG with path-sensitive boolean flow"

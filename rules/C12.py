"""C12 — replace_all is find_iter plus splicing (DESIGN.md §5 C12)."""
import re

from acverif.mir import short, tstr, subterms
from acverif.rl import (is_call, peel, peel_all, is_var, is_agg, is_const, bool_gates, try_gates, discr_gates, arm_edges, param_at, expand_vars,
                        reachable_without, must_pass, line_of, operand_ty)

LEVEL = 'other'
EXPLANATION = """
Decides on the MIR of both splice loops (Automaton::try_replace_all_with and ..._with_bytes) and of the two table variants, for
every path and hence for every haystack, pattern list and closure behaviour: R12.1 the loop iterates
self.try_find_iter(Input::new(haystack))? with the caller's haystack and no other input configuration; R12.2 is one statement on the
loop's iteration summaries (every way through one iteration, with the values each append / closure call receives): matches
exhausted => append haystack[last_match..], Ok; otherwise append haystack[last_match .. m.start()] with last_match as it was when the
iteration began, call the closure with (&m, haystack[m.start()..m.end()], dst), last_match = m.end(); closure result true continues,
false appends haystack[m.end()..] and returns Ok; before the loop dst is untouched, last_match = 0 and only an error of
try_find_iter returns; nothing else touches dst; R12.3 (&str variant) a match is spliced only on paths where
is_char_boundary(m.start()) and is_char_boundary(m.end()) were both true, and a failed test skips the match with no event and an
unchanged cursor (the bytes variant has neither test nor skip);
R12.4 the table variants assert replace_with.len() == patterns_len() before anything else, their closure appends
replace_with[mat.pattern()] to the destination it is given and returns true, and the returned buffer is the one that was filled;
R12.5 AhoCorasick::try_replace_all* pass their arguments through unchanged.
"""
NOT_DECIDED = """The match sequence itself (that find_iter yields the non-overlapping matches of C01/C02) and the behaviour of the
user-supplied closure. UTF-8 validity of the output follows from R12.3 only together with the standard library's slicing contract."""

APPEND = r'(alloc::string::String::push_str|alloc::vec::Vec::<.*>::extend_from_slice|core::iter::Extend::extend|alloc::vec::Vec::extend_from_slice|Extend::extend)$'


def index_of(t):
    """haystack[range] in any spelling -> (base, range_term) or None"""
    t = peel(t)
    if is_call(t, r'core::ops::Index::index$') and len(t[2]) == 2:
        return peel(t[2][0]), t[2][1]
    return None


def splice_loop(cx, b, is_str):
    R = 'R12.2'
    SELF, hay, dst, RW = (param_at(b, i) for i in (1, 2, 3, 4))
    if hay is None or dst is None or RW is None:
        cx.bad(R, b, 'params', 'haystack / dst / replace_with parameters not found')
        return

    def ex(x):
        return peel_all(expand_vars(b, x))

    def unwrapped_iter(x):
        """x = try_find_iter(..)? in any spelling (?, match Ok/Err, through into_iter)"""
        x = ex(x)
        for _ in range(6):
            if is_call(x, r'IntoIterator::into_iter$'):
                x = ex(x[2][0])
            elif x[0] == 'try':
                x = ex(x[1])
            elif x[0] == 'f' and x[1][0] == 'dc' and x[1][2] in ('Ok', 'Continue'):
                x = ex(x[1][1])
            elif is_call(x, r'Try::branch$'):
                x = ex(x[2][0])
            else:
                break
        return x if is_call(x, r'Automaton::try_find_iter$') else None
    # R12.1 iterator source
    src = b.calls(r'Automaton::try_find_iter$')
    ok = False
    why = 'no call to try_find_iter'
    if len(src) == 1:
        ct = b.call_term(src[0][0], src[0][1])
        a = [ex(x) for x in ct[2]]
        ok = len(a) == 2 and a[0] == SELF and is_call(a[1], r'util::search::Input::new$') and ex(a[1][2][0]) == hay
        why = 'iterates %s' % tstr(ct, 200)
    cx.report('R12.1', b, 'source', ok, 'iterates self.try_find_iter(Input::new(haystack)) with the caller haystack, no span/anchoring/earliest change' if ok else why + ' (expected try_find_iter(self, Input::new(haystack)))')
    nexts = b.calls(r'core::iter::(traits::iterator::)?Iterator::next$')
    okn = False
    if len(nexts) == 1:
        nt = b.call_term(nexts[0][0], nexts[0][1])
        okn = unwrapped_iter(nt[2][0]) is not None
    cx.report('R12.1', b, 'next', okn, 'the loop variable is the payload of next() on that iterator' if okn else 'the loop does not draw its matches from next() of the try_find_iter result')
    if len(nexts) != 1:
        return
    splice_rows(cx, b, is_str, nexts[0][0])


def splice_rows(cx, b, is_str, next_block):
    """R12.2 / R12.3 as a statement on the iteration summaries of the splice loop (one row = one way through one iteration, with
    the values every append / closure call receives), so the spelling of the loop (for / while let / `all` with a closure, named
    intermediates, m.start() vs m.span().start) does not matter."""
    from acverif.sym import Sym, loop_rows, innermost_loop, canon, cstr
    R = 'R12.2'
    HAY, DST, RW = (cstr(param_at(b, i)) for i in (2, 3, 4))
    h = innermost_loop(b, next_block)
    if h is None:
        cx.bad(R, b, 'loop', 'the splice loop around next() was not found')
        return
    rows = [r for r in loop_rows(cx.facts, b, h) if r.end != 'diverge']
    sym = Sym(cx.facts, b)
    mods, _ = sym.loop_mods(h)
    cursors = {l: cstr(sym.default_local(l)) for l in mods if b.locals[l]['ty'] == 'usize'}

    def nxt(c):
        c = canon(c)
        return c[0] == 'discr' and is_call(c[1], r'Iterator::next$')
    nx = [canon(c)[1] for r in rows for c, v in r.conds if nxt(c)]
    if not nx or len({cstr(x) for x in nx}) != 1:
        cx.bad(R, b, 'm-def', 'no unique next() decision in the loop')
        return
    M = cstr(('f', ('dc', nx[0], 'Some'), '0'))
    MS, ME = M + '.span.start', M + '.span.end'

    def rng(t):
        """haystack[a..b] / haystack[a..] -> (a, b|None)"""
        t = canon(t)
        while isinstance(t, tuple) and t[0] in ('ref', 'deref') and isinstance(t[-1], tuple):
            t = t[-1]
        if is_call(t, r'core::ops::Index::index$') and len(t[2]) == 2 and cstr(t[2][0]) == HAY:
            r0 = t[2][1]
            if is_agg(r0, r'core::ops::Range$') and isinstance(r0[3], dict):
                return cstr(r0[3].get('start')), cstr(r0[3].get('end'))
            if is_agg(r0, r'core::ops::RangeFrom$') and isinstance(r0[3], dict):
                return cstr(r0[3].get('start')), None
            # m.range() / m.span().range(): the range of the match itself
            if is_call(r0, r'util::search::Match::range$') and len(r0[2]) == 1:
                return cstr(r0[2][0]) + '.span.start', cstr(r0[2][0]) + '.span.end'
            if is_call(r0, r'util::search::Span::range$') and len(r0[2]) == 1:
                sp = r0[2][0]
                if is_call(sp, r'util::search::Match::span$') and len(sp[2]) == 1:
                    return cstr(sp[2][0]) + '.span.start', cstr(sp[2][0]) + '.span.end'
                return cstr(sp) + '.start', cstr(sp) + '.end'
        return 'other'

    def events(r):
        ev = []
        for e in r.effects:
            if e[0] == 'call':
                c = canon(e[1])
                sp = short(c[1])
                args = [cstr(a) for a in c[2]]
                if re.search(APPEND, sp) and args and args[0] == DST:
                    ev.append(('append', rng(c[2][1])))
                elif is_call(c, r'FnMut::call_mut$') and args and args[0] == RW:
                    ev.append(('rw', c[2][1]))
                elif DST in args:
                    ev.append(('foreign', tstr(c, 120)))
            elif e[0] == 'store' and cstr(canon(e[1])).startswith(DST):
                ev.append(('foreign', 'store to %s' % tstr(canon(e[1]), 60)))
        return ev
    # the cursor: the loop-carried usize the appends start at
    starts = {ev[1][0] for r in rows for ev in events(r) if ev[0] == 'append' and isinstance(ev[1], tuple)}
    lms = [l for l, d in cursors.items() if d in starts]
    if len(lms) != 1:
        cx.bad(R, b, 'E1-prefix', 'no append of haystack[<copied-so-far>..m.start()] to dst found (loop-carried cursors: %s)' % sorted(cursors.values()))
        return
    LM = lms[0]
    D = cursors[LM]
    why = {k: None for k in ('E1-prefix', 'E2-update', 'E3-closure', 'E5-tail', 'closure-result', 'foreign-append', 'skip', 'boundary')}
    n_splice = n_tail = n_skip = 0

    def bcond(r, which):
        return r.cond(lambda c: is_call(canon(c), r'is_char_boundary$') and cstr(canon(c)[2][0]) == HAY and cstr(canon(c)[2][1]) == which)

    def rwres(r):
        return r.cond(lambda c: is_call(canon(c), r'FnMut::call_mut$') and cstr(canon(c)[2][0]) == RW)
    for r in rows:
        ev = events(r)
        for k, x in ev:
            if k == 'foreign':
                why['foreign-append'] = why['foreign-append'] or 'dst is also touched by %s' % x
        ev = [e for e in ev if e[0] != 'foreign']
        some = r.cond(nxt)
        if isinstance(some, tuple) and some[0] == 'not':
            # `while let Some(m) = it.next()`: one arm is the default of the switch
            some = 0 if 1 in some[1] else (1 if 0 in some[1] else None)
        moved = LM in r.env and cstr(canon(r.env[LM])) != D
        if some == 0:
            n_tail += 1
            if ev != [('append', (D, None))] or r.end != 'return' or not is_agg(r.ret, r'Result$', 'Ok'):
                why['E5-tail'] = why['E5-tail'] or 'when the matches are exhausted the events are %s (expected: append haystack[last_match..], then Ok)' % [e[:2] if e[0] == 'append' else e[0] for e in ev]
            continue
        if some != 1:
            why['E1-prefix'] = why['E1-prefix'] or 'an iteration does not depend on next()'
            continue
        bs, be = bcond(r, MS), bcond(r, ME)
        if not is_str and (bs is not None or be is not None):
            why['boundary'] = why['boundary'] or 'unexpected boundary filter in the bytes variant'
        if bs is False or be is False:
            # a skipped match: nothing happens
            n_skip += 1
            if ev or moved or r.end != ('stop', h):
                why['skip'] = why['skip'] or 'a match that fails a boundary test is not skipped cleanly (events %s, cursor moved: %s)' % ([e[0] for e in ev], moved)
            continue
        if is_str and not (bs is True and be is True):
            why['boundary'] = why['boundary'] or 'a match is spliced although is_char_boundary was not checked for m.start() and m.end()'
        n_splice += 1
        if not ev or ev[0] != ('append', (D, MS)):
            why['E1-prefix'] = why['E1-prefix'] or 'an iteration starts with %s (expected: append haystack[last_match..m.start()])' % (ev[0][:2] if ev else 'nothing')
            continue
        if len(ev) < 2 or ev[1][0] != 'rw':
            why['E3-closure'] = why['E3-closure'] or 'the prefix append is not followed by the closure call'
            continue
        tup = ev[1][1]
        good = is_agg(tup, 'tuple') and len(tup[3]) == 3 and cstr(tup[3][0]) == M and rng(tup[3][1]) == (MS, ME) and cstr(tup[3][2]) == DST
        if not good:
            why['E3-closure'] = why['E3-closure'] or 'closure is called with %s, expected (&m, &haystack[m.start()..m.end()], dst)' % tstr(tup, 200)
        if not (LM in r.env and cstr(canon(r.env[LM])) == ME):
            why['E2-update'] = why['E2-update'] or 'after a splice last_match is %s (expected m.end())' % (tstr(canon(r.env[LM]), 60) if LM in r.env else 'unchanged')
        res = rwres(r)
        rest = ev[2:]
        if res is True:
            if rest or r.end != ('stop', h):
                why['closure-result'] = why['closure-result'] or 'after the closure returned true the iteration does not simply continue'
        elif res is False:
            if rest != [('append', (ME, None))] or r.end != 'return' or not is_agg(r.ret, r'Result$', 'Ok'):
                why['closure-result'] = why['closure-result'] or 'after the closure returned false the events are %s (expected: append haystack[m.end()..], then Ok)' % [e[:2] if e[0] == 'append' else e[0] for e in rest]
        else:
            why['closure-result'] = why['closure-result'] or 'the closure result does not decide whether the loop goes on'
    if not n_splice:
        why['E1-prefix'] = why['E1-prefix'] or 'no iteration splices a match'
    if not n_tail:
        why['E5-tail'] = why['E5-tail'] or 'no exit through exhausted matches'
    # before the loop: the cursor starts at 0, dst is not touched, and nothing but an error of try_find_iter returns early
    okz = False
    try:
        allpre = [r for r in Sym(cx.facts, b, start=0, stop={h}).rows() if r.end != 'diverge']
        pre = [r for r in allpre if r.end == ('stop', h)]
        okz = bool(pre) and all(LM in r.env and canon(r.env[LM]) == ('c', 0) for r in pre)
        for r in allpre:
            ev = events(r)
            if ev:
                why['foreign-append'] = why['foreign-append'] or 'dst is touched before the loop (%s)' % [e[0] for e in ev]
            if r.end == 'return' and not (is_agg(r.ret, r'Result$', 'Err') or is_call(r.ret, r'from_residual$')):
                why['foreign-append'] = why['foreign-append'] or 'the function can return %s before the loop' % tstr(canon(r.ret), 60)
    except Exception:
        okz = False
    if not okz:
        why['E2-update'] = why['E2-update'] or 'last_match does not start at 0'
    cx.report(R, b, 'E1-prefix', why['E1-prefix'] is None, 'every spliced match first appends haystack[last_match..m.start()] (last_match as it was when the iteration began)' if why['E1-prefix'] is None else why['E1-prefix'])
    cx.report(R, b, 'E3-closure', why['E3-closure'] is None, 'then calls replace_with(&m, &haystack[m.start()..m.end()], dst)' if why['E3-closure'] is None else why['E3-closure'])
    cx.report(R, b, 'E2-update', why['E2-update'] is None, 'last_match starts at 0 and is m.end() after every splice, unchanged otherwise' if why['E2-update'] is None else why['E2-update'])
    cx.report(R, b, 'E5-tail', why['E5-tail'] is None, 'when the matches are exhausted haystack[last_match..] is appended, then Ok' if why['E5-tail'] is None else why['E5-tail'])
    cx.report(R, b, 'closure-result', why['closure-result'] is None, 'closure result true continues; false appends haystack[m.end()..] and returns Ok' if why['closure-result'] is None else why['closure-result'])
    cx.report(R, b, 'foreign-append', why['foreign-append'] is None, 'dst is touched by nothing else' if why['foreign-append'] is None else why['foreign-append'])
    if is_str:
        cx.report('R12.3', b, 'boundary', why['boundary'] is None, 'a match is spliced only after is_char_boundary(m.start()) and is_char_boundary(m.end()) were both true' if why['boundary'] is None else why['boundary'])
        oks = why['skip'] is None and n_skip >= 1
        cx.report('R12.3', b, 'skip-only-on-failed-test', oks, 'an iteration skips the splice only through a failed boundary test, and then does nothing' if oks else (why['skip'] or 'no skip path for a failed boundary test'))
    else:
        cx.report(R, b, 'no-boundary-filter', why['boundary'] is None and n_skip == 0, 'bytes variant: every match is spliced (no boundary filter, no skip)' if why['boundary'] is None and n_skip == 0 else (why['boundary'] or 'a match can be skipped'))


def r12_loops(cx):
    splice_loop(cx, cx.body('automaton::Automaton::try_replace_all_with'), True)
    splice_loop(cx, cx.body('automaton::Automaton::try_replace_all_with_bytes'), False)


def r12_4(cx):
    for name, inner in (('try_replace_all', 'try_replace_all_with'), ('try_replace_all_bytes', 'try_replace_all_with_bytes')):
        b = cx.body('automaton::Automaton::' + name)
        calls = b.calls(r'Automaton::%s$' % inner)
        if len(calls) != 1:
            cx.bad('R12.4', b, 'delegate', 'expected exactly one call to %s' % inner)
            continue
        blk, t = calls[0]
        ct = b.call_term(blk, t)
        # length assertion dominates the delegate: cut the edge taken when lengths are equal
        def lens(x):
            if not (isinstance(x, tuple) and x[0] == 'op' and x[1] in ('Eq', 'Ne')):
                return False
            sides = [b.local_term(s[2], expand=True) if is_var(s) else s for s in (x[2], x[3])]
            a = [s for s in sides if is_call(s, r'core::slice::(<impl \[T\]>::)?len$') and is_var(peel(s[2][0]), 'replace_with')]
            c = [s for s in sides if is_call(s, r'Automaton::patterns_len$') and is_var(peel(s[2][0]), 'self')]
            return len(a) == 1 and len(c) == 1
        gs = bool_gates(b, lens)
        cut = []
        for g in gs:
            cut += g[2] if g[1][1] == 'Eq' else g[3]
        ok = bool(gs) and not reachable_without(b, [blk], cut)
        # and the failing edge panics
        for g in gs:
            fail = g[3] if g[1][1] == 'Eq' else g[2]
            for _, tg in fail:
                rr = b.reach(tg)
                if any(b.blocks[x]['term']['k'] == 'return' for x in rr):
                    ok = False
        cx.report('R12.4', b, 'len-assert', ok, 'assert_eq!(replace_with.len(), self.patterns_len()) dominates the splice and its failure diverges' if ok else 'the splice is reachable without the replacement-table length check (or the check does not panic)', line_of(b, blk))
        a = ct[2]
        dstv = peel(a[2]) if len(a) == 4 else None
        okargs = len(a) == 4 and peel_all(a[0]) == param_at(b, 1) and peel_all(a[1]) == param_at(b, 2) and is_var(dstv) and dstv[2] > b.j['arg_count'] and is_agg(a[3], 'closure')
        cx.report('R12.4', b, 'args', okargs, 'delegates with (self, haystack, &mut dst, closure)' if okargs else 'delegate arguments are %s' % tstr(ct, 200))
        # returned buffer is dst
        oks = [b.rvalue_term(st['r'], 0, bi) for bi, si, pl, st in b.stores() if si != 'term' and pl['l'] == 0 and not pl['pr']]
        okret = [x for x in oks if is_agg(x, r'Result$', 'Ok')]
        okr = len(okret) == 1 and dstv is not None and okret[0][3].get('0') == dstv
        cx.report('R12.4', b, 'returns-dst', okr, 'returns Ok(dst), the buffer that was filled' if okr else 'returned value is not the filled buffer')
        # dst starts empty (with_capacity / new)
        dl = [dstv[2]] if (dstv is not None and is_var(dstv)) else []
        okn = False
        if dl:
            ds = b.defs().get(dl[0], [])
            okn = len(ds) == 1 and ds[0][2] == 'call' and re.search(r'::(with_capacity|new)$', short(ds[0][3]['callee']['path'])) is not None
        cx.report('R12.4', b, 'dst-empty', okn, 'dst starts as an empty buffer' if okn else 'dst is not initialised by with_capacity/new')
        # closure
        c = cx.body('automaton::Automaton::%s::{closure#0}' % name)
        app = []
        for cb, ctm in c.calls():
            tt = c.call_term(cb, ctm)
            if re.search(APPEND, short(tt[1])):
                app.append(tt)
        okc = False
        why = 'closure appends %s' % [tstr(x, 200) for x in app]
        if len(app) == 1:
            tt = app[0]
            d = peel(tt[2][0])
            val = peel_all(expand_vars(c, tt[2][1]))
            while val[0] == 'conv':
                val = peel_all(val[2])
            ix = index_of(val)
            # dst is the third closure parameter (local 4), mat the first (local 2)
            okc = (is_var(d) and d[2] == 4 and ix is not None and ix[0][0] == 'f' and ix[0][2] == 'replace_with'
                   and is_call(ix[1], r'util::search::Match::pattern$') and is_var(peel(ix[1][2][0])) and peel(ix[1][2][0])[2] == 2)
        cx.report('R12.4', c, 'closure-append', okc, 'closure appends replace_with[mat.pattern()] to the destination it is handed' if okc else why)
        rets = [c.rvalue_term(st['r'], 0, bi) for bi, si, pl, st in c.stores() if si != 'term' and pl['l'] == 0 and not pl['pr']]
        okt = bool(rets) and all(x == ('c', 1) for x in rets)
        # every path through the closure appends exactly once (a conditional append deletes the matched text)
        from acverif.sym import summarize as _sm
        crow = [r for r in _sm(cx.facts, c) if r.end == 'return']
        okall = bool(crow) and all(len([x for x in r.calls(APPEND)]) == 1 for r in crow)
        cx.report('R12.4', c, 'closure-unconditional', okall, 'the replacement is appended on every path through the closure' if okall else 'the closure appends the replacement only on some paths (a skipped append deletes the matched text)')
        cx.report('R12.4', c, 'closure-true', okt, 'closure always returns true' if okt else 'closure may return %s' % [tstr(x) for x in rets])


def r12_5(cx):
    """the AhoCorasick wrappers are pure forwarders: on every path the one thing that happens to the caller's haystack, buffer and
    table / closure is the call of the Automaton routine with exactly these arguments"""
    from acverif.sym import summarize, canon, cstr
    n = 0
    for name in ('try_replace_all', 'try_replace_all_bytes', 'try_replace_all_with', 'try_replace_all_with_bytes'):
        b = cx.body('ahocorasick::AhoCorasick::' + name)
        P = [cstr(param_at(b, i)) for i in range(2, b.j['arg_count'] + 1)]
        rows = [r for r in summarize(cx.facts, b)]
        why = None if rows else 'no path'
        for r in rows:
            inner = []
            for e in r.effects:
                if e[0] == 'call':
                    c = canon(e[1])
                    args = [cstr(a) for a in c[2]]
                    if re.search(r'^automaton::Automaton::%s$' % name, short(c[1])):
                        inner.append(c)
                        if args[1:] != P or not re.search(r'(^|\W)self\.aut\b', args[0]):
                            why = why or 'delegates as %s' % tstr(c, 200)
                    elif any(a in P or any(a.startswith(x + '.') or ('(' + x + ')') in a or ('(' + x + ',') in a or (', ' + x + ')') in a for x in P) for a in args):
                        why = why or 'the wrapper itself uses an argument: %s' % tstr(c, 160)
                elif e[0] == 'store' and any(cstr(canon(e[1])).startswith(x) for x in P):
                    why = why or 'the wrapper itself writes through an argument'
            if r.end == 'return':
                if not inner and (is_agg(canon(r.ret), r'Result$', 'Err') or is_call(canon(r.ret), r'from_residual$')):
                    continue        # the start-kind check refused the search
                if len(inner) != 1:
                    why = why or 'a path returns after %d delegate calls' % len(inner)
                elif cstr(canon(r.ret)) != cstr(inner[0]):
                    why = why or 'the result of the delegate is not returned unchanged (%s)' % tstr(canon(r.ret), 100)
            elif r.end == 'diverge' and not inner:
                why = why or 'the wrapper can panic before delegating'
        n += 1
        cx.report('R12.5', b, 'passthrough', why is None, 'forwards (haystack, …) unchanged to self.aut.%s and does nothing else with them' % name if why is None else why)
    cx.floor('R12.5', 'AhoCorasick replace wrappers', n, 4)


from rules.prefilter import r05_3
from rules.C13 import r13_2
RULES = [('R12.2', r12_loops), ('R12.4', r12_4), ('R12.5', r12_5), ('R05.3', r05_3), ('R13.2', r13_2)]

CLAIM = """Static decision of the splice mechanism for every path of the four replace routines: the iterator source, the three per-match
events with their exact slice bounds and order, the two definitions of last_match, the closure-result exit, the tail append before
Ok on both exits, the char-boundary graph cut of the &str variant, the table variants' length assertion, table indexing by
mat.pattern() and pass-through of the AhoCorasick wrappers. None of this code is executed by the pinned test suite with more than
trivial inputs; the rules hold for all haystacks, closures and match sequences at once."""
NOTE = """Trusted: rustc MIR construction; the fact extractor; std slicing/append semantics. The match sequence itself is C01/C02. Anchors are
def-paths; locals are resolved by role (parameter position, type, data flow), parameters and fields by the reference names restored at
load time (rename maps of E6)."""
TECHNIQUE = "static analysis: loop-iteration summaries (path-sensitive value flow over rustc MIR, spelling-independent) of the two splice loops, term matching of slice bounds and closure arguments, graph cuts for the table variants"

"""Leaf utility functions the properties silently depend on (span / range bookkeeping, the byte set behind the byte classes,
integer narrowing helpers, the SIMD nybble shift, id iterators, the id remapper, the packed pattern table): each is small enough
that its path summary can be evaluated on a grid covering its whole decision structure. None of them is exercised by the pinned
suite beyond ASCII inputs, whole-haystack spans and a handful of states."""
import re

from acverif.core import only
from acverif.mir import short, tstr, subterms
from acverif.rl import is_call, is_agg, peel, peel_all, param_at, Unsupported, EvalPanic
from acverif.sym import summarize, canon, cstr, teval, by_cstr, row_consistent, loop_rows, Sym, live_in

X86 = ('default', 'std', 'logging', 'perf')


# ------------------------------------------------------------------------------------------------- R10.7 Input::set_range
def r10_7(cx):
    b = cx.body("util::search::Input::<'h>::set_range")
    rows = summarize(cx.facts, b)
    RNG = cstr(param_at(b, 2))
    SB, EB = 'core::ops::RangeBounds::start_bound(%s)' % RNG, 'core::ops::RangeBounds::end_bound(%s)' % RNG
    names = ['Included', 'Excluded', 'Unbounded']
    why = None
    n = 0
    for si, sn in enumerate(names):
        for ei, en in enumerate(names):
            def at(t, si=si, ei=ei, sn=sn, en=en):
                s0 = cstr(t)
                if s0 == 'discr(%s)' % SB:
                    return si
                if s0 == 'discr(%s)' % EB:
                    return ei
                if s0 == '(%s as %s).0' % (SB, sn):
                    return 5
                if s0 == '(%s as %s).0' % (EB, en):
                    return 9
                if re.match(r'core::slice::len\((self\.haystack|util::search::Input::haystack\(self\))\)$', s0):
                    return 20
                if s0 in ('self.span.end', 'util::search::Input::end(self)'):
                    return 13
                if s0 in ('self.span.start', 'util::search::Input::start(self)'):
                    return 2
                return None
            try:
                sel = [r for r in rows if r.end == 'return' and row_consistent(r, at)]
                n += 1
                if len(sel) != 1:
                    why = why or '%d paths for start bound %s / end bound %s' % (len(sel), sn, en)
                    continue
                cs = [canon(c) for c in sel[0].calls(r'util::search::Input::set_span$')]
                if len(cs) != 1 or not is_agg(cs[0][2][1], r'util::search::Span$') or cstr(cs[0][2][0]) != 'self':
                    why = why or 'set_range does not end in one set_span(Span { .. })'
                    continue
                sp = cs[0][2][1][3]
                got = (teval(sp['start'], at), teval(sp['end'], at))
                want = ({'Included': 5, 'Excluded': 6, 'Unbounded': 0}[sn], {'Included': 10, 'Excluded': 9, 'Unbounded': 20}[en])
                if got != want:
                    why = why or 'start bound %s(5) / end bound %s(9) on a 20-byte haystack gives the span %d..%d, expected %d..%d' % (sn, en, got[0], got[1], want[0], want[1])
            except (Unsupported, EvalPanic, KeyError, TypeError) as e:
                why = why or 'cannot evaluate (%s / %s): %s' % (sn, en, e)
    cx.report('R10.7', b, 'bounds', why is None, 'set_range: Included(i) -> i / i+1, Excluded(i) -> i+1 / i, Unbounded -> 0 / haystack.len(), then set_span (all %d bound combinations evaluated)' % n if why is None else why)
    # set_start / set_end keep the other end of the current span
    for nm, keep, other in (('set_start', 'end', 'start'), ('set_end', 'start', 'end')):
        f = cx.body("util::search::Input::<'h>::%s" % nm)
        frows = [r for r in summarize(cx.facts, f) if r.end == 'return']
        P = cstr(param_at(f, 2))
        ok = len(frows) == 1
        if ok:
            cs = [canon(c) for c in frows[0].calls(r'util::search::Input::set_span$')]
            ok = len(cs) == 1 and is_agg(cs[0][2][1], r'util::search::Span$') and cstr(cs[0][2][1][3][other]) == P and cstr(cs[0][2][1][3][keep]) in ('self.span.%s' % keep, 'util::search::Input::get_span(self).%s' % keep, 'util::search::Input::%s(self)' % keep)
        cx.report('R10.7', f, nm, ok, '%s(x) = set_span(Span { %s: x, %s: the current %s })' % (nm, other, keep, keep) if ok else '%s does not keep the current span %s' % (nm, keep))


# ------------------------------------------------------------------------------------------------- R04.7 ByteSet
def r04_7(cx):
    a = cx.body('util::alphabet::ByteSet::add')
    c = cx.body('util::alphabet::ByteSet::contains')
    arows = [r for r in summarize(cx.facts, a) if r.end == 'return']
    crows = [r for r in summarize(cx.facts, c) if r.end == 'return']
    why = None
    if len(arows) != 1 or len(crows) != 1 or len(arows[0].stores()) != 1:
        why = 'add / contains are not straight-line code with one store'
    else:
        AB, CB = cstr(param_at(a, 2)), cstr(param_at(c, 2))
        tgt, val = arows[0].stores()[0]
        tgt, val = canon(tgt), canon(val)
        ret = canon(crows[0].ret)

        def slot(t):
            """(bucket term, bit term) of an expression `bits[bucket] <op> (1 << bit)`"""
            idx = [x for x in subterms(t) if x[0] == 'idx']
            sh = [x for x in subterms(t) if x[0] == 'op' and x[1] == 'Shl' and x[2] == ('c', 1)]
            return (idx[0][2] if len(idx) >= 1 else None, sh[0][3] if len(sh) == 1 else None)
        ab = (tgt[2] if tgt[0] == 'idx' else None, slot(val)[1])
        cb = slot(ret)
        seen = {}
        try:
            if None in ab or None in cb:
                raise Unsupported('bucket / bit expression not found')
            if not (val[0] == 'op' and val[1] == 'BitOr'):
                why = 'add does not OR the bit into its bucket'
            if not (ret[0] == 'op' and ret[1] in ('Lt', 'Ne') and any(x == ('c', 0) for x in ret[2:4])):
                why = why or 'contains does not test the masked bucket against 0'
            for byte in range(256):
                wa = (teval(ab[0], by_cstr({AB: byte})), teval(ab[1], by_cstr({AB: byte})))
                wc = (teval(cb[0], by_cstr({CB: byte})), teval(cb[1], by_cstr({CB: byte})))
                if wa != wc:
                    why = why or 'byte %#04x is added at (bucket %d, bit %d) but looked up at (bucket %d, bit %d)' % (byte, wa[0], wa[1], wc[0], wc[1])
                if not (0 <= wa[0] < 2 and 0 <= wa[1] < 128):
                    why = why or 'byte %#04x maps outside the two 128-bit buckets' % byte
                if wa in seen:
                    why = why or 'bytes %#04x and %#04x share one bit' % (seen[wa], byte)
                seen[wa] = byte
        except (Unsupported, EvalPanic, KeyError, TypeError) as e:
            why = why or 'cannot evaluate: %s' % e
    cx.report('R04.7', a, 'byteset', why is None, 'ByteSet: add(b) sets and contains(b) tests the same (bucket, bit) = (b / 128, b % 128) for all 256 byte values, distinct bytes use distinct bits' if why is None else 'ByteSet: ' + why)


# ------------------------------------------------------------------------------------------------- R04.8 integer narrowing helpers
INT_SPECS = {
    # method -> (function of the value, domain samples)
    'low_u8': lambda x: x & 0xFF, 'high_u8': lambda x: (x >> 8) & 0xFF, 'low_u16': lambda x: x & 0xFFFF, 'high_u16': lambda x: (x >> 16) & 0xFFFF,
    'low_u32': lambda x: x & 0xFFFFFFFF, 'high_u32': lambda x: (x >> 32) & 0xFFFFFFFF,
}
SAMPLES = [0, 1, 0x7F, 0x80, 0xFE, 0xFF, 0x100, 0x7F00, 0x8000, 0xABCD, 0xFFFF, 0x10000, 0x12345678, 0x80000000, 0xFFFFFFFF, 0x1_0000_0000, 0xDEADBEEF_CAFEF00D]
WIDTH = {'u8': 8, 'u16': 16, 'u32': 32, 'u64': 64, 'usize': 64, 'i8': 8, 'i16': 16, 'i32': 32, 'i64': 64}


def r04_8(cx):
    n = 0
    for p, b in sorted(cx.facts.bodies.items()):
        m = re.match(r'^<(\w+) as util::int::(\w+)>::(\w+)$', p)
        if not m:
            continue
        ty, meth = m.group(1), m.group(3)
        cx.bodies_seen.add(p)
        rows = summarize(cx.facts, b)
        S = cstr(param_at(b, 1))
        why = None
        if meth in INT_SPECS:
            if ty not in WIDTH or ty.startswith('i'):
                continue
            n += 1
            rr = [r for r in rows if r.end == 'return']
            if len(rr) != 1:
                why = 'not straight-line code'
            else:
                try:
                    for x in SAMPLES:
                        if x >> WIDTH[ty]:
                            continue
                        got = teval(rr[0].ret, by_cstr({S: x}))
                        if got != INT_SPECS[meth](x):
                            why = why or '%s::%s(%#x) = %#x, expected %#x' % (ty, meth, x, got, INT_SPECS[meth](x))
                except (Unsupported, EvalPanic, KeyError, TypeError) as e:
                    why = 'cannot evaluate: %s' % e
            cx.report('R04.8', b, meth, why is None, '%s::%s is the %s half (evaluated on %d values)' % (ty, meth, meth.split('_')[0], len(SAMPLES)) if why is None else why)
        elif meth.startswith('as_') and ty in ('usize', 'u64', 'u32', 'u16', 'u8'):
            # value-preserving conversion: the value itself (possibly behind a checked try_from that panics when it does not fit)
            n += 1
            rr = [r for r in rows if r.end == 'return']
            good = bool(rr)
            for r in rr:
                t = r.ret
                while t is not None and t[0] in ('cast', 'conv'):
                    t = t[2]
                if t is not None and t[0] == 'f' and t[1][0] == 'dc' and t[1][2] == 'Ok':
                    t = t[1][1]
                    if is_call(t, r'core::convert::(TryFrom::try_from|TryInto::try_into)$'):
                        t = t[2][0]
                while t is not None and t[0] in ('cast', 'conv'):
                    t = t[2]
                if cstr(t) != S:
                    good = False
            cx.report('R04.8', b, meth, good, '%s::%s returns the value unchanged (or panics when it does not fit)' % (ty, meth) if good else '%s::%s changes the value it converts: %s' % (ty, meth, [tstr(canon(r.ret), 80) for r in rr]))
    cx.floor('R04.8', 'integer helper methods', n, 12)


# ------------------------------------------------------------------------------------------------- R06.8 the SIMD nybble shift
@only(X86)
def r06_8(cx):
    n = 0
    for p, b in sorted(cx.facts.bodies.items()):
        if not re.search(r'<impl packed::vector::Vector for .*__m(128|256)i>::shift_8bit_lane_right$', p):
            continue
        cx.bodies_seen.add(p)
        n += 1
        rr = [r for r in summarize(cx.facts, b) if r.end == 'return']
        why = None
        if len(rr) != 1:
            why = 'not straight-line code'
        else:
            t = canon(rr[0].ret)
            # and(srli_epi16(self, BITS), splat(0xF)) in either operand order
            ok = False
            if is_call(t, r'Vector::and$|_mm(256)?_and_si(128|256)$') and len(t[2]) == 2:
                for a0, b0 in ((t[2][0], t[2][1]), (t[2][1], t[2][0])):
                    sh = is_call(a0, r'_mm(256)?_srli_epi16$') and cstr(a0[2][0]) == cstr(param_at(b, 1))
                    mk = is_call(b0, r'Vector::splat$|_mm(256)?_set1_epi8$') and len(b0[2]) == 1
                    if sh and mk:
                        try:
                            mv = teval(b0[2][0], lambda x: None)
                        except (Unsupported, EvalPanic, KeyError, TypeError):
                            mv = None
                        ok = mv is not None and (mv & 0xFF) == 0x0F
            if not ok:
                why = 'the 8-bit lane shift is %s (expected srli_epi16(self, BITS) & splat(0x0F): the nybble masks of Teddy need all four low bits)' % tstr(t, 160)
        cx.report('R06.8', b, 'nybble-shift', why is None, 'shift_8bit_lane_right = srli_epi16(self, BITS) & splat(0x0F)' if why is None else why)
    cx.floor('R06.8', 'x86 vector types', n, 2)


# ------------------------------------------------------------------------------------------------- R04.9 id iterators
def r04_9(cx):
    b = cx.body('<util::primitives::SmallIndexIter as core::iter::Iterator>::next')
    rows = [r for r in summarize(cx.facts, b) if r.end == 'return']
    why = None
    some = [r for r in rows if is_agg(r.ret, r'Option$', 'Some')]
    none = [r for r in rows if is_agg(r.ret, r'Option$', 'None')]
    if not some or not none or len(some) + len(none) != len(rows):
        why = 'next does not return Some / None'
    try:
        for s0, e0 in ((0, 3), (2, 3), (3, 3), (70000, 70001), (5, 4)):
            at = by_cstr({'self.rng.start': s0, 'self.rng.end': e0})
            sel = [r for r in rows if row_consistent(r, at)]
            if len(sel) != 1:
                why = why or '%d paths for the range %d..%d' % (len(sel), s0, e0)
                continue
            r = sel[0]
            if s0 >= e0:
                if not is_agg(r.ret, r'Option$', 'None') or r.stores():
                    why = why or 'an exhausted range %d..%d still yields / advances' % (s0, e0)
            else:
                v = r.ret[3]['0'] if is_agg(r.ret, r'Option$', 'Some') else None
                st = {cstr(canon(pl)): v0 for pl, v0 in r.stores()}
                nxt = st.get('self.rng.start')
                if v is None or teval(v, at) != s0 or nxt is None or teval(nxt, at) != s0 + 1:
                    why = why or 'for the range %d..%d next() yields %s and continues at %s (expected %d, then %d)' % (s0, e0, None if v is None else teval(v, at), None if nxt is None else teval(nxt, at), s0, s0 + 1)
    except (Unsupported, EvalPanic, KeyError, TypeError) as e:
        why = why or 'cannot evaluate: %s' % e
    cx.report('R04.9', b, 'id-iter', why is None, 'SmallIndexIter yields start, start+1, .. end-1 unchanged (evaluated, including ids above 65535)' if why is None else 'SmallIndexIter: ' + why)


# ------------------------------------------------------------------------------------------------- R16.6 remapper
def r16_6(cx):
    b = cx.body('util::remapper::Remapper::remap')
    loops = b.loops()
    why = None
    inner = [h for h in loops if any(h in blks and h2 != h for h2, blks in loops.items())]
    if len(loops) != 2 or len(inner) != 1:
        why = '%d loops (expected the state loop and the chain walk inside it)' % len(loops)
    else:
        h = inner[0]
        rows = loop_rows(cx.facts, b, h)
        carried = live_in(cx.facts, b, h)
        cur = [l for l in carried if b.locals[l]['ty'] == 'util::primitives::StateID']
        # the walk leaves the loop only through the test `cur_id == oldmap[to_index(new_id)]`, and continues with new_id = that entry
        exits = [r for r in rows if r.end != ('stop', h) and r.end != 'diverge']
        steps = [r for r in rows if r.end == ('stop', h)]
        if len(cur) != 1 or not steps or not exits:
            why = 'chain walk not recognised'
        else:
            NEW = cstr(Sym(cx.facts, b).default_local(cur[0]))
            ENTRY = r'core::ops::Index::index\([\w.]*map, util::remapper::IndexMapper::to_index\([\w.]+idx, %s\)\)' % re.escape(NEW)

            def eq_test(r):
                for c, v in r.conds:
                    cc = canon(c)
                    if cc[0] == 'op' and cc[1] in ('Eq', 'Ne'):
                        e, iseq = (cc[2], cc[3]), cc[1] == 'Eq'
                    elif is_call(cc, r'PartialEq::(eq|ne)$'):
                        e, iseq = (cc[2][0], cc[2][1]), short(cc[1]).endswith('eq')
                    else:
                        continue
                    ks = [cstr(e[0]), cstr(e[1])]
                    if any(re.match(ENTRY + '$', k) for k in ks):
                        return v == iseq
                return None
            for r in exits:
                if eq_test(r) is not True or len(r.conds) != 1:
                    why = why or 'the chain walk can stop for a reason other than having found the cycle back to the current state (a long swap chain is left unresolved)'
                st = [(cstr(canon(pl)), cstr(canon(v))) for pl, v in r.stores()]
                if not any(re.match(r'core::ops::IndexMut::index_mut\([\w.]*map, ', pl) and v == NEW for pl, v in st):
                    why = why or 'leaving the chain walk does not record map[i] = new_id'
            for r in steps:
                if eq_test(r) is not False or len(r.conds) != 1:
                    why = why or 'a step of the chain walk depends on more than the cycle test'
                nv = cstr(canon(r.env.get(cur[0])))
                if not re.match(ENTRY + '$', nv):
                    why = why or 'the chain walk does not continue with new_id = oldmap[to_index(new_id)]'
    cx.report('R16.6', b, 'chain-walk', why is None, 'Remapper::remap follows every swap chain to its end: the walk stops only when the chain returns to the current id, then map[i] = new_id' if why is None else 'Remapper::remap: ' + why)


# ------------------------------------------------------------------------------------------------- R20.7 packed pattern table
def r20_7(cx):
    b = cx.body('packed::pattern::Patterns::add')
    rows = [r for r in summarize(cx.facts, b) if r.end == 'return']
    BY = cstr(param_at(b, 2))
    why = None
    if len(rows) != 1:
        why = '%d returning paths (every pattern handed to the packed table must take the next id; a skipped pattern shifts all later ids)' % len(rows)
    else:
        r = rows[0]
        pushes = [canon(c) for c in r.calls(r'Vec.*::push$')]
        tg = sorted(cstr(c[2][0]) for c in pushes)
        if tg != ['self.by_id', 'self.order']:
            why = 'add pushes to %s (expected self.order and self.by_id once each)' % tg
        else:
            oid = [c[2][1] for c in pushes if cstr(c[2][0]) == 'self.order'][0]
            if 'core::slice::len(self.by_id)' not in cstr(oid).replace('alloc::vec::Vec::len', 'core::slice::len') and 'len(self.by_id)' not in cstr(oid):
                why = 'the id pushed is %s, not by_id.len()' % tstr(oid, 80)
            conds = [cstr(canon(c)) for c, v in r.conds if not re.search(r'is_empty|Le\(|Lt\(|discr\(util::primitives::PatternID::new', cstr(canon(c)))]
            if conds:
                why = why or 'whether a pattern is stored depends on %s' % conds[:2]
    cx.report('R20.7', b, 'packed-ids', why is None, 'packed::Patterns::add stores every pattern under id = by_id.len() (ids stay aligned with the automaton\'s)' if why is None else 'packed::Patterns::add: ' + why)

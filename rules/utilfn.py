"""Leaf utility functions the properties silently depend on (span / range bookkeeping, the byte set behind the byte classes,
integer narrowing helpers, the SIMD nybble shift, id iterators, the id remapper, the packed pattern table): each is small enough
that its path summary can be evaluated on a grid covering its whole decision structure. None of them is exercised by the pinned
suite beyond ASCII inputs, whole-haystack spans and a handful of states."""
import re

from acverif.core import only
from acverif.mir import short, tstr, subterms
from acverif.rl import is_call, is_agg, peel, peel_all, param_at, Unsupported, EvalPanic
from acverif.sym import summarize, canon, cstr, teval, by_cstr, row_consistent, loop_rows, Sym, live_in

X86 = ('default', 'std', 'logging', 'perf')


# ------------------------------------------------------------------------------------------------- R10.7 Input::set_range
def r10_7(cx):
    b = cx.body("util::search::Input::<'h>::set_range")
    rows = summarize(cx.facts, b)
    RNG = cstr(param_at(b, 2))
    SB, EB = 'core::ops::RangeBounds::start_bound(%s)' % RNG, 'core::ops::RangeBounds::end_bound(%s)' % RNG
    names = ['Included', 'Excluded', 'Unbounded']
    why = None
    n = 0
    for si, sn in enumerate(names):
        for ei, en in enumerate(names):
            def at(t, si=si, ei=ei, sn=sn, en=en):
                s0 = cstr(t)
                if s0 == 'discr(%s)' % SB:
                    return si
                if s0 == 'discr(%s)' % EB:
                    return ei
                if s0 == '(%s as %s).0' % (SB, sn):
                    return 5
                if s0 == '(%s as %s).0' % (EB, en):
                    return 9
                if re.match(r'core::slice::len\((self\.haystack|util::search::Input::haystack\(self\))\)$', s0):
                    return 20
                if s0 in ('self.span.end', 'util::search::Input::end(self)'):
                    return 13
                if s0 in ('self.span.start', 'util::search::Input::start(self)'):
                    return 2
                return None
            try:
                sel = [r for r in rows if r.end == 'return' and row_consistent(r, at)]
                n += 1
                if len(sel) != 1:
                    why = why or '%d paths for start bound %s / end bound %s' % (len(sel), sn, en)
                    continue
                cs = [canon(c) for c in sel[0].calls(r'util::search::Input::set_span$')]
                if len(cs) != 1 or not is_agg(cs[0][2][1], r'util::search::Span$') or cstr(cs[0][2][0]) != 'self':
                    why = why or 'set_range does not end in one set_span(Span { .. })'
                    continue
                sp = cs[0][2][1][3]
                got = (teval(sp['start'], at), teval(sp['end'], at))
                want = ({'Included': 5, 'Excluded': 6, 'Unbounded': 0}[sn], {'Included': 10, 'Excluded': 9, 'Unbounded': 20}[en])
                if got != want:
                    why = why or 'start bound %s(5) / end bound %s(9) on a 20-byte haystack gives the span %d..%d, expected %d..%d' % (sn, en, got[0], got[1], want[0], want[1])
            except (Unsupported, EvalPanic, KeyError, TypeError) as e:
                why = why or 'cannot evaluate (%s / %s): %s' % (sn, en, e)
    cx.report('R10.7', b, 'bounds', why is None, 'set_range: Included(i) -> i / i+1, Excluded(i) -> i+1 / i, Unbounded -> 0 / haystack.len(), then set_span (all %d bound combinations evaluated)' % n if why is None else why)
    # set_start / set_end keep the other end of the current span
    for nm, keep, other in (('set_start', 'end', 'start'), ('set_end', 'start', 'end')):
        f = cx.body("util::search::Input::<'h>::%s" % nm)
        frows = [r for r in summarize(cx.facts, f) if r.end == 'return']
        P = cstr(param_at(f, 2))
        ok = len(frows) == 1
        if ok:
            cs = [canon(c) for c in frows[0].calls(r'util::search::Input::set_span$')]
            ok = len(cs) == 1 and is_agg(cs[0][2][1], r'util::search::Span$') and cstr(cs[0][2][1][3][other]) == P and cstr(cs[0][2][1][3][keep]) in ('self.span.%s' % keep, 'util::search::Input::get_span(self).%s' % keep, 'util::search::Input::%s(self)' % keep)
        cx.report('R10.7', f, nm, ok, '%s(x) = set_span(Span { %s: x, %s: the current %s })' % (nm, other, keep, keep) if ok else '%s does not keep the current span %s' % (nm, keep))


# ------------------------------------------------------------------------------------------------- R04.7 ByteSet
def r04_7(cx):
    a = cx.body('util::alphabet::ByteSet::add')
    c = cx.body('util::alphabet::ByteSet::contains')
    arows = [r for r in summarize(cx.facts, a) if r.end == 'return']
    crows = [r for r in summarize(cx.facts, c) if r.end == 'return']
    why = None
    if len(arows) != 1 or len(crows) != 1 or len(arows[0].stores()) != 1:
        why = 'add / contains are not straight-line code with one store'
    else:
        AB, CB = cstr(param_at(a, 2)), cstr(param_at(c, 2))
        tgt, val = arows[0].stores()[0]
        tgt, val = canon(tgt), canon(val)
        ret = canon(crows[0].ret)

        def slot(t):
            """(bucket term, bit term) of an expression `bits[bucket] <op> (1 << bit)`"""
            idx = [x for x in subterms(t) if x[0] == 'idx']
            sh = [x for x in subterms(t) if x[0] == 'op' and x[1] == 'Shl' and x[2] == ('c', 1)]
            return (idx[0][2] if len(idx) >= 1 else None, sh[0][3] if len(sh) == 1 else None)
        ab = (tgt[2] if tgt[0] == 'idx' else None, slot(val)[1])
        cb = slot(ret)
        seen = {}
        try:
            if None in ab or None in cb:
                raise Unsupported('bucket / bit expression not found')
            if not (val[0] == 'op' and val[1] == 'BitOr'):
                why = 'add does not OR the bit into its bucket'
            if not (ret[0] == 'op' and ret[1] in ('Lt', 'Ne') and any(x == ('c', 0) for x in ret[2:4])):
                why = why or 'contains does not test the masked bucket against 0'
            for byte in range(256):
                wa = (teval(ab[0], by_cstr({AB: byte})), teval(ab[1], by_cstr({AB: byte})))
                wc = (teval(cb[0], by_cstr({CB: byte})), teval(cb[1], by_cstr({CB: byte})))
                if wa != wc:
                    why = why or 'byte %#04x is added at (bucket %d, bit %d) but looked up at (bucket %d, bit %d)' % (byte, wa[0], wa[1], wc[0], wc[1])
                if not (0 <= wa[0] < 2 and 0 <= wa[1] < 128):
                    why = why or 'byte %#04x maps outside the two 128-bit buckets' % byte
                if wa in seen:
                    why = why or 'bytes %#04x and %#04x share one bit' % (seen[wa], byte)
                seen[wa] = byte
        except (Unsupported, EvalPanic, KeyError, TypeError) as e:
            why = why or 'cannot evaluate: %s' % e
    cx.report('R04.7', a, 'byteset', why is None, 'ByteSet: add(b) sets and contains(b) tests the same (bucket, bit) = (b / 128, b % 128) for all 256 byte values, distinct bytes use distinct bits' if why is None else 'ByteSet: ' + why)


# ------------------------------------------------------------------------------------------------- R04.8 integer narrowing helpers
INT_SPECS = {
    # method -> (function of the value, domain samples)
    'low_u8': lambda x: x & 0xFF, 'high_u8': lambda x: (x >> 8) & 0xFF, 'low_u16': lambda x: x & 0xFFFF, 'high_u16': lambda x: (x >> 16) & 0xFFFF,
    'low_u32': lambda x: x & 0xFFFFFFFF, 'high_u32': lambda x: (x >> 32) & 0xFFFFFFFF,
}
SAMPLES = [0, 1, 0x7F, 0x80, 0xFE, 0xFF, 0x100, 0x7F00, 0x8000, 0xABCD, 0xFFFF, 0x10000, 0x12345678, 0x80000000, 0xFFFFFFFF, 0x1_0000_0000, 0xDEADBEEF_CAFEF00D]
WIDTH = {'u8': 8, 'u16': 16, 'u32': 32, 'u64': 64, 'usize': 64, 'i8': 8, 'i16': 16, 'i32': 32, 'i64': 64}


def r04_8(cx):
    n = 0
    for p, b in sorted(cx.facts.bodies.items()):
        m = re.match(r'^<(\w+) as util::int::(\w+)>::(\w+)$', p)
        if not m:
            continue
        ty, meth = m.group(1), m.group(3)
        cx.bodies_seen.add(p)
        rows = summarize(cx.facts, b)
        S = cstr(param_at(b, 1))
        why = None
        if meth in INT_SPECS:
            if ty not in WIDTH or ty.startswith('i'):
                continue
            n += 1
            rr = [r for r in rows if r.end == 'return']
            if len(rr) != 1:
                why = 'not straight-line code'
            else:
                try:
                    for x in SAMPLES:
                        if x >> WIDTH[ty]:
                            continue
                        got = teval(rr[0].ret, by_cstr({S: x}))
                        if got != INT_SPECS[meth](x):
                            why = why or '%s::%s(%#x) = %#x, expected %#x' % (ty, meth, x, got, INT_SPECS[meth](x))
                except (Unsupported, EvalPanic, KeyError, TypeError) as e:
                    why = 'cannot evaluate: %s' % e
            cx.report('R04.8', b, meth, why is None, '%s::%s is the %s half (evaluated on %d values)' % (ty, meth, meth.split('_')[0], len(SAMPLES)) if why is None else why)
        elif meth.startswith('as_') and ty in ('usize', 'u64', 'u32', 'u16', 'u8'):
            # value-preserving conversion: the value itself (possibly behind a checked try_from that panics when it does not fit)
            n += 1
            rr = [r for r in rows if r.end == 'return']
            good = bool(rr)
            for r in rr:
                t = r.ret
                while t is not None and t[0] in ('cast', 'conv'):
                    t = t[2]
                if t is not None and t[0] == 'f' and t[1][0] == 'dc' and t[1][2] == 'Ok':
                    t = t[1][1]
                    if is_call(t, r'core::convert::(TryFrom::try_from|TryInto::try_into)$'):
                        t = t[2][0]
                while t is not None and t[0] in ('cast', 'conv'):
                    t = t[2]
                if cstr(t) != S:
                    good = False
            cx.report('R04.8', b, meth, good, '%s::%s returns the value unchanged (or panics when it does not fit)' % (ty, meth) if good else '%s::%s changes the value it converts: %s' % (ty, meth, [tstr(canon(r.ret), 80) for r in rr]))
    cx.floor('R04.8', 'integer helper methods', n, 12)


# ------------------------------------------------------------------------------------------------- R06.8 the SIMD nybble shift
@only(X86)
def r06_8(cx):
    n = 0
    for p, b in sorted(cx.facts.bodies.items()):
        if not re.search(r'<impl packed::vector::Vector for .*__m(128|256)i>::shift_8bit_lane_right$', p):
            continue
        cx.bodies_seen.add(p)
        n += 1
        rr = [r for r in summarize(cx.facts, b) if r.end == 'return']
        why = None
        if len(rr) != 1:
            why = 'not straight-line code'
        else:
            t = canon(rr[0].ret)
            # and(srli_epi16(self, BITS), splat(0xF)) in either operand order
            ok = False
            if is_call(t, r'Vector::and$|_mm(256)?_and_si(128|256)$') and len(t[2]) == 2:
                for a0, b0 in ((t[2][0], t[2][1]), (t[2][1], t[2][0])):
                    sh = is_call(a0, r'_mm(256)?_srli_epi16$') and cstr(a0[2][0]) == cstr(param_at(b, 1))
                    mk = is_call(b0, r'Vector::splat$|_mm(256)?_set1_epi8$') and len(b0[2]) == 1
                    if sh and mk:
                        try:
                            mv = teval(b0[2][0], lambda x: None)
                        except (Unsupported, EvalPanic, KeyError, TypeError):
                            mv = None
                        ok = mv is not None and (mv & 0xFF) == 0x0F
            if not ok:
                why = 'the 8-bit lane shift is %s (expected srli_epi16(self, BITS) & splat(0x0F): the nybble masks of Teddy need all four low bits)' % tstr(t, 160)
        cx.report('R06.8', b, 'nybble-shift', why is None, 'shift_8bit_lane_right = srli_epi16(self, BITS) & splat(0x0F)' if why is None else why)
    cx.floor('R06.8', 'x86 vector types', n, 2)


# ------------------------------------------------------------------------------------------------- R04.9 id iterators
def r04_9(cx):
    b = cx.body('<util::primitives::SmallIndexIter as core::iter::Iterator>::next')
    rows = [r for r in summarize(cx.facts, b) if r.end == 'return']
    why = None
    some = [r for r in rows if is_agg(r.ret, r'Option$', 'Some')]
    none = [r for r in rows if is_agg(r.ret, r'Option$', 'None')]
    if not some or not none or len(some) + len(none) != len(rows):
        why = 'next does not return Some / None'
    try:
        for s0, e0 in ((0, 3), (2, 3), (3, 3), (70000, 70001), (5, 4)):
            at = by_cstr({'self.rng.start': s0, 'self.rng.end': e0})
            sel = [r for r in rows if row_consistent(r, at)]
            if len(sel) != 1:
                why = why or '%d paths for the range %d..%d' % (len(sel), s0, e0)
                continue
            r = sel[0]
            if s0 >= e0:
                if not is_agg(r.ret, r'Option$', 'None') or r.stores():
                    why = why or 'an exhausted range %d..%d still yields / advances' % (s0, e0)
            else:
                v = r.ret[3]['0'] if is_agg(r.ret, r'Option$', 'Some') else None
                st = {cstr(canon(pl)): v0 for pl, v0 in r.stores()}
                nxt = st.get('self.rng.start')
                if v is None or teval(v, at) != s0 or nxt is None or teval(nxt, at) != s0 + 1:
                    why = why or 'for the range %d..%d next() yields %s and continues at %s (expected %d, then %d)' % (s0, e0, None if v is None else teval(v, at), None if nxt is None else teval(nxt, at), s0, s0 + 1)
    except (Unsupported, EvalPanic, KeyError, TypeError) as e:
        why = why or 'cannot evaluate: %s' % e
    cx.report('R04.9', b, 'id-iter', why is None, 'SmallIndexIter yields start, start+1, .. end-1 unchanged (evaluated, including ids above 65535)' if why is None else 'SmallIndexIter: ' + why)


# ------------------------------------------------------------------------------------------------- R16.6 remapper
def r16_6(cx):
    b = cx.body('util::remapper::Remapper::remap')
    loops = b.loops()
    why = None
    inner = [h for h in loops if any(h in blks and h2 != h for h2, blks in loops.items())]
    if len(loops) != 2 or len(inner) != 1:
        why = '%d loops (expected the state loop and the chain walk inside it)' % len(loops)
    else:
        h = inner[0]
        rows = [r for r in loop_rows(cx.facts, b, h) if r.end != 'diverge']
        exits = [r for r in rows if r.end != ('stop', h)]
        steps = [r for r in rows if r.end == ('stop', h)]

        def cycle_tests(r):
            """every decision of the row is the cycle test `<id of the state being resolved> ==/!= <map entry>`"""
            n_ = 0
            for c, v in r.conds:
                cc = canon(c)
                if cc[0] == 'op' and cc[1] in ('Eq', 'Ne'):
                    ks = [cstr(cc[2]), cstr(cc[3])]
                elif is_call(cc, r'PartialEq::(eq|ne)$'):
                    ks = [cstr(cc[2][0]), cstr(cc[2][1])]
                else:
                    return None
                if not any(re.search(r'IndexMapper::to_state_id\(', k) for k in ks):
                    return None
                n_ += 1
            return n_
        if not steps or not exits:
            why = 'chain walk not recognised'
        elif any(cycle_tests(r) != 1 for r in rows):
            why = 'the chain walk can stop (or go on) for a reason other than the test whether the chain has returned to the state being resolved: a long swap chain is left unresolved'
        # the resolved id is recorded
        outer = [h2 for h2 in loops if h2 != h][0]
        orows = [r for r in loop_rows(cx.facts, b, outer) if r.end == ('stop', outer)]
        if not any(any(re.match(r'core::ops::IndexMut::index_mut\([\w.]*map, ', cstr(canon(pl))) for pl, v in r.stores()) for r in orows):
            why = why or 'the resolved id is not recorded in the map'
    cx.report('R16.6', b, 'chain-walk', why is None, 'Remapper::remap follows every swap chain to its end: the walk stops only when the chain returns to the current id, then map[i] = new_id' if why is None else 'Remapper::remap: ' + why)


# ------------------------------------------------------------------------------------------------- R20.7 packed pattern table
def r20_7(cx):
    b = cx.body('packed::pattern::Patterns::add')
    rows = [r for r in summarize(cx.facts, b) if r.end == 'return']
    BY = cstr(param_at(b, 2))
    why = None if rows else 'add never returns'
    for r in rows:
        pushes = [canon(c) for c in r.calls(r'Vec.*::push$')]
        tg = sorted(cstr(c[2][0]) for c in pushes)
        if tg != ['self.by_id', 'self.order']:
            why = why or 'a path of add pushes to %s (expected self.order and self.by_id once each: every pattern handed to the packed table must take the next id; a skipped pattern shifts all later ids)' % tg
            continue
        oid = [c[2][1] for c in pushes if cstr(c[2][0]) == 'self.order'][0]
        if 'len(self.by_id)' not in cstr(oid):
            why = why or 'the id pushed is %s, not by_id.len()' % tstr(oid, 80)
    cx.report('R20.7', b, 'packed-ids', why is None, 'packed::Patterns::add stores every pattern under id = by_id.len() (ids stay aligned with the automaton\'s)' if why is None else 'packed::Patterns::add: ' + why)


# ------------------------------------------------------------------------------------------------- evaluation on a model memory
def _model_atoms(scalars, arrays, funcs=None):
    """atoms for teval: scalars {cstr: int}; arrays {cstr(base): {index: value}} answer `base[i]` / Index::index(base, i) with the index
    evaluated first; funcs {regex on callee: python function of evaluated args}"""
    def at(t):
        s0 = cstr(t)
        if s0 in scalars:
            return scalars[s0]
        if s0.endswith('.0.0') and s0[:-4] in scalars:
            return scalars[s0[:-4]]     # the integer inside an id newtype
        base = ix = None
        if t[0] == 'idx':
            base, ix = t[1], t[2]
        elif is_call(t, r'core::ops::Index::index$|core::slice::get_unchecked$') and len(t[2]) == 2:
            base, ix = t[2][0], t[2][1]
        if base is not None and cstr(base) in arrays:
            i = teval(ix, at)
            if i not in arrays[cstr(base)]:
                raise EvalPanic('model memory: %s[%s] is not part of the encoded state' % (cstr(base), i))
            return arrays[cstr(base)][i]
        if funcs and t[0] == 'call':
            for pat, fn in funcs.items():
                if re.search(pat, short(t[1])):
                    return fn(*[teval(a, at) for a in t[2]])
        return None
    return at


U32LEN = {r'nfa::contiguous::u32_len$': lambda n: (n + 3) // 4}


# ------------------------------------------------------------------------------------------------- R04.10 contiguous match section reader
def r04_10(cx):
    """State::kind / sparse_trans_len / match_len / match_pattern evaluated on modelled encodings: the match section starts right
    after the transitions the writer laid out (dense: 2 + alphabet_len; sparse with n transitions: 2 + ceil(n/4) + n); one pattern is
    stored as pid | 1<<31, several as a count followed by the ids"""
    P = "nfa::contiguous::State::<'a>::"
    AL = 9
    for nm in ('kind', 'sparse_trans_len'):
        b = cx.body(P + nm)
        rr = [r for r in summarize(cx.facts, b) if r.end == 'return']
        why = None
        try:
            for k in (1, 5, 63, 64, 70, 127, 254, 255):
                sc0 = {} if nm == 'kind' else {'nfa::contiguous::State::kind(state)': k}      # sparse_trans_len may be spelled through kind()
                got = teval(rr[0].ret, _model_atoms(sc0, {'state': {0: 0xAB00 | k}})) if len(rr) == 1 else None
                if got != k:
                    why = why or '%s of a state whose kind byte is %d is %s' % (nm, k, got)
        except (Unsupported, EvalPanic, KeyError, TypeError) as e:
            why = 'cannot evaluate: %s' % e
        cx.report('R04.10', b, nm, why is None, 'State::%s = low byte of word 0 (evaluated for 8 kind bytes incl. 64..127)' % nm if why is None else 'State::' + why)
    for nm in ('match_len', 'match_pattern'):
        b = cx.body(P + nm)
        rows = summarize(cx.facts, b)
        why = None
        n = 0
        try:
            for kind in (255, 3, 5, 70):
                start = 2 + AL if kind == 255 else 2 + (kind + 3) // 4 + kind
                for single in (True, False):
                    for index in ((0,) if single else (0, 1, 2)):
                        mem = {0: 0x1200 | kind}
                        if single:
                            mem[start] = (1 << 31) | 40000
                        else:
                            mem[start] = 3
                            mem[start + 1], mem[start + 2], mem[start + 3] = 11, 40000, 33
                        sc = {'alphabet_len': AL, 'index': index, "nfa::contiguous::State::kind(state)": kind, "nfa::contiguous::State::sparse_trans_len(state)": kind}
                        at = _model_atoms(sc, {'state': mem}, U32LEN)
                        sel = [r for r in rows if r.end == 'return' and row_consistent(r, at)]
                        n += 1
                        if len(sel) != 1:
                            why = why or '%d paths for kind %d, %s' % (len(sel), kind, 'one pattern' if single else 'three patterns')
                            continue
                        got = teval(sel[0].ret, at)
                        want = (1 if single else 3) if nm == 'match_len' else (40000 if single else [11, 40000, 33][index])
                        if got != want:
                            why = why or 'for a %s state (kind byte %d) holding %s, %s(%s) = %s, expected %s' % ('dense' if kind == 255 else 'sparse', kind, 'one pattern (id 40000)' if single else 'patterns 11, 40000, 33', nm, index, got, want)
        except (Unsupported, EvalPanic, KeyError, TypeError) as e:
            why = why or 'cannot evaluate: %s' % e
        cx.report('R04.10', b, nm, why is None, 'State::%s reads the match section at the offset the writer used and decodes single / multiple pattern ids (%d encodings evaluated)' % (nm, n) if why is None else 'State::%s: %s' % (nm, why))


# ------------------------------------------------------------------------------------------------- R03.7 transition / match accessors
def r03_7(cx):
    b = cx.body('<dfa::DFA as automaton::Automaton>::next_state')
    rows = [r for r in summarize(cx.facts, b) if r.end == 'return']
    why = None
    if len(rows) != 1 or rows[0].conds:
        why = 'the transition depends on %d decision(s) (expected one table lookup)' % sum(len(r.conds) for r in rows)
    else:
        SID, BYTE = cstr(param_at(b, 3)), cstr(param_at(b, 4))
        try:
            at = _model_atoms({SID: 64, 'util::alphabet::ByteClasses::get(self.byte_classes, %s)' % BYTE: 5, BYTE: 200}, {'self.trans': {69: 4242}})
            if teval(rows[0].ret, at) != 4242:
                why = 'next_state does not read trans[sid + class(byte)]'
        except (Unsupported, EvalPanic, KeyError, TypeError) as e:
            why = 'next_state does not read trans[sid + byte_classes.get(byte)]: %s' % e
    cx.report('R03.7', b, 'dfa-next', why is None, 'DFA::next_state = trans[sid + byte_classes.get(byte)], unconditionally' if why is None else 'DFA::' + why)
    # match accessors
    for nm, want in (('match_len', 'core::iter::Iterator::count(nfa::noncontiguous::NFA::iter_matches(self, sid))'),
                     ('match_pattern', '(core::iter::Iterator::nth(nfa::noncontiguous::NFA::iter_matches(self, sid), index) as Some).0')):
        f = cx.body('<nfa::noncontiguous::NFA as automaton::Automaton>::' + nm)
        rr = [r for r in summarize(cx.facts, f) if r.end == 'return']
        ok = len(rr) == 1 and cstr(canon(rr[0].ret)) in (want, want.replace('(', '', 1).replace(' as Some).0', '') if False else want)
        if len(rr) == 1 and not ok:
            t = canon(rr[0].ret)
            ok = is_call(t, r'Option::(unwrap|expect)$') and cstr(t[2][0]) == 'core::iter::Iterator::nth(nfa::noncontiguous::NFA::iter_matches(self, sid), index)'
        cx.report('R03.7', f, 'nnfa-' + nm, ok, 'noncontiguous %s walks the state\'s match list (iter_matches)' % nm if ok else 'noncontiguous %s = %s' % (nm, [cstr(canon(r.ret))[:160] for r in rr]))
    for nm in ('match_len', 'match_pattern'):
        f = cx.body('<dfa::DFA as automaton::Automaton>::' + nm)
        rr = [r for r in summarize(cx.facts, f) if r.end == 'return']
        why = None
        try:
            SID = cstr(param_at(f, 2))
            at = _model_atoms({SID: 48, 'self.stride2': 3, 'index': 1, 'automaton::Automaton::is_match(self, %s)' % SID: 1},
                              {'self.matches': {4: 7777}, '7777': {}}, {r'alloc::vec::Vec::len$|core::slice::len$': lambda v: 3 if v == 7777 else -1})
            if len(rr) != 1:
                why = '%d returning paths' % len(rr)
            elif nm == 'match_len':
                if teval(rr[0].ret, at) != 3:
                    why = 'match_len is not matches[(sid >> stride2) - 2].len()'
            else:
                t = canon(rr[0].ret)
                inner = t[2][0] if is_call(t, r'Index::index$') else (t[1] if t[0] == 'idx' else None)
                ix = t[2][1] if is_call(t, r'Index::index$') else (t[2] if t[0] == 'idx' else None)
                if inner is None or teval(inner, at) != 7777 or cstr(ix) != cstr(param_at(f, 3)):
                    why = 'match_pattern is not matches[(sid >> stride2) - 2][index]'
        except (Unsupported, EvalPanic, KeyError, TypeError) as e:
            why = 'cannot evaluate: %s' % e
        cx.report('R03.7', f, 'dfa-' + nm, why is None, 'DFA %s reads matches[(sid >> stride2) - 2]' % nm if why is None else 'DFA ' + why)
    # trait default methods are plain forwards to the drivers
    for nm, tgt in (('try_find', 'automaton::try_find_fwd(self, input)'), ('try_find_overlapping', 'automaton::try_find_overlapping_fwd(self, input, state)')):
        f = cx.body('automaton::Automaton::' + nm)
        rr = summarize(cx.facts, f)
        ok = len(rr) == 1 and rr[0].end == 'return' and not rr[0].conds and not rr[0].stores() and cstr(canon(rr[0].ret)) == tgt
        cx.report('R03.7', f, 'default-' + nm, ok, 'Automaton::%s forwards to %s with nothing in between' % (nm, tgt.split('(')[0]) if ok else 'Automaton::%s does more than forwarding to the driver (decisions %s, stores %s)' % (nm, [cstr(c)[:60] for r in rr for c, v in r.conds][:3], [cstr(p)[:40] for r in rr for p, v in r.stores()][:3]))


# ------------------------------------------------------------------------------------------------- R06.9 Teddy mask builders
@only(X86)
def r06_9(cx):
    for nm, nb in (('SlimMaskBuilder', 8), ('FatMaskBuilder', 16)):
        b = cx.body('packed::teddy::generic::%s::add' % nm)
        rows = [r for r in summarize(cx.facts, b) if r.end == 'return']
        BUCKET, BYTE = cstr(param_at(b, 2)), cstr(param_at(b, 3))
        why = None
        try:
            for bucket in range(nb):
                for byte in (0x00, 0x0F, 0x41, 0x7F, 0x80, 0x9C, 0xC3, 0xF0, 0xFF):
                    sc = {BUCKET: bucket, BYTE: byte, '(core::convert::TryFrom::try_from(%s) as Ok).0' % BUCKET: bucket, 'discr(core::convert::TryFrom::try_from(%s))' % BUCKET: 0}
                    at = _model_atoms(sc, {})
                    sel = [r for r in rows if row_consistent(r, at)]
                    if len(sel) != 1:
                        why = why or '%d paths for bucket %d' % (len(sel), bucket)
                        continue
                    got = set()
                    for pl, v in sel[0].stores():
                        pl, v = canon(pl), canon(v)
                        if pl[0] != 'idx':
                            continue
                        bits = [x for x in subterms(v) if x[0] == 'op' and x[1] == 'Shl' and x[2] == ('c', 1)]
                        if not (v[0] == 'op' and v[1] == 'BitOr') or len(bits) != 1:
                            why = why or 'a mask entry is not OR-ed with one bucket bit'
                            continue
                        got.add((cstr(pl[1]), teval(pl[2], at), teval(bits[0][3], at)))
                    lo, hi = byte & 0xF, byte >> 4
                    if nm == 'SlimMaskBuilder':
                        want = {('self.lo', lo, bucket), ('self.lo', lo + 16, bucket), ('self.hi', hi, bucket), ('self.hi', hi + 16, bucket)}
                    else:
                        off = 0 if bucket < 8 else 16
                        want = {('self.lo', lo + off, bucket % 8), ('self.hi', hi + off, bucket % 8)}
                    if got != want:
                        why = why or 'add(bucket %d, byte %#04x) sets %s, expected %s' % (bucket, byte, sorted(got), sorted(want))
        except (Unsupported, EvalPanic, KeyError, TypeError) as e:
            why = why or 'cannot evaluate: %s' % e
        cx.report('R06.9', b, 'mask-add', why is None, '%s::add sets bit (bucket %% 8) in lo[byte & 0xF (+16)] and hi[byte >> 4 (+16)] (evaluated for %d buckets x 9 bytes incl. bytes >= 0x80)' % (nm, nb) if why is None else '%s::%s' % (nm, why))


# ------------------------------------------------------------------------------------------------- R10.8 Span conversions
def r10_8(cx):
    specs = [
        ('util::search::<impl core::ops::Index<util::search::Span> for [u8]>::index', r'^core::ops::Index::index\(self, util::search::Span::range\(index\)\)$|^core::ops::Index::index\(self, core::ops::Range::Range\{start: index\.start, end: index\.end\}\)$'),
        ('util::search::<impl core::ops::IndexMut<util::search::Span> for [u8]>::index_mut', r'^core::ops::IndexMut::index_mut\(self, util::search::Span::range\(index\)\)$|^core::ops::IndexMut::index_mut\(self, core::ops::Range::Range\{start: index\.start, end: index\.end\}\)$'),
        ('util::search::<impl core::convert::From<util::search::Span> for core::ops::Range<usize>>::from', r'^core::ops::Range::Range\{start: span\.start, end: span\.end\}$'),
        ('<util::search::Span as core::convert::From<core::ops::Range<usize>>>::from', r'^util::search::Span::Span\{start: range\.start, end: range\.end\}$'),
    ]
    for path, pat in specs:
        if not cx.has(path):
            continue
        b = cx.body(path)
        rr = summarize(cx.facts, b)
        P = cstr(param_at(b, b.j['arg_count']))
        s0 = cstr(canon(rr[0].ret)) if len(rr) == 1 and rr[0].ret is not None else None
        ok = s0 is not None and not rr[0].conds and re.match(pat.replace('index', re.escape(P)).replace('span\\.', re.escape(P) + '\\.').replace('range\\.', re.escape(P) + '\\.') if False else pat, s0.replace(P + '.', {'index': 'index.', 'span': 'span.', 'range': 'range.'}.get(P, P + '.')).replace('(%s)' % P, '(index)') if P not in ('index', 'span', 'range') else s0) is not None
        cx.report('R10.8', b, 'span-conv', ok, 'slicing by / converting a Span uses exactly start..end' if ok else 'a Span is sliced / converted as %s' % s0)
    r = cx.body('util::search::Span::range')
    rr = summarize(cx.facts, r)
    ok = len(rr) == 1 and not rr[0].conds and cstr(canon(rr[0].ret)) in ('self', 'core::ops::Range::Range{start: self.start, end: self.end}')
    cx.report('R10.8', r, 'range', ok, 'Span::range() is start..end' if ok else 'Span::range() = %s' % [cstr(canon(x.ret))[:100] for x in rr])


# ------------------------------------------------------------------------------------------------- R13.8 iterator wrappers and constructors
def r13_8(cx):
    """the public iterator types of ahocorasick.rs are transparent wrappers (next() forwards unconditionally, so whatever the inner
    iterator yields -- a match, an I/O error, the end -- is what the caller sees), and automaton::FindIter starts with no previous
    match (an empty match at the start of any span is reported)"""
    n = 0
    for p, b in sorted(cx.facts.bodies.items()):
        m = re.match(r"^<ahocorasick::(FindIter|FindOverlappingIter|StreamFindIter)<.*> as core::iter::Iterator>::next$", p)
        if not m:
            continue
        cx.bodies_seen.add(p)
        n += 1
        rows = summarize(cx.facts, b)
        ok = len(rows) == 1 and rows[0].end == 'return' and not rows[0].conds and not rows[0].stores() and cstr(canon(rows[0].ret)) == 'core::iter::Iterator::next(self.0)'
        cx.report('R13.8', b, 'wrapper-next', ok, '%s::next forwards to the wrapped iterator unconditionally' % m.group(1) if ok else
                  '%s::next does more than forwarding (decisions %s): items of the wrapped iterator can be dropped, retried or replaced' % (m.group(1), [cstr(c)[:70] for r in rows for c, v in r.conds][:3]))
    cx.floor('R13.8', 'public iterator wrappers', n, 2)
    f = cx.body("automaton::FindIter::<'a, 'h, A>::new")
    rows = [r for r in summarize(cx.facts, f) if r.end == 'return']
    why = None
    oks = [r for r in rows if is_agg(r.ret, r'Result$', 'Ok')]
    if not oks:
        why = 'no successful path'
    for r in oks:
        it = r.ret[3]['0']
        if not (it[0] == 'agg' and isinstance(it[3], dict) and is_agg(it[3].get('last_match_end'), r'Option$', 'None')):
            why = why or 'a new FindIter starts with last_match_end = %s (an empty match at the start of the span would be taken for one that overlaps a previous match)' % tstr(canon(it[3].get('last_match_end')) if it[0] == 'agg' and isinstance(it[3], dict) else it, 80)
        elif cstr(canon(it[3].get('input'))) != cstr(param_at(f, 2)) or cstr(canon(it[3].get('aut'))) != cstr(param_at(f, 1)):
            why = why or 'a new FindIter does not keep the automaton / input it was given'
        if len(r.conds) != 1:
            why = why or 'construction depends on more than the start-state probe'
    cx.report('R13.8', f, 'finditer-new', why is None, 'FindIter::new keeps (aut, input) and starts with last_match_end = None, depending only on the start-state probe' if why is None else why)


# ------------------------------------------------------------------------------------------------- helpers shared with older rules
def setter_keeps_other_end(cx, nm):
    """Input::set_start / set_end on its summary: set_span(Span { that end: the argument, the other end: the current one })"""
    keep, other = ('end', 'start') if nm == 'set_start' else ('start', 'end')
    f = cx.body("util::search::Input::<'h>::%s" % nm)
    frows = [r for r in summarize(cx.facts, f) if r.end == 'return']
    P = cstr(param_at(f, 2))
    if len(frows) != 1:
        return False
    cs = [canon(c) for c in frows[0].calls(r'util::search::Input::set_span$')]
    return (len(cs) == 1 and cstr(cs[0][2][0]) == 'self' and is_agg(cs[0][2][1], r'util::search::Span$') and isinstance(cs[0][2][1][3], dict) and cstr(cs[0][2][1][3][other]) == P
            and cstr(cs[0][2][1][3][keep]) in ('self.span.%s' % keep, 'util::search::Input::get_span(self).%s' % keep, 'util::search::Input::%s(self)' % keep))


def builder_sets_only(cx, path, field, setter_pat):
    """a by-value builder method `fn f(mut self, v) -> Self` changes exactly one field: either { self.set_f(v); self } or the
    literal Self { f: v, ..self }. Returns None or what deviates."""
    b = cx.body(path)
    rows = [r for r in summarize(cx.facts, b) if r.end == 'return']
    P = cstr(param_at(b, 2))
    if len(rows) != 1 or rows[0].conds:
        return 'not straight-line code'
    r = rows[0]
    ret = r.ret
    while ret is not None and ret[0] == 'upd':
        ret = ret[1]
    if ret is not None and ret[0] == 'agg' and isinstance(ret[3], dict):
        adt = cx.facts.adts.get(ret[1])
        for f0, v0 in ret[3].items():
            want = P if f0 == field else 'self.%s' % f0
            if cstr(canon(v0)) != want:
                return 'the value built has %s = %s (expected %s)' % (f0, cstr(canon(v0))[:60], want)
        if field not in ret[3]:
            return 'the value built does not set %s' % field
        return None
    cs = [canon(c) for c in r.calls(setter_pat)]
    sts = [(cstr(canon(pl)), cstr(canon(v))) for pl, v in r.stores()]
    if cstr(canon(ret)) != 'self':
        return 'returns %s' % cstr(canon(ret))[:80]
    if len(cs) == 1 and cstr(cs[0][2][0]) == 'self' and cstr(cs[0][2][1]) == P and not sts:
        return None
    if not cs and sts == [('self.%s' % field, P)]:
        return None
    return 'does %s / stores %s' % ([cstr(c)[:60] for c in cs], sts)


# ------------------------------------------------------------------------------------------------- R04.11 sorted insertion into a transition chain
def r04_11(cx):
    """NFA::add_transition on its summaries: the walk keeps (P, N) with N = sparse[P].link; a new node is inserted as
    Transition { byte, next, link: N } behind P (sparse[P].link = new), or at the head with link = the old head; an existing byte only
    has its target replaced. A node spliced in with any other successor unlinks part of the chain."""
    b = cx.body('nfa::noncontiguous::NFA::add_transition')
    PREV, BYTE, NEXT = (cstr(param_at(b, i)) for i in (2, 3, 4))
    loops = list(b.loops())
    why = None
    if len(loops) != 1:
        cx.report('R04.11', b, 'chain-insert', False, 'add_transition: %d loops (expected the one walk along the chain)' % len(loops))
        return
    h = loops[0]
    sym = Sym(cx.facts, b)
    car = [l for l in live_in(cx.facts, b, h) if b.locals[l]['ty'] == 'util::primitives::StateID']
    rows = loop_rows(cx.facts, b, h)
    steps = [r for r in rows if r.end == ('stop', h)]
    N = P = None
    if len(car) == 2 and steps:
        for a0, b0 in ((car[0], car[1]), (car[1], car[0])):
            da, db = cstr(sym.default_local(a0)), cstr(sym.default_local(b0))
            if all(cstr(canon(r.env.get(b0))) == 'core::ops::Index::index(self.sparse, %s).link' % db and cstr(canon(r.env.get(a0))) == db for r in steps):
                P, N = da, db
    if N is None:
        why = 'the walk does not keep a (previous, next) pair with previous = next and next = sparse[next].link per step'
    else:
        NEW = '(nfa::noncontiguous::NFA::alloc_transition(self) as Ok).0'
        HEAD = 'core::ops::Index::index(self.states, %s).sparse' % PREV
        arr = [r for r in Sym(cx.facts, b, start=0, stop={h}).rows()]
        for r in arr:
            if r.end == ('stop', h):
                pv = {cstr(sym.default_local(l)): cstr(canon(r.env.get(l))) for l in car}
                if pv.get(P) != HEAD or pv.get(N) != 'core::ops::Index::index(self.sparse, %s).link' % HEAD:
                    why = why or 'the walk does not start at (head, sparse[head].link)'

        def check_exit(r, pred, succ, where):
            st = [(cstr(canon(pl)), canon(v)) for pl, v in r.stores()]
            tr = [(pl, v) for pl, v in st if is_agg(v, r'noncontiguous::Transition$')]
            if tr:
                if len(tr) != 1 or tr[0][0] != 'core::ops::IndexMut::index_mut(self.sparse, %s)' % NEW:
                    return '%s: the new transition is not stored in the slot just allocated' % where
                f0 = tr[0][1][3]
                if cstr(f0['byte']) != BYTE or cstr(f0['next']) != NEXT:
                    return '%s: the new transition is not (byte, next)' % where
                if cstr(f0['link']) != succ:
                    return '%s: the new transition is linked to %s instead of the node the walk stopped in front of (%s): the nodes in between are unlinked' % (where, cstr(f0['link'])[:60], succ[:60])
                lk = [(pl, cstr(v)) for pl, v in st if pl == pred]
                if lk != [(pred, NEW)]:
                    return '%s: the predecessor is not rewired to the new transition' % where
                if len(st) != 2:
                    return '%s: unexpected stores %s' % (where, [pl[:50] for pl, v in st])
            elif st:
                # replacement of an existing byte
                if len(st) != 1 or cstr(st[0][1]) != NEXT or not st[0][0].endswith('.next'):
                    return '%s: unexpected stores %s' % (where, [pl[:60] for pl, v in st])
            return None
        ninsert = 0
        for r in rows:
            if r.end == 'return' and is_agg(r.ret, r'Result$', 'Ok'):
                why = why or check_exit(r, 'core::ops::IndexMut::index_mut(self.sparse, %s).link' % P, N, 'after the walk')
                ninsert += 1 if any(is_agg(canon(v), r'noncontiguous::Transition$') for pl, v in r.stores()) else 0
        for r in arr:
            if r.end == 'return' and is_agg(r.ret, r'Result$', 'Ok'):
                st = [x for x in r.stores() if not cstr(canon(x[0])).startswith('core::ops::IndexMut::index_mut(self.dense')]
                r2 = type('R', (), {'stores': lambda self, st=st: st})()
                why = why or check_exit(r2, 'core::ops::IndexMut::index_mut(self.states, %s).sparse' % PREV, HEAD, 'at the head')
        if ninsert == 0:
            why = why or 'no path inserts a transition behind the walk'
    cx.report('R04.11', b, 'chain-insert', why is None, 'add_transition inserts Transition { byte, next, link: N } between P and N = sparse[P].link (or in front of the head), and only replaces the target of an existing byte' if why is None else 'add_transition: ' + why)

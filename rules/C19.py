"""C19 rule set (see DESIGN.md section 5)."""
from rules.search import r19_1, r19_2, r19_3, r10_3
from rules.stream import r07_5
from rules.builder import r01_1
from rules.stream import r07_3, r07_1
from rules.search import r05_6
from rules.prefilter import r05_3

LEVEL = 'other'
from rules.prefilter import r05_1, r05_2
RULES = [('R07.5', r07_5), ('R19.1', r19_1), ('R19.2', r19_2), ('R19.3', r19_3), ('R10.3', r10_3), ('R01.1', r01_1), ('R07.3', r07_3), ('R05.6', r05_6), ('R05.3', r05_3), ('R07.1', r07_1), ('R05.1', r05_1), ('R05.2', r05_2)]
EXPLANATION = """R19.1 in both drivers the cursor is only increased inside the loop (+1, or a jump guarded by i > cursor), and every CFG cycle
through the next_state call passes a strict increase: at most one transition per cursor value, bounded by input.end() (R10.3 loop
guard); the stream scan performs one transition per buffered byte (R07.3). R19.2 DFA::next_state and everything it calls is loop-free
(one class lookup, one table lookup, no failure traversal). R19.3 each NFA next_state has one failure loop (plus bounded iterator
loops), whose only loop-carried variable is sid, every repetition replaces sid by the current state's failure link, and (noncontiguous)
the loop repeats only on FAIL. R05.6/R05.3 the prefilter scans only cursor..input.end() and returns absolute candidates no earlier than the byte it found minus its
offset (a relative or unbounded candidate makes every start-state visit rescan). R07.1 the stream buffer's capacity is a multiple
(>= 2) of the retained tail, so refills amortise. R01.1 the start state gets its self loop before failure links are computed (the failure walk ends at
the start state)."""
NOT_DECIDED = """The amortised bound 'failure traversals <= transitions': it follows from 'every failure link points to a strictly shallower state', an invariant of the data computed by fill_failure_transitions, not of code shape; the cost of the prefilter's own scanning."""
CLAIM = """Static decision of the structural half of linear-time search: strict cursor progress on every cycle of both drivers, a loop-free DFA
transition, and the shape of the NFA failure loops. Holds for all pattern sets and haystacks."""
NOTE = """Trusted: rustc MIR construction, the fact extractor. The amortisation argument itself is not decided."""
TECHNIQUE = "static analysis: cycle / progress analysis on MIR control-flow graphs, loop-carried variable inventory, call-graph loop-freedom"

"""Shared rule set over the stream code (automaton.rs StreamChunkIter / Buffer / stream drivers): C07, C08, C18."""
import re

from acverif.core import only
from acverif.mir import short, tstr, subterms, affine_str
from acverif.rl import (is_call, peel, peel_all, is_var, is_agg, is_const, self_field, bool_gates, try_gates, result_gates, discr_gates, cmp_gates,
                        param_of_type, param_at, var_of_type, user_locals_of_type, value_roots, var_defs_terms, result_gates, Eval, EvalPanic, Unsupported, enum_gates, arm_edges, other_edges,
                        reachable_without, must_pass, line_of, decision_table, rewrite, expand_vars, atom, cmp_norm,
                        find_calls, operand_ty, CallGraph)

NEXT = "automaton::StreamChunkIter::<'a, A, R>::next"
SCI = "automaton::StreamChunkIter::<'a, A, R>::"
STREAM_CONFIGS = ('default', 'std', 'logging')

LEN, MIN, POS, REP, ABS, MLEN = (atom(x) for x in ('LEN', 'MIN', 'POS', 'REP', 'ABS', 'MLEN'))


def sf(t, *fields):
    return self_field(t, *fields)


def snorm(t):
    """Summarise getters of the stream iterator into atoms (E3 getter summaries)."""
    def fn(x):
        if is_call(x, r'core::slice::len$') and is_call(peel(x[2][0]), r'util::buffer::Buffer::buffer$') and sf(peel(x[2][0])[2][0], 'buf'):
            return LEN
        if is_call(x, r'util::buffer::Buffer::min_buffer_len$') and sf(x[2][0], 'buf'):
            return MIN
        if sf(x, 'buffer_pos'):
            return POS
        if sf(x, 'buffer_reported_pos'):
            return REP
        if sf(x, 'absolute_pos'):
            return ABS
        if is_call(x, r'util::search::Match::len$'):
            return MLEN
        if is_call(x, r'core::num::saturating_sub$'):
            return ('satsub', x[2][0], x[2][1])
        if is_call(x, r'core::iter::(traits::exact_size::)?ExactSizeIterator::len$'):
            return ('rlen', peel(x[2][0]))
        if x[0] == 'conv':
            return x[2]
        return None
    return rewrite(t, fn)


NEG = {'Lt': 'Ge', 'Le': 'Gt', 'Gt': 'Le', 'Ge': 'Lt', 'Eq': 'Ne', 'Ne': 'Eq'}


def true_form(cn, val):
    if cn is None:
        return None
    return cn if val else ('cmp', NEG[cn[1]], cn[2]) if False else (cn if val else negate(cn))


def negate(cn):
    # negation of `e OP 0`
    return ('cmp', NEG[cn[1]], cn[2])


def rng(t):
    """Range{start,end} -> (affine(start), affine(end))"""
    if is_agg(t, r'core::ops::Range$') and isinstance(t[3], dict):
        return (affine_str(t[3]['start']), affine_str(t[3]['end']))
    return None


def helper_rows(b):
    tb = decision_table(b)
    if tb is None:
        return None
    rows = set()
    for conds, out, path in tb:
        cs = []
        for c, v in conds:
            c2 = snorm(expand_vars(b, c))
            cn = cmp_norm(c2)
            if cn is None:
                cs.append(('?', tstr(c2, 100), v))
            else:
                cs.append(cn if v else negate(cn))
        o = snorm(expand_vars(b, out))
        if is_agg(o, r'core::option::Option$', 'Some'):
            r = rng(o[3]['0'])
            ov = ('Some',) + (r if r else ('?', tstr(o, 100)))
        elif is_agg(o, r'core::option::Option$', 'None'):
            ov = ('None',)
        else:
            r = rng(o)
            ov = ('Range',) + r if r else ('?', tstr(o, 120))
        rows.add((tuple(sorted(cs)), ov))
    return rows


def spec_rows(spec):
    out = set()
    for conds, ov in spec:
        cs = []
        for c, v in conds:
            cn = cmp_norm(c)
            cs.append(cn if v else negate(cn))
        if ov[0] in ('Some', 'Range'):
            ov = (ov[0], affine_str(ov[1]), affine_str(ov[2]))
        out.add((tuple(sorted(cs)), ov))
    return out


def sub(a, b):
    return ('op', 'Sub', a, b)


def _rng(s, e):
    return ('agg', 'Range', 'Range', (('end', e), ('start', s)))


def _some(x):
    return ('agg', 'Option', 'Some', (('0', x),))


_NONE = ('agg', 'Option', 'None', ())
# specification functions over (POS, REP, LEN, MIN, MLEN); None = don't care (the code panics on arithmetic underflow there)
HELPER_SPECS = {
    'get_match_chunk': ('[buffer_pos - mat.len(), buffer_pos)', ('POS', 'MLEN'),
                        lambda e: None if e['MLEN'] > e['POS'] else _rng(e['POS'] - e['MLEN'], e['POS'])),
    'get_non_match_chunk': ('Some([reported, buffer_pos - mat.len())) iff buffer_pos - mat.len() > reported, else None', ('POS', 'MLEN', 'REP'),
                            lambda e: None if e['MLEN'] > e['POS'] else (_some(_rng(e['REP'], e['POS'] - e['MLEN'])) if e['POS'] - e['MLEN'] > e['REP'] else _NONE)),
    'get_pre_roll_non_match_chunk': ('Some([reported, len (-) min)) iff reported < len (-) min, else None (saturating)', ('LEN', 'MIN', 'REP'),
                                     lambda e: _some(_rng(e['REP'], max(0, e['LEN'] - e['MIN']))) if e['REP'] < max(0, e['LEN'] - e['MIN']) else _NONE),
    'get_eof_non_match_chunk': ('Some([reported, len)) iff reported < len, else None', ('REP', 'LEN'),
                                lambda e: _some(_rng(e['REP'], e['LEN'])) if e['REP'] < e['LEN'] else _NONE),
}
ATOMS = {'LEN': LEN, 'MIN': MIN, 'POS': POS, 'REP': REP, 'ABS': ABS, 'MLEN': MLEN}


def stream_atoms(env):
    def a(t):
        s = snorm(t)
        for k, v in ATOMS.items():
            if s == v:
                return env.get(k)
        return None
    return a


_ROW_ATOMS = {'self.buffer_pos': 'POS', 'self.buffer_reported_pos': 'REP', 'self.absolute_pos': 'ABS', 'self.buf.min': 'MIN',
              'util::buffer::Buffer::min_buffer_len(self.buf)': 'MIN', 'core::slice::len(util::buffer::Buffer::buffer(self.buf))': 'LEN'}


def _rows_eval(cx, b, env):
    """the same evaluation on the function's path summaries: the one row selected by the assignment gives the result"""
    from acverif.sym import summarize, cstr, teval, row_holds

    def atoms(t):
        s = cstr(t)
        if s in _ROW_ATOMS:
            return env.get(_ROW_ATOMS[s])
        if re.match(r'util::search::Match::len\(', s):
            return env.get('MLEN')
        return None
    rows = [r for r in summarize(cx.facts, b) if r.end == 'return']
    try:
        sel = [r for r in rows if row_holds(r, atoms)]
    except (KeyError, TypeError, IndexError) as e:
        raise Unsupported(str(e))
    if len(sel) != 1:
        raise Unsupported('%d summary rows selected' % len(sel))
    return teval(sel[0].ret, atoms)


@only(STREAM_CONFIGS)
def r08_1(cx):
    import itertools
    for name, (descr, syms, spec) in HELPER_SPECS.items():
        b = cx.body(SCI + name)
        bad = None
        n = 0
        try:
            for vals in itertools.product(range(0, 6), repeat=len(syms)):
                env = dict(zip(syms, vals))
                want = spec(env)
                if want is None:
                    continue
                n += 1
                try:
                    try:
                        got = Eval(b, stream_atoms(env)).run()
                    except Unsupported:
                        got = _rows_eval(cx, b, env)     # spellings the block evaluator does not know (combinators, closures)
                except EvalPanic as e:
                    got = ('panic', str(e))
                if got != want:
                    bad = (env, got, want)
                    break
        except Unsupported as e:
            bad = ('the helper uses a construct outside comparison/affine arithmetic: %s' % e, None, None)
        cx.report('R08.1', b, 'contract', bad is None, ('%s = %s (decided on all %d assignments of %s in 0..5, which cover every relative ordering)' % (name, descr, n, '/'.join(syms))) if bad is None else
                  '%s does not compute %s: for %s it yields %s, specified %s' % (name, descr, bad[0], bad[1], bad[2]))
    if cx.has(SCI + 'get_match'):
        b = cx.body(SCI + 'get_match')
        t = snorm(expand_vars(b, b.def_term(0) or b.local_term(0)))
        ok = is_call(t, r'^automaton::get_match$') and len(t[2]) == 4 and sf(peel(t[2][0]), 'aut') and sf(t[2][1], 'sid') and t[2][2] == ('c', 0) and t[2][3] == ABS
        cx.report('R08.1', b, 'get_match', ok, 'reported match = get_match(aut, sid, 0, absolute_pos)' if ok else 'get_match helper returns %s' % tstr(t, 200))
    else:
        # the one-line method no longer exists: R08.2 requires get_match(aut, sid, 0, absolute_pos) itself at every chunk site
        cx.report('R08.1', cx.body(NEXT), 'get_match', True, 'no separate get_match method; the chunk sites are checked against get_match(aut, sid, 0, absolute_pos) directly (R08.2)')


def chunk_sites(b):
    """Assignments `_0 = Some(Ok(StreamChunk::V{..}))` in next(): [(block, idx, variant, fields)]"""
    out = []
    for bi, si, pl, st in b.stores():
        if si == 'term' or pl['l'] != 0 or pl['pr']:
            continue
        t = b.rvalue_term(st['r'], 0, bi)
        if is_agg(t, r'Option$', 'Some') and is_agg(t[3]['0'], r'Result$', 'Ok') and is_agg(t[3]['0'][3]['0'], r'automaton::StreamChunk$'):
            ch = t[3]['0'][3]['0']
            out.append((bi, si, ch[2], ch[3]))
    return out


def _is_cur_match(a):
    """the match at the current position: self.get_match(), or what that method is: get_match(self.aut, self.sid, 0, self.absolute_pos)"""
    a = peel_all(a)
    if is_call(a, r'StreamChunkIter::get_match$') and is_var(peel(a[2][0]), 'self'):
        return True
    return (is_call(a, r'^automaton::get_match$') and len(a[2]) == 4 and sf(peel_all(a[2][0]), 'aut') and sf(peel_all(a[2][1]), 'sid')
            and peel_all(a[2][2]) == ('c', 0) and sf(peel_all(a[2][3]), 'absolute_pos'))


@only(STREAM_CONFIGS)
def r08_2(cx):
    """Every chunk that next() returns takes its range from one of the four range helpers evaluated for the current state, and
    that range is accounted in buffer_reported_pos exactly once, after the helper ran: one statement on the summaries of one pass
    through the outer loop (each way to a return, with the calls and stores in order)."""
    from acverif.sym import loop_rows, canon, cstr
    b = cx.body(NEXT)
    loops = b.loops()
    if not loops:
        cx.bad('R08.2', b, 'loop', 'the chunk loop of next() was not found')
        return
    outer = max(loops, key=lambda h: len(loops[h]))
    rows = [r for r in loop_rows(cx.facts, b, outer) if r.end != 'diverge']
    REPF = 'self.buffer_reported_pos'
    GETTERS = ('get_non_match_chunk', 'get_pre_roll_non_match_chunk', 'get_eof_non_match_chunk')
    why = {}
    seen = {}

    def bad(key, msg):
        why.setdefault(key, msg)

    def cur_match(t):
        t = canon(t)
        return (is_call(t, r'StreamChunkIter::get_match$') and cstr(t[2][0]) == 'self') or \
               (is_call(t, r'^automaton::get_match$') and [cstr(x) for x in t[2]] == ['self.aut', 'self.sid', '0', 'self.absolute_pos'])

    def rlen_of(t):
        t = canon(t)
        if is_call(t, r'(ExactSizeIterator|Range(::<.*>)?|RangeInclusive)::len$') and len(t[2]) == 1:
            return cstr(t[2][0])
        if t[0] == 'op' and t[1] == 'Sub' and t[2][0] == 'f' and t[3][0] == 'f' and t[2][2] == 'end' and t[3][2] == 'start' and cstr(t[2][1]) == cstr(t[3][1]):
            return cstr(t[2][1])
        return None
    for r in rows:
        eff = []
        for e in r.effects:
            if e[0] == 'call':
                eff.append(('call', canon(e[1])))
            elif e[0] == 'store' and cstr(canon(e[1])) == REPF:
                eff.append(('rep', canon(e[2])))
        reps = [(i, v) for i, (k, v) in enumerate(eff) if k == 'rep']
        ret = canon(r.ret) if (r.end == 'return' and r.ret is not None) else None
        chunk = None
        if ret is not None and is_agg(ret, r'Option$', 'Some') and is_agg(ret[3]['0'], r'Result$', 'Ok') and is_agg(ret[3]['0'][3]['0'], r'automaton::StreamChunk$'):
            chunk = ret[3]['0'][3]['0']
        # the roll adjustment: reported -= len - min, directly before the roll
        acc = None
        prev = REPF
        for i, v in reps:
            isroll = v[0] == 'op' and v[1] == 'Sub' and cstr(v[2]) == REPF and cstr(v[3]) == 'Sub(core::slice::len(util::buffer::Buffer::buffer(self.buf)), self.buf.min)'
            if isroll:
                after = [c for k, c in eff[i + 1:] if k == 'call' and re.search(r'Buffer::(roll|fill)$|StreamChunkIter::get_', short(c[1]))]
                if not after or not is_call(after[0], r'Buffer::roll$'):
                    bad('reported-writers', 'the roll adjustment of buffer_reported_pos is not followed by buf.roll()')
                prev = cstr(v)
                continue
            if acc is not None:
                bad('reported-writers', 'buffer_reported_pos is advanced twice on one way through next()')
            acc = (i, v, prev)
            prev = cstr(v)
        rolls = [i for i, (k, c) in enumerate(eff) if k == 'call' and is_call(c, r'Buffer::roll$')]
        for i in rolls:
            if not any(j < i and eff[j][0] == 'rep' for j in range(len(eff))):
                bad('reported-writers', 'buf.roll() without the adjustment reported -= len - min')
        if chunk is None:
            if acc is not None:
                bad('reported-writers', 'buffer_reported_pos is advanced on a way through next() that returns no chunk')
            continue
        variant = chunk[2]
        fields = chunk[3]
        bt = canon(fields.get('bytes'))
        while bt[0] in ('ref', 'deref') and isinstance(bt[-1], tuple):
            bt = bt[-1]
        if not (is_call(bt, r'core::ops::Index::index$') and cstr(bt[2][0]) == 'util::buffer::Buffer::buffer(self.buf)'):
            bad('site:%s/bytes' % variant, 'chunk bytes are %s, expected buffer()[range]' % tstr(bt, 160))
            continue
        R = bt[2][1]
        hc = None
        if R[0] == 'f' and R[1][0] == 'dc' and R[1][2] == 'Some' and is_call(R[1][1], r'StreamChunkIter::get_\w+$'):
            hc = R[1][1]
        elif is_call(R, r'StreamChunkIter::get_match_chunk$'):
            hc = R
        helper = short(hc[1]).rsplit('::', 1)[1] if hc is not None else None
        good = hc is not None and ((variant == 'NonMatch' and helper in GETTERS) or (variant == 'Match' and helper == 'get_match_chunk'))
        if good:
            good = cstr(hc[2][0]) == 'self' and all(cur_match(a) for a in hc[2][1:])
        if good and variant == 'NonMatch':
            d = r.cond(lambda c: canon(c)[0] == 'discr' and cstr(canon(c)[1]) == cstr(hc))
            good = d == 1
        key = helper if good else variant
        if not good:
            bad('site:%s/range' % key, '%s chunk takes its range from %s' % (variant, tstr(R, 160)))
            seen[None] = seen.get(None, 0) + 1
            continue
        seen[helper] = seen.get(helper, 0) + 1
        # accounting
        hidx = [i for i, (k, c) in enumerate(eff) if k == 'call' and cstr(c) == cstr(hc)]
        okacc = acc is not None and bool(hidx) and acc[0] > hidx[-1] and acc[1][0] == 'op' and acc[1][1] == 'Add' and \
            ((rlen_of(acc[1][2]) == cstr(R) and cstr(acc[1][3]) == REPF) or (rlen_of(acc[1][3]) == cstr(R) and cstr(acc[1][2]) == REPF))
        if okacc:
            later = [c for k, c in eff[acc[0] + 1:] if k == 'call' and re.search(r'Buffer::(roll|fill)$', short(c[1]))]
            okacc = not later
        if not okacc:
            bad('site:%s/accounting' % helper, 'the returned range is not accounted in buffer_reported_pos exactly once (reported += range.len(), after the helper ran)')
        if variant == 'Match':
            if not (cur_match(fields.get('mat')) and (len(hc[2]) < 2 or cstr(canon(fields.get('mat'))) == cstr(hc[2][1]))):
                bad('site:Match/mat', 'Match chunk carries %s' % tstr(canon(fields.get('mat')), 100))
            nm = r.cond(lambda c: canon(c)[0] == 'discr' and is_call(canon(c)[1], r'StreamChunkIter::get_non_match_chunk$') and cstr(canon(c)[1][2][0]) == 'self' and all(cur_match(a) for a in canon(c)[1][2][1:]))
            if nm is None or nm == 1:
                bad('site:Match/after-non-match', 'the match chunk can be emitted while unreported non-match bytes precede it')
    for h in GETTERS + ('get_match_chunk',):
        v = 'NonMatch' if h != 'get_match_chunk' else 'Match'
        k1 = 'site:%s/range' % h
        cx.report('R08.2', b, k1, k1 not in why and seen.get(h, 0) >= 1, '%s chunk range comes from %s, evaluated for the current state' % (v, h) if (k1 not in why and seen.get(h, 0) >= 1) else why.get(k1, 'no return uses %s' % h))
        k2 = 'site:%s/accounting' % h
        cx.report('R08.2', b, k2, k2 not in why, 'buffer_reported_pos += range.len() with the same range, once, after the helper ran' if k2 not in why else why[k2])
    for k, okmsg in (('site:Match/mat', 'Match chunk carries mat = self.get_match(), the match its range was computed for'),
                     ('site:Match/after-non-match', 'the match chunk is emitted only when get_non_match_chunk found no non-match bytes before it')):
        cx.report('R08.2', b, k, k not in why, okmsg if k not in why else why[k])
    foreign = [k for k in why if k.startswith('site:NonMatch/') or k.startswith('site:Match/range') or k.endswith('/bytes')]
    cx.report('R08.2', b, 'sites:foreign', not foreign, 'every chunk return takes its range from a chunk helper' if not foreign else '; '.join(why[k] for k in foreign)[:300])
    cx.report('R08.2', b, 'reported-writers', 'reported-writers' not in why, 'buffer_reported_pos is written only by the accounted returns and by the roll adjustment reported -= len - min before buf.roll()' if 'reported-writers' not in why else why['reported-writers'])


@only(STREAM_CONFIGS)
def r08_3(cx):
    b = cx.body('automaton::Automaton::try_stream_replace_all_with')
    SELF, RDR, WTR, RW = (param_at(b, i) for i in (1, 2, 3, 4))
    nx = b.calls(r'StreamChunkIter::next$')
    ok = len(nx) == 1
    cx.report('R08.3', b, 'driver-source', ok, 'the driver draws chunks from one StreamChunkIter::next call site' if ok else '%d next() call sites' % len(nx))
    # it = StreamChunkIter::new(self, rdr) (through map_err and ?)
    news = b.calls(r'StreamChunkIter::new$')
    okn = False
    if len(news) == 1:
        ct = b.call_term(*news[0])
        okn = peel(ct[2][0]) == SELF and peel(ct[2][1]) == RDR
    cx.report('R08.3', b, 'driver-iter', okn, 'iterator is StreamChunkIter::new(self, rdr)' if okn else 'iterator is not built from (self, rdr)')

    def chunk_of(x, variant, field):
        """x = (<chunk> as variant).field where <chunk> is the payload of the next() call: returns the chunk term"""
        x = peel_all(expand_vars(b, x))
        if not (x[0] == 'f' and x[2] == field and x[1][0] == 'dc' and x[1][2] == variant):
            return None
        y = x[1][1]
        for _ in range(12):
            y = peel_all(y)
            if y[0] == 'f' and y[1][0] == 'dc':
                y = y[1][1]
            elif is_call(y, r'Try::branch$'):
                y = y[2][0]
            else:
                break
        return x[1][1] if is_call(y, r'StreamChunkIter::next$') else None
    w = b.calls(r'std::io::Write::write_all$')
    okw = False
    if len(w) == 1:
        ct = b.call_term(*w[0])
        okw = peel_all(ct[2][0]) == WTR and chunk_of(ct[2][1], 'NonMatch', 'bytes') is not None
    cx.report('R08.3', b, 'non-match-write', okw, 'NonMatch bytes go to wtr.write_all unchanged' if okw else 'NonMatch chunk is not written verbatim with write_all')
    c = b.calls(r'core::ops::FnMut::call_mut$')
    okc = False
    if len(c) == 1:
        ct = b.call_term(*c[0])
        tup = ct[2][1]
        if is_agg(tup, 'tuple') and len(tup[3]) == 3:
            a = tup[3]
            m, by = chunk_of(a[0], 'Match', 'mat'), chunk_of(a[1], 'Match', 'bytes')
            okc = peel_all(ct[2][0]) == RW and m is not None and m == by and peel_all(a[2]) == WTR
    cx.report('R08.3', b, 'match-closure', okc, 'Match chunk hands (&mat, bytes, &mut wtr) of the same chunk to the closure' if okc else 'closure is not called with (mat, bytes, wtr) of the Match chunk')
    # each chunk kind reaches exactly its own sink: dispatch on discr(chunk)
    gs = enum_gates(b, r'^automaton::StreamChunk(<|$)')
    okd = False
    if gs and w and c:
        vidx = {v['name']: i for i, v in enumerate(cx.facts.adts['automaton::StreamChunk']['variants'])}
        header = nx[0][0] if nx else None

        def first_sink(edges):
            r = set()
            for e in edges:
                r |= b.reach(e[1], cut_blocks=[w[0][0], c[0][0]] + ([header] if header is not None else []))
            return (w[0][0] in r, c[0][0] in r)
        okd = all(first_sink(arm_edges(b, g, vidx['NonMatch'])) == (True, False) and first_sink(arm_edges(b, g, vidx['Match'])) == (False, True) for g in gs)
        # and no sink is reachable around the dispatch
        okd = okd and not reachable_without(b, [w[0][0], c[0][0]], [e for g in gs for v in vidx.values() for e in arm_edges(b, g, v)])
    cx.report('R08.3', b, 'dispatch', okd, 'NonMatch -> write_all only, Match -> closure only' if okd else 'chunk kinds are not dispatched to their own sinks')
    # table variant
    t = cx.body('automaton::Automaton::try_stream_replace_all')
    calls = t.calls(r'Automaton::try_stream_replace_all_with$')
    okt = False
    if len(calls) == 1:
        blk = calls[0][0]
        ct = t.call_term(*calls[0])
        okargs = all(peel_all(ct[2][i]) == param_at(t, i + 1) for i in (0, 1, 2)) and is_agg(ct[2][3], 'closure')
        RWT = param_at(t, 4)
        def lens(x):
            if not (isinstance(x, tuple) and x[0] == 'op' and x[1] in ('Eq', 'Ne')):
                return False
            sides = [t.local_term(s[2], expand=True) if is_var(s) else s for s in (x[2], x[3])]
            return any(is_call(s, r'core::slice::len$') and peel_all(s[2][0]) == RWT for s in sides) and any(is_call(s, r'Automaton::patterns_len$') for s in sides)
        g = bool_gates(t, lens)
        cut = []
        for gg in g:
            cut += gg[2] if gg[1][1] == 'Eq' else gg[3]
        okt = okargs and bool(g) and not reachable_without(t, [blk], cut)
    cx.report('R08.3', t, 'table-assert', okt, 'assert_eq!(replace_with.len(), patterns_len()) dominates; (rdr, wtr) passed through' if okt else 'table length assertion or argument pass-through missing')
    cl = cx.body('automaton::Automaton::try_stream_replace_all::{closure#0}')
    ws = cl.calls(r'std::io::Write::')
    okcl = False
    if len(ws) == 1 and ws[0][1]['callee']['name'] == 'write_all':
        ct = cl.call_term(*ws[0])
        d = peel(ct[2][0])
        v = peel(ct[2][1])
        okcl = (is_var(d) and d[2] == 4 and is_call(v, r'Index::index$') and peel(v[2][0])[0] == 'f' and peel(v[2][0])[2] == 'replace_with'
                and is_call(v[2][1], r'Match::pattern$') and is_var(peel(v[2][1][2][0])) and peel(v[2][1][2][0])[2] == 2)
        okcl = okcl and cl.local_term(0) == ct[:3] + (ct[3],)
    cx.report('R08.3', cl, 'table-closure', okcl, 'closure returns wtr.write_all(replace_with[mat.pattern()])' if okcl else 'closure does not write replace_with[mat.pattern()] with write_all and return its result')
    for name in ('try_stream_replace_all', 'try_stream_replace_all_with'):
        a = cx.body('ahocorasick::AhoCorasick::' + name)
        calls = a.calls(r'^automaton::Automaton::%s$' % name)
        ok = False
        if len(calls) == 1:
            ct = a.call_term(*calls[0])
            params = [('v', a.locals[i]['names'][0], i) for i in range(2, a.j['arg_count'] + 1)]
            d = calls[0][1]['dest']
            ok = [peel(x) for x in ct[2][1:]] == params and d['l'] == 0 and not d['pr']
        cx.report('R08.3', a, 'passthrough', ok, 'forwards (rdr, wtr, replace_with) unchanged and returns the result' if ok else 'arguments/result not passed through unchanged')


# ------------------------------------------------------------------------------------------------ C07
@only(STREAM_CONFIGS)
def r07_1(cx):
    new = cx.body('util::buffer::Buffer::new')
    argp = param_at(new, 1)
    bad = None
    n = 0
    try:
        for a in (0, 1, 2, 3, 7, 100, 8191, 8192, 8193, 65535, 65536, 65537, 131072, 1 << 20, (1 << 20) + 1, 1 << 24):
            n += 1
            got = Eval(new, lambda t0, a=a: a if t0 == argp else None).run()
            f = dict(got[3]) if isinstance(got, tuple) and got[0] == 'agg' else {}
            mn, end, buf = f.get('min'), f.get('end'), f.get('buf')
            if mn != max(1, a):
                bad = 'min = %s for argument %d (expected max(1, arg))' % (mn, a)
            elif end != 0:
                bad = 'end = %s (expected 0)' % (end,)
            elif not (isinstance(buf, tuple) and buf[0] == 'vec' and buf[1] == 0):
                bad = 'buf is not a zero-filled vector: %s' % (buf,)
            elif not (buf[2] > mn and buf[2] >= 2 * mn):
                bad = 'capacity %d for min %d: the buffer must be larger than (at least twice) the retained tail, otherwise a refill after a roll reads nothing or refills thrash' % (buf[2], mn)
            if bad:
                break
    except (Unsupported, EvalPanic) as e:
        bad = 'cannot evaluate Buffer::new: %s' % e
    cx.report('R07.1', new, 'new', bad is None, 'min = max(1, arg); end = 0; buf = vec![0; capacity] with capacity >= 2*min > min (decided on %d representative arguments around every constant of the function)' % n if bad is None else 'Buffer::new deviates: ' + bad)
    b = cx.body('util::buffer::Buffer::buffer')
    t = expand_vars(b, b.def_term(0) or b.local_term(0))
    ok = is_call(t, r'Index::index$') and sf(peel(t[2][0]), 'buf') and is_agg(t[2][1], r'RangeTo$') and sf(t[2][1][3]['end'], 'end')
    cx.report('R07.1', b, 'buffer', ok, 'buffer() = buf[..end]' if ok else 'buffer() = %s' % tstr(t, 120))
    b = cx.body('util::buffer::Buffer::min_buffer_len')
    t = expand_vars(b, b.def_term(0) or b.local_term(0))
    cx.report('R07.1', b, 'min_buffer_len', sf(t, 'min'), 'min_buffer_len() = min' if sf(t, 'min') else 'min_buffer_len() = %s' % tstr(t, 80))

    def is_free(x, fb):
        """buf[end..] as a mutable slice, directly or through the free_buffer helper"""
        x = peel(expand_vars(fb, x))
        if is_call(x, r'Buffer::free_buffer$') and is_var(peel(x[2][0]), 'self'):
            return True
        return is_call(x, r'IndexMut::index_mut$') and sf(peel(x[2][0]), 'buf') and is_agg(x[2][1], r'RangeFrom$') and sf(x[2][1][3]['start'], 'end')
    fbody = cx.facts.body('util::buffer::Buffer::free_buffer')
    if fbody is not None:
        t = expand_vars(fbody, fbody.def_term(0) or fbody.local_term(0))
        ok = is_call(t, r'IndexMut::index_mut$') and sf(peel(t[2][0]), 'buf') and is_agg(t[2][1], r'RangeFrom$') and sf(t[2][1][3]['start'], 'end')
        cx.report('R07.1', fbody, 'free_buffer', ok, 'free_buffer() = buf[end..]' if ok else 'free_buffer() = %s' % tstr(t, 120))
    # fill: decided on the summaries of one iteration of its read loop
    from acverif.sym import loop_rows, Sym, summarize, canon, cstr, teval, by_cstr
    f = cx.body('util::buffer::Buffer::fill')
    RDR = cstr(param_at(f, 2))
    why = dict.fromkeys(('read', 'end', 'other', 'result', 'eof'))
    floops = f.loops()
    if len(floops) != 1:
        why['read'] = 'fill has %d loops (expected the one read loop)' % len(floops)
    else:
        h = list(floops)[0]
        sym = Sym(cx.facts, f)
        mods, _ = sym.loop_mods(h)
        arr = [r for r in Sym(cx.facts, f, start=0, stop={h}).rows() if r.end == ('stop', h)]
        flags = [l for l in mods if f.locals[l]['ty'] == 'bool' and arr and all(r.env.get(l) == ('c', 0) for r in arr)]
        rows = [r for r in loop_rows(cx.facts, f, h) if r.end != 'diverge']
        FL = {cstr(sym.default_local(l)): l for l in flags}
        nz = 0
        for r in rows:
            rd = [canon(c) for c in r.calls(r'std::io::Read::read$')]
            if len(rd) != 1 or cstr(rd[0][2][0]) != RDR:
                why['read'] = '%d reads from the reader in one iteration' % len(rd)
                continue
            tgt = rd[0][2][1]
            free = (is_call(tgt, r'Buffer::free_buffer$') and cstr(tgt[2][0]) == 'self') or (is_call(tgt, r'IndexMut::index_mut$') and cstr(tgt[2][0]) == 'self.buf' and is_agg(tgt[2][1], r'RangeFrom$') and cstr(tgt[2][1][3]['start']) == 'self.end')
            if not free:
                why['read'] = 'the reader writes into %s (expected the free part buf[end..])' % tstr(tgt, 100)
            N = cstr(('f', ('dc', rd[0], 'Ok'), '0'))
            okv = r.cond(lambda c: c[0] == 'discr' and is_call(c[1], r'std::io::Read::read$'))
            stores = [(cstr(p), v) for p, v in r.stores()]
            if okv not in (0,):
                # the read failed: the error leaves the function, nothing is stored (R18.2 checks the edge itself)
                if stores:
                    why['other'] = 'fill stores %s on the error path' % [s for s, _ in stores]
                continue
            z = None
            for c, v in r.conds:
                cc = canon(c)
                if cc[0] == 'op' and cc[1] in ('Eq', 'Ne', 'Lt', 'Le') and N in (cstr(cc[2]), cstr(cc[3])):
                    try:
                        z0 = teval(cc, by_cstr({N: 0}))
                        z1 = teval(cc, by_cstr({N: 1}))
                    except (Unsupported, EvalPanic):
                        continue
                    if z0 != z1:
                        z = (bool(z0) == v)     # True: this path is the n == 0 case
            if z is None:
                why['eof'] = 'a path does not distinguish a zero-length read'
                continue
            if z:
                nz += 1
                if r.end != 'return':
                    why['eof'] = 'a zero-length read does not end fill'
                elif stores:
                    why['other'] = 'fill stores %s after a zero-length read' % [s for s, _ in stores]
                elif not (is_agg(r.ret, r'Result$', 'Ok') and cstr(r.ret[3]['0']) in FL):
                    why['result'] = 'after a zero-length read fill returns %s (expected Ok(whether any byte was read during this call))' % tstr(canon(r.ret), 80)
            else:
                ends = [v for s, v in stores if s == 'self.end']
                oth = [s for s, v in stores if s != 'self.end']
                try:
                    if len(ends) != 1 or teval(ends[0], by_cstr({'self.end': 10, N: 3})) != 13:
                        why['end'] = 'end is not advanced by exactly the reader\'s return value'
                except (Unsupported, EvalPanic):
                    why['end'] = 'the update of end cannot be evaluated'
                if oth:
                    why['other'] = 'fill writes %s' % oth
                if r.end == 'return':
                    if not (is_agg(r.ret, r'Result$', 'Ok') and r.ret[3]['0'] == ('c', 1)):
                        why['result'] = 'with bytes read fill returns %s (expected Ok(true))' % tstr(canon(r.ret), 80)
                elif r.end == ('stop', h):
                    if not flags or any(r.env.get(l) != ('c', 1) for l in flags):
                        why['result'] = 'the any-byte-read flag is not set after a successful read'
        if nz == 0:
            why['eof'] = why['eof'] or 'no path handles a zero-length read'
        if not flags:
            why['result'] = why['result'] or 'no boolean carried across reads starts as false (the any-byte-read flag)'
    cx.report('R07.1', f, 'fill/read', why['read'] is None, 'reads into buf[end..] only' if why['read'] is None else why['read'])
    cx.report('R07.1', f, 'fill/end', why['end'] is None, 'the only store to end adds exactly the reader\'s return value' if why['end'] is None else why['end'])
    cx.report('R07.1', f, 'fill/other-stores', why['other'] is None, 'fill writes no other field' if why['other'] is None else why['other'])
    cx.report('R07.1', f, 'fill/result', why['result'] is None, 'returns Ok(flag)/Ok(true); the flag is false only while no byte has been read' if why['result'] is None else why['result'])
    cx.report('R07.1', f, 'fill/eof', why['eof'] is None, 'a zero-length read ends fill without another read' if why['eof'] is None else why['eof'])
    # roll
    r_ = cx.body('util::buffer::Buffer::roll')
    rrows = summarize(cx.facts, r_)
    okrows = [x for x in rrows if x.end == 'return']
    whyc = whye = whyo = None
    if not okrows:
        whyc = 'roll never returns'
    for x in okrows:
        cw = [canon(c) for c in x.calls(r'core::slice::copy_within$')]
        at = by_cstr({'self.end': 20, 'self.min': 6})
        try:
            if len(cw) != 1 or cstr(cw[0][2][0]) != 'self.buf' or not is_agg(cw[0][2][1], r'core::ops::Range$') or teval(cw[0][2][1][3]['start'], at) != 14 or teval(cw[0][2][1][3]['end'], at) != 20 or teval(cw[0][2][2], at) != 0:
                whyc = 'roll copies a different window than buf[end-min .. end) to offset 0'
            st = [(cstr(p), v) for p, v in x.stores()]
            es = [v for s, v in st if s == 'self.end']
            if len(es) != 1 or teval(es[0], at) != 6 or _has_upd(es[0]):
                whye = 'roll does not set end = min'
            elif cw and [e for e in x.effects if e[0] in ('call', 'store')].index(('store', *[e for e in x.effects if e[0] == 'store' and cstr(e[1]) == 'self.end'][0][1:])) < [i for i, e in enumerate([e for e in x.effects if e[0] in ('call', 'store')]) if e[0] == 'call' and short(e[1][1]).endswith('copy_within')][0]:
                whye = 'end is reset before the copy'
            if [s for s, v in st if s != 'self.end']:
                whyo = 'roll writes %s' % [s for s, v in st if s != 'self.end']
        except (Unsupported, EvalPanic) as e:
            whyc = 'cannot evaluate: %s' % e
    cx.report('R07.1', r_, 'roll/copy', whyc is None, 'roll copies buf[end-min .. end) to offset 0' if whyc is None else whyc)
    cx.report('R07.1', r_, 'roll/end', whye is None, 'roll sets end = min after the copy' if whye is None else whye)
    cx.report('R07.1', r_, 'roll/other-stores', whyo is None, 'roll writes no other field' if whyo is None else whyo)
    # who may write Buffer fields
    for p, ob in cx.facts.bodies.items():
        if p.startswith('util::buffer::Buffer::'):
            continue
        for bi, si, tt, val, st in ob.field_stores():
            if tt[0] == 'f' and tt[2] in ('end', 'min') and st.get('p', st.get('dest', {})).get('pr') and any(isinstance(x, dict) and x.get('of') == 'util::buffer::Buffer' for x in st.get('p', st.get('dest'))['pr']):
                cx.bad('R07.1', ob, 'foreign-buffer-write', 'Buffer.%s written outside Buffer\'s own methods' % tt[2], line_of(ob, bi, si))


def eq_zero_of_read(f, c):
    """Is condition c a test of the reader's byte count against zero? Returns True for `n == 0`, False for `n != 0` / `n > 0` /
    `0 < n`, None otherwise."""
    if not (isinstance(c, tuple) and c[0] == 'op' and c[1] in ('Eq', 'Ne', 'Gt', 'Lt', 'Ge', 'Le')):
        return None
    a, b0 = c[2], c[3]
    def is_read(x):
        x = peel_all(x)
        while x[0] == 'f' and x[1][0] == 'dc':
            x = peel_all(x[1][1])
            if is_call(x, r'Try::branch$'):
                x = peel_all(x[2][0])
        return is_call(x, r'std::io::Read::read$')
    if is_read(a) and b0 == ('c', 0):
        return {'Eq': True, 'Ne': False, 'Gt': False, 'Le': True}.get(c[1])
    if is_read(b0) and a == ('c', 0):
        return {'Eq': True, 'Ne': False, 'Lt': False, 'Ge': True}.get(c[1])
    if is_read(a) and b0 == ('c', 1):
        return {'Lt': True, 'Ge': False}.get(c[1])
    return None


@only(STREAM_CONFIGS)
def r07_2(cx):
    b = cx.body(SCI + 'new')
    n = 0
    for bi, si, pl, st in b.stores():
        r = st.get('r') if si != 'term' else None
        if r and r.get('k') == 'agg' and r.get('adt') == 'automaton::StreamChunkIter':
            n += 1
            t = expand_vars(b, b.rvalue_term(r, 0, bi))
            f = t[3]
            aut = peel(f['aut'])
            okb = is_call(f['buf'], r'Buffer::new$') and is_call(f['buf'][2][0], r'Automaton::max_pattern_len$') and peel(f['buf'][2][0][2][0]) == aut
            cx.report('R07.2', b, 'buffer-size', okb, 'roll buffer is sized from aut.max_pattern_len()' if okb else 'buffer sized from %s' % tstr(f['buf'], 120), line_of(b, bi, si))
            from acverif.rl import unwrapped
            ss = unwrapped(b, f['start'])
            st_ok = is_call(ss, r'Automaton::start_state$') and peel(ss[2][0]) == aut and is_agg(ss[2][1], r'Anchored$', 'No') and unwrapped(b, f['sid']) == ss
            cx.report('R07.2', b, 'start', st_ok, 'start = sid = aut.start_state(Anchored::No)?' if st_ok else 'start/sid = %s / %s' % (tstr(f['start'], 80), tstr(f['sid'], 80)), line_of(b, bi, si))
            z = all(f[k] == ('c', 0) for k in ('absolute_pos', 'buffer_pos', 'buffer_reported_pos'))
            cx.report('R07.2', b, 'positions', z, 'all positions start at 0' if z else 'positions do not start at 0', line_of(b, bi, si))
            okr = is_var(peel(f['rdr']), 'rdr') and is_var(aut, 'aut')
            cx.report('R07.2', b, 'reader', okr, 'aut and rdr are the constructor arguments' if okr else 'aut/rdr are not the constructor arguments', line_of(b, bi, si))
    cx.floor('R07.2', 'StreamChunkIter construction sites', n, 1)


def scan_parts(b):
    ns = b.calls(r'Automaton::next_state$')
    return ns


@only(STREAM_CONFIGS)
def r07_3(cx):
    b = cx.body(NEXT)
    ns = b.calls(r'Automaton::next_state$')
    if len(ns) != 1:
        cx.bad('R07.3', b, 'next_state', '%d next_state call sites (expected 1)' % len(ns))
        return
    nb, nt = ns[0]
    ct = b.call_term(nb, nt)
    a = ct[2]
    byte = peel(a[3])
    bdef = b.local_term(byte[2], expand=True) if is_var(byte) else byte
    okb = bdef[0] == 'f' and bdef[1][0] == 'dc' and bdef[1][2] == 'Some' and is_call(bdef[1][1], r'Iterator::next$')
    itsrc = None
    if okb:
        it = bdef[1][1][2][0]
        itsrc = expand_vars(b, b.local_term(it[2], expand=True)) if is_var(it) else it
        x = peel(itsrc)
        okb = is_call(x, r'core::slice::iter$')
        if okb:
            ix = peel(x[2][0])
            okb = (is_call(ix, r'Index::index$') and is_call(peel(ix[2][0]), r'Buffer::buffer$') and sf(peel(ix[2][0])[2][0], 'buf')
                   and is_agg(ix[2][1], r'RangeFrom$') and sf(ix[2][1][3]['start'], 'buffer_pos'))
    oka = sf(peel(a[0]), 'aut') and is_agg(a[1], r'Anchored$', 'No') and sf(a[2], 'sid') and okb
    cx.report('R07.3', b, 'step', oka, 'one next_state(aut, Anchored::No, self.sid, byte) per byte of buffer()[buffer_pos..]' if oka else 'scan step is %s over %s' % (tstr(ct, 200), tstr(itsrc, 200) if itsrc else '?'), line_of(b, nb))
    sid_st = [(bi, si, val) for bi, si, tt, val, st in b.field_stores() if sf(tt, 'sid')]
    scan_store = [x for x in sid_st if is_call(x[2], r'Automaton::next_state$')]
    reset = [x for x in sid_st if sf(x[2], 'start')]
    okst = len(scan_store) == 1 and len(reset) == 1 and len(sid_st) == 2
    cx.report('R07.4', b, 'sid-writers', okst, 'self.sid is written only by the scan step and by the reset to self.start' if okst else 'stores to self.sid: %s' % [tstr(v, 80) for _, _, v in sid_st])
    abs_st = [(bi, si, val) for bi, si, tt, val, st in b.field_stores() if sf(tt, 'absolute_pos')]
    oka2 = len(abs_st) == 1 and affine_str(snorm(abs_st[0][2])) == affine_str(('op', 'Add', ABS, ('c', 1)))
    cx.report('R07.4', b, 'abs-writers', oka2, 'absolute_pos is written only as += 1' if oka2 else 'stores to absolute_pos: %s' % [tstr(snorm(v), 80) for _, _, v in abs_st])
    start_w = [tt for bi, si, tt, val, st in b.field_stores() if sf(tt, 'start') or sf(tt, 'aut')]
    cx.report('R07.4', b, 'start-stable', not start_w, 'start and aut are never reassigned' if not start_w else 'start/aut reassigned')
    if not (okst and oka2):
        return
    # pairing within the inner loop
    loops = b.loops()
    inner = [h for h, blks in loops.items() if nb in blks]
    inner.sort(key=lambda h: len(loops[h]))
    if not inner:
        cx.bad('R07.3', b, 'loop', 'next_state is not inside a loop')
        return
    h = inner[0]
    body_blks = loops[h]
    ab = abs_st[0][0]
    sb = scan_store[0][0]
    ok1 = ab in body_blks and sb in body_blks
    # from the step, every path to the header or out of the loop passes the sid store and the += 1
    exits = {s for x in body_blks for s in b.succ(x) if s not in body_blks}
    r1 = b.reach(nb, cut_blocks=[ab]) - {nb}
    r2 = b.reach(nb, cut_blocks=[sb]) - {nb}
    ok2 = not ((exits | {h}) & (r1 - {ab})) and not ((exits | {h}) & (r2 - {sb}))
    # and the += 1 happens once per step: no path from ab back to ab without passing nb
    ok3 = ab not in b.reach_after(ab, cut_blocks=[nb])
    cx.report('R07.3', b, 'pairing', ok1 and ok2 and ok3, 'each step stores the new state to self.sid and advances absolute_pos by exactly 1' if ok1 and ok2 and ok3 else 'a scan step can skip the sid store or the position update (or repeat it)')
    # loop exits: only iterator exhaustion or a match state
    exit_edges = [(x, s) for x in body_blks for s in b.succ(x) if s not in body_blks]
    okx = True
    for x, s in exit_edges:
        sc = b.switch_cond(x)
        good = False
        if sc and sc[0] == 'int' and sc[1][0] == 'discr' and is_call(sc[1][1], r'Iterator::next$'):
            good = True
        if sc and sc[0] == 'bool' and is_call(sc[1], r'Automaton::is_match$') and sf(sc[1][2][1], 'sid') and s in sc[2]:
            good = True
        okx = okx and good
    cx.report('R07.3', b, 'exits', okx and len(exit_edges) >= 2, 'the scan leaves only at the end of the buffered bytes or on a match state' if okx else 'the scan loop has another exit')
    # buffer_pos update after the loop
    pos_st = [(bi, si, val) for bi, si, tt, val, st in b.field_stores() if sf(tt, 'buffer_pos')]
    after = [x for x in pos_st if x[0] not in body_blks and x[0] in b.reach(h)]
    okp = False
    why = ''
    cand = [x for x in after if 'ABS' in tstr(snorm(x[2]))]
    if len(cand) == 1:
        v = snorm(cand[0][2])
        # POS + (ABS - S) where S is a variable that captured absolute_pos before the scan loop
        okstart = False
        if v[0] == 'op' and v[1] == 'Add' and v[2] == POS and v[3][0] == 'op' and v[3][1] == 'Sub' and v[3][2] == ABS and is_var(v[3][3]):
            S = v[3][3]
            ds = b.defs().get(S[2], [])
            okstart = (len(ds) == 1 and ds[0][2] == 'assign' and sf(b.rvalue_term(ds[0][3]['r'], 0, ds[0][0]), 'absolute_pos')
                       and ds[0][0] not in body_blks and b.dominates(ds[0][0], h))
        okall = all(must_pass(b, [0] + b.return_blocks() + [b.calls(r'Automaton::is_match$')[0][0]], [cand[0][0]], src=s) or s == cand[0][0] for _, s in exit_edges)
        okp = okstart and okall
        why = 'start ok=%s all exits ok=%s value=%s' % (okstart, okall, tstr(v, 120))
    cx.report('R07.3', b, 'buffer_pos-advance', okp, 'buffer_pos += absolute_pos - (absolute_pos at scan start) on every exit of the scan' if okp else 'buffer_pos is not advanced by the number of bytes scanned: ' + why)


def _has_upd(t):
    return any(s[0] == 'upd' for s in subterms(t))


@only(STREAM_CONFIGS)
def r07_5(cx):
    """The refill block of StreamChunkIter::next, decided on the summaries of one iteration of its main loop."""
    from acverif.sym import loop_rows, canon, cstr, teval, by_cstr, row_consistent
    b = cx.body(NEXT)
    loops = b.loops()
    if not loops:
        cx.bad('R07.5', b, 'sites', 'StreamChunkIter::next has no main loop')
        return
    outer = max(loops, key=lambda h: len(loops[h]))
    rows = [r for r in loop_rows(cx.facts, b, outer) if r.end != 'diverge']
    LENS = 'core::slice::len(util::buffer::Buffer::buffer(self.buf))'
    MINS, POSS, REPS = 'self.buf.min', 'self.buffer_pos', 'self.buffer_reported_pos'

    def kind(e):
        if e[0] == 'call':
            n = short(e[1][1])
            for k in ('Buffer::roll', 'Buffer::fill'):
                if n.endswith(k):
                    return k.split('::')[1]
        return None
    refill = [r for r in rows if any(kind(e) for e in r.effects)]
    if not refill or not any(any(kind(e) == 'roll' for e in r.effects) for r in refill) or not any(any(kind(e) == 'fill' for e in r.effects) for r in refill):
        cx.bad('R07.5', b, 'sites', 'no iteration of StreamChunkIter::next rolls and fills the buffer')
        return
    why = dict.fromkeys(('fill-args', 'entry', 'match', 'preroll', 'guard', 'noskip', 'pos', 'rep', 'order', 'writers', 'scan'))
    # (buffer_pos, len, min, reported): reported above and below buffer_pos, so that an asserted invariant between the two
    # (e.g. a debug_assert!(reported <= pos) added by a refactoring) cannot make every grid point infeasible
    grid = [(p_, l_, m_, q_) for p_ in (0, 1, 2, 3, 9) for l_ in (0, 1, 2, 3) for m_ in (1, 2, 3) for q_ in (7, 0)]
    for r in refill:
        ev = [e for e in r.effects if e[0] in ('call', 'store')]
        kinds = [kind(e) for e in ev]
        fills = [canon(e[1]) for e in ev if kind(e) == 'fill']
        rolls = [i for i, k in enumerate(kinds) if k == 'roll']
        fi = [i for i, k in enumerate(kinds) if k == 'fill']
        if len(fills) != 1 or len(rolls) > 1:
            why['order'] = why['order'] or '%d fill / %d roll calls in one refill' % (len(fills), len(rolls))
            continue
        if [cstr(a) for a in fills[0][2]] != ['self.buf', 'self.rdr']:
            why['fill-args'] = 'fill is called as %s' % tstr(fills[0], 100)
        if r.cond(lambda c: is_call(canon(c), r'Automaton::is_match$') and cstr(canon(c)[2][1]) == 'self.sid') is not False:
            why['match'] = 'refill is reachable while self.sid is a match state'
        if r.cond(lambda c: c[0] == 'discr' and is_call(c[1], r'StreamChunkIter::get_pre_roll_non_match_chunk$')) in (1, None):
            why['preroll'] = 'roll/fill reachable while a pre-roll chunk is pending'
        if rolls and rolls[0] > fi[0]:
            why['order'] = 'roll does not precede fill'
        for p_, l_, m_, q_ in grid:
            at = by_cstr({POSS: p_, LENS: l_, MINS: m_, REPS: q_})
            try:
                cons = row_consistent(r, at)
            except Exception:
                cons = True
            if not cons:
                continue
            if p_ < l_:
                why['entry'] = 'the refill block can be entered while unscanned bytes remain (buffer_pos=%d < len=%d)' % (p_, l_)
            if rolls and l_ < m_:
                why['guard'] = 'roll() reachable with fewer than min bytes buffered (len=%d, min=%d)' % (l_, m_)
            if not rolls and l_ > m_:
                why['noskip'] = 'fill can be reached with an unrolled buffer holding more than min bytes (len=%d, min=%d): a full buffer makes a 0-byte read look like EOF' % (l_, m_)
            if rolls:
                before = ev[:rolls[0]]
                ps = [e for e in before if e[0] == 'store' and cstr(e[1]) == POSS]
                rs = [e for e in before if e[0] == 'store' and cstr(e[1]) == REPS]
                try:
                    if len(ps) != 1 or teval(ps[0][2], at) != m_:
                        why['pos'] = 'buffer_pos is not set to min before roll()'
                    if q_ - (l_ - m_) < 0:
                        pass        # not a reachable state: a pending pre-roll chunk would have been flushed first
                    elif len(rs) != 1 or teval(rs[0][2], at) != q_ - (l_ - m_) or _has_upd(rs[0][2]):
                        why['rep'] = 'buffer_reported_pos is not shifted by (pre-roll len) - min before roll()'
                except (Unsupported, EvalPanic):
                    why['rep'] = why['rep'] or 'the roll adjustment cannot be evaluated'
        # after Ok(true) the iteration goes on to the scan; nothing is returned
        ft = r.cond(lambda c: cstr(c) == '(util::buffer::Buffer::fill(self.buf, self.rdr) as Ok).0')
        if ft is True and not (r.end == ('stop', outer) and any(e[0] == 'loop' for e in r.effects)):
            why['scan'] = 'Ok(true) from fill does not fall through to the scan'
    # conversely: with nothing left to scan (and no pending match) the iteration must refill or flush, not scan
    for r in rows:
        if r in refill:
            continue
        if r.cond(lambda c: is_call(canon(c), r'Automaton::is_match$') and cstr(canon(c)[2][1]) == 'self.sid') is not False:
            continue
        if r.cond(lambda c: c[0] == 'discr' and is_call(c[1], r'StreamChunkIter::get_pre_roll_non_match_chunk$')) == 1:
            continue
        for p_, l_, m_, q_ in grid:
            if p_ < l_:
                continue
            try:
                cons = row_consistent(r, by_cstr({POSS: p_, LENS: l_, MINS: m_, REPS: q_}))
            except Exception:
                cons = True
            if cons:
                why['entry'] = why['entry'] or 'with buffer_pos=%d >= len=%d and no pending match the iteration neither refills nor flushes (the scan of an empty tail makes no progress)' % (p_, l_)
    # writers of buffer_pos over all iterations: the roll adjustment and the scan advance
    for r in rows:
        for e in r.effects:
            if e[0] == 'store' and cstr(e[1]) == POSS:
                v = canon(e[2])
                if cstr(v) == MINS:
                    continue
                try:
                    a = teval(e[2], lambda t0: 10 if cstr(t0) == POSS else (5 if (cstr(t0) == 'self.absolute_pos' and not _has_upd(t0)) else (8 if cstr(t0) == 'self.absolute_pos' else None)))
                except (Unsupported, EvalPanic):
                    a = None
                if a not in (10 + 3, 10 + 4, 10):
                    why['writers'] = 'buffer_pos is written with %s (allowed: min at a roll, += bytes scanned)' % tstr(v, 100)
    rep = lambda k, key, good, bad=None: cx.report(k, b, key, why[bad or key] is None, good if why[bad or key] is None else why[bad or key])
    cx.report('R07.5', b, 'fill-args', why['fill-args'] is None, 'fill(&mut self.rdr) on self.buf' if why['fill-args'] is None else why['fill-args'])
    cx.report('R07.5', b, 'entry', why['entry'] is None, 'roll/fill are reachable only when buffer_pos >= buffer().len()' if why['entry'] is None else why['entry'])
    cx.report('R18.4', b, 'match-before-refill', why['match'] is None, 'a pending match is emitted before any refill (refill only on the non-match edge)' if why['match'] is None else why['match'])
    cx.report('R18.4', b, 'pre-roll-before-refill', why['preroll'] is None, 'unreported bytes older than the retained tail are returned before roll/fill' if why['preroll'] is None else why['preroll'])
    cx.report('R07.5', b, 'roll-guard', why['guard'] is None, 'roll() only when buffer().len() >= min_buffer_len()' if why['guard'] is None else why['guard'])
    cx.report('R18.3', b, 'roll-before-fill', why['noskip'] is None, 'with len > min the buffer is rolled before fill, so fill always has free space and a 0 read is the reader\'s EOF' if why['noskip'] is None else why['noskip'])
    cx.report('R07.5', b, 'pos-adjust', why['pos'] is None, 'buffer_pos = min precedes roll()' if why['pos'] is None else why['pos'])
    cx.report('R07.5', b, 'reported-adjust', why['rep'] is None, 'buffer_reported_pos -= len - min precedes roll() (computed from the pre-roll length)' if why['rep'] is None else why['rep'])
    cx.report('R07.5', b, 'pos-writers', why['writers'] is None, 'buffer_pos is written only by the roll adjustment and the scan advance' if why['writers'] is None else why['writers'])
    cx.report('R07.5', b, 'roll-then-fill', why['order'] is None, 'fill follows roll within one refill' if why['order'] is None else why['order'])
    cx.report('R07.5', b, 'fill-true-scans', why['scan'] is None, 'Ok(true) from fill proceeds to the scan' if why['scan'] is None else why['scan'])


@only(STREAM_CONFIGS)
def r07_6(cx):
    cg = CallGraph(cx.facts)
    roots = [NEXT]
    R = cg.reachable(roots)
    bad = [p for p in R if re.search(r'prefilter::Prefilter::find_in|PrefilterI|automaton::try_find|packed::', p)]
    cx.report('R07.6', cx.body(NEXT), 'no-prefilter', not bad, 'the stream scan reaches neither a prefilter nor the in-memory search drivers (%d functions reachable)' % len(R) if not bad else 'stream scan reaches %s' % bad[:5])
    b = cx.body(NEXT)
    direct = [short(t['callee']['path']) for bi, t in b.calls(r'Prefilter|try_find|find_in')]
    cx.report('R07.6', b, 'no-prefilter-direct', not direct, 'no direct prefilter / try_find call in next()' if not direct else 'next() calls %s' % direct)


# ------------------------------------------------------------------------------------------------ C18
def io_calls(b):
    out = []
    for bi, t in b.calls():
        o = t['callee'].get('output', '')
        if 'std::io::Error' in o or 'std::io::error::Error' in o:
            out.append((bi, t))
    return out


def err_flow(b, bi, t):
    """Does the Err payload of the io::Result-valued call at block bi reach the function's return on every error path?
    Returns (ok, how)."""
    d = t['dest']
    if d['pr']:
        return False, 'result stored into a projection'
    D = d['l']
    if D == 0:
        return True, 'returned directly'
    # derived locals: copies / moves / wrappers carrying the whole result
    whole = {D}
    errp = set()     # locals holding the error payload (or a residual carrying it)
    changed = True
    live = b.live_blocks()
    conv = r'(core::ops::Try::branch|core::ops::FromResidual::from_residual|core::result::Result::map_err|core::convert::Into::into|core::convert::From::from)$'
    while changed:
        changed = False
        for x in live:
            blk = b.blocks[x]
            for st in blk['stmts']:
                if st['k'] != 'assign' or st['p']['pr']:
                    continue
                dst = st['p']['l']
                r = st['r']
                srcs = []
                if r['k'] == 'use' and r['a']['k'] in ('copy', 'move'):
                    srcs = [r['a']['p']]
                elif r['k'] == 'agg':
                    srcs = [o['p'] for o in r['ops'] if o['k'] in ('copy', 'move')]
                for sp in srcs:
                    l = sp['l']
                    prs = [p for p in sp['pr'] if p != '*']
                    names = [p.get('dc') for p in prs if isinstance(p, dict) and 'dc' in p]
                    if l in whole:
                        if not prs:
                            tgt = whole
                        elif 'Err' in names or 'Break' in names:
                            tgt = errp
                        elif names and all(n in ('Some',) for n in names):
                            tgt = whole
                        else:
                            continue
                    elif l in errp:
                        tgt = errp
                    else:
                        continue
                    if dst not in tgt:
                        tgt.add(dst)
                        changed = True
            tt = blk['term']
            if tt['k'] == 'call' and not tt['dest']['pr'] and re.search(conv, short(tt['callee'].get('path', ''))):
                for a in tt['args']:
                    if a['k'] in ('copy', 'move') and not [p for p in a['p']['pr'] if p != '*']:
                        l = a['p']['l']
                        dst = tt['dest']['l']
                        if l in whole and dst not in whole:
                            whole.add(dst)
                            changed = True
                        if l in errp and dst not in errp:
                            errp.add(dst)
                            changed = True
    if 0 in whole:
        return True, 'returned as the function result'
    # error edges: switches on discr of a whole-carrier; the Err/Break arm must lead to a return carrying errp
    err_edges = []
    for sb, sc in b.switches():
        if sc[0] != 'int':
            continue
        tdis = b.blocks[sb]['term']['discr']
        if tdis['k'] not in ('copy', 'move'):
            continue
        # the discriminant temp is defined by Discriminant(place)
        dl = tdis['p']['l']
        ds = b.defs().get(dl, [])
        if len(ds) != 1 or ds[0][2] != 'assign' or ds[0][3]['r']['k'] != 'discr':
            continue
        pl = ds[0][3]['r']['p']
        if pl['l'] not in whole:
            continue
        names = [p.get('dc') for p in pl['pr'] if isinstance(p, dict) and 'dc' in p]
        if names and not all(n == 'Some' for n in names):
            continue
        of = ds[0][3]['r']['of']
        if of.startswith('core::result::Result<') or of.startswith('core::ops::ControlFlow<'):
            for v, tg in sc[2]:
                if v == 1:
                    err_edges.append((sb, tg))
            # an `otherwise` arm that stands for Err
            listed = [v for v, tg in sc[2]]
            if 1 not in listed and b.blocks[sc[3]]['term']['k'] != 'unreachable':
                err_edges.append((sb, sc[3]))
    if not err_edges:
        return False, 'the result is never inspected for an error nor returned (dropped or converted away)'
    carriers = set()
    for x in live:
        for st in b.blocks[x]['stmts']:
            if st['k'] == 'assign' and st['p']['l'] == 0 and not st['p']['pr']:
                r = st['r']
                ops = []
                if r['k'] == 'use':
                    ops = [r['a']]
                elif r['k'] == 'agg':
                    ops = r['ops']
                for o in ops:
                    if o['k'] in ('copy', 'move') and o['p']['l'] in errp:
                        carriers.add(x)
        tt = b.blocks[x]['term']
        if tt['k'] == 'call' and tt['dest']['l'] == 0 and not tt['dest']['pr']:
            if any(a['k'] in ('copy', 'move') and a['p']['l'] in errp for a in tt['args']):
                carriers.add(x)
    rets = b.return_blocks()
    for sb, tg in err_edges:
        if not must_pass(b, rets, carriers, src=tg):
            return False, 'an error edge (bb%d -> bb%d) reaches return without handing the error to the caller' % (sb, tg)
        # and it does reach a return (no swallowing loop)
        if not set(rets) & b.reach(tg):
            return False, 'an error edge never returns'
    return True, 'error edge(s) %s hand the payload to the return value' % err_edges


STREAM_FNS = r"^(util::buffer::Buffer::|automaton::StreamChunkIter::|<automaton::StreamFindIter<.*Iterator>::next|automaton::Automaton::try_stream_|ahocorasick::AhoCorasick::try_stream_|ahocorasick::AhoCorasick::stream_find_iter|<ahocorasick::StreamFindIter<.*Iterator>::next)"


@only(STREAM_CONFIGS)
def r18_1(cx):
    n = 0
    for p, b in sorted(cx.facts.bodies.items()):
        calls = io_calls(b)
        if not calls:
            continue
        if not re.search(STREAM_FNS, p):
            cx.note('R18.1: io::Result-valued call outside the stream functions in %s' % p)
        for bi, t in calls:
            n += 1
            ok, how = err_flow(b, bi, t)
            nm = short(t['callee'].get('path', 'indirect')).rsplit('::', 1)[-1]
            idx = len([1 for x, tt in calls[:calls.index((bi, t))] if tt['callee'].get('path') == t['callee'].get('path')])
            cx.report('R18.1', b, '%s@%d' % (nm, idx), ok, 'io error of %s reaches the caller: %s' % (nm, how) if ok else 'io error of %s can be lost: %s' % (nm, how), line_of(b, bi))
    cx.floor('R18.1', 'io::Result-valued call sites', n, 10)
    # partial-write / lossy APIs are not used in the stream path
    for p, b in sorted(cx.facts.bodies.items()):
        if not re.search(STREAM_FNS, p):
            continue
        for bi, t in b.calls(r'^std::io::(Write::write$|Write::write_vectored$|Read::read_to_end$|Read::read_to_string$|Read::read_exact$|copy$|util::copy$|copy::copy$)|^std::io::copy|core::result::Result::(ok|unwrap_or|unwrap_or_default|unwrap_or_else|is_ok|is_err)$'):
            o = operand_ty(b, t['args'][0]) if t['args'] else ''
            nm = short(t['callee']['path'])
            if 'Write::write' in nm or 'Read::' in nm or 'std::io::Error' in o or 'io::copy' in nm or nm.endswith('::copy'):
                cx.bad('R18.1', b, 'lossy:' + nm.rsplit('::', 1)[-1], 'lossy io API %s in the stream path (partial write / discarded error)' % nm, line_of(b, bi))


@only(STREAM_CONFIGS)
def r18_2(cx):
    f = cx.body('util::buffer::Buffer::fill')
    g = result_gates(f, lambda x: is_call(x, r'std::io::Read::read$'))
    ok = bool(g)
    loop_hdrs = list(f.loops())
    for gb, x, cont, brk in g:
        for _, tg in brk:
            r = f.reach(tg, cut_blocks=loop_hdrs)
            if any(h in r for h in loop_hdrs):
                ok = False      # an error edge must leave the function, not retry
            for bi, si, tt, val, st in f.field_stores():
                if bi in r:
                    ok = False
    # also the general form: any error edge of read
    cx.report('R18.2', f, 'fill-error-edge', ok, 'no field of Buffer is written on the error edge of read()' if ok else 'Buffer state changes on (or is not separated from) the error edge of read()')
    b = cx.body(NEXT)
    fg = discr_gates(b, lambda x: is_call(x, r'Buffer::fill$'))
    ok = bool(fg)
    for gb, x, arms, oth in fg:
        tg = arms.get(1)
        if tg is None:
            ok = False
            continue
        r = b.reach(tg)
        for bi, si, tt, val, st in b.field_stores():
            if bi in r and is_var(tt[1] if tt[0] == 'f' else None, 'self'):
                ok = False
        for bi, t in b.calls(r'StreamChunkIter::get_|Buffer::(roll|fill)'):
            if bi in r:
                ok = False
    cx.report('R18.2', b, 'next-error-edge', ok, 'on the Err edge of fill nothing is written and no chunk is produced before returning the error' if ok else 'iterator state changes or chunks are emitted on the error edge of fill')


@only(STREAM_CONFIGS)
def r18_3(cx):
    b = cx.body(NEXT)
    nones = [bi for bi, si, pl, st in b.stores() if si != 'term' and pl['l'] == 0 and not pl['pr'] and is_agg(b.rvalue_term(st['r'], 0, bi), r'Option$', 'None')]
    cx.report('R18.3', b, 'none-sites', len(nones) == 1, 'exactly one `return None`' if len(nones) == 1 else '%d `None` return sites' % len(nones))
    if not nones:
        return
    # behind Ok(false) of fill
    bg = bool_gates(b, lambda y: y[0] == 'f' and y[2] == '0' and y[1][0] == 'dc' and y[1][2] == 'Ok' and is_call(y[1][1], r'Buffer::fill$'))
    cut = [e for g in bg for e in g[3]]
    ok1 = bool(bg) and not reachable_without(b, nones, cut)
    cx.report('R18.3', b, 'none-after-eof', ok1, 'None is returned only after fill reported Ok(false) (reader EOF)' if ok1 else 'None reachable without fill returning Ok(false)')
    eg = discr_gates(b, lambda x: is_call(x, r'StreamChunkIter::get_eof_non_match_chunk$'))
    cut2 = []
    for gb, x, arms, oth in eg:
        some = {tg for v, tg in arms.items() if v == 1}
        cut2 += [(gb, s) for s in b.succ(gb) if s not in some]
    ok2 = bool(eg) and not reachable_without(b, nones, cut2)
    cx.report('R18.3', b, 'none-after-flush', ok2, 'None is returned only after the remaining unreported bytes were flushed' if ok2 else 'None reachable while unreported bytes remain')
    # StreamFindIter::next: None only on None of the chunk iterator; Err passed through; loop otherwise
    s = cx.body("<automaton::StreamFindIter<'a, A, R> as core::iter::Iterator>::next")
    # on the path summaries (`?` on the Option, an explicit match and a combinator are the same): a path returns None exactly when
    # the chunk iterator returned None
    from acverif.sym import summarize as _sum, canon as _cn, cstr as _cs
    ok = True
    n_none = 0
    for r in _sum(cx.facts, s):
        if r.end != 'return':
            continue
        inner = None
        for c, v in r.conds:
            cc = _cn(c)
            if cc[0] == 'discr' and is_call(cc[1], r'StreamChunkIter::next$'):
                inner = 'none' if (v == 0 or (isinstance(v, tuple) and v[0] == 'not' and 1 in v[1])) else 'some'
        is_none = r.ret is not None and is_agg(_cn(r.ret), r'Option$', 'None')
        if is_none:
            n_none += 1
            if inner != 'none':
                ok = False
        elif inner != 'some':
            ok = False
    ok = ok and n_none >= 1
    cx.report('R18.3', s, 'find-iter-none', ok, 'StreamFindIter ends only when the chunk iterator ends' if ok else 'StreamFindIter can end early')
    mats = [s.rvalue_term(st['r'], 0, bi) for bi, si, pl, st in s.stores() if si != 'term' and pl['l'] == 0 and not pl['pr']]
    okm = any(is_agg(t, r'Option$', 'Some') and is_agg(t[3]['0'], r'Result$', 'Ok') and 'as Match' in tstr(expand_vars(s, t[3]['0'][3]['0'])) for t in mats)
    cx.report('R18.3', s, 'find-iter-match', okm, 'yields Ok(mat) of Match chunks' if okm else 'does not yield the Match chunk\'s mat')


PANIC_CALLS = r'^(core::panicking::(panic|panic_fmt|assert_failed|panic_display|unreachable_display)|core::option::Option::(expect|unwrap)|core::result::Result::(expect|unwrap|expect_err|unwrap_err)|core::option::expect_failed|core::option::unwrap_failed)'


@only(STREAM_CONFIGS)
def r18_5(cx):
    allowed = {
        'util::buffer::Buffer::roll': 2,   # checked_sub.expect + assert!(roll_end <= end); both guarded by the caller's len >= min
        'automaton::Automaton::try_stream_replace_all': 1,  # documented table-length assertion
    }
    total = 0
    from acverif.inline import vocab
    for p, b0 in sorted(cx.facts.bodies.items()):
        if not re.search(STREAM_FNS, p) or p.startswith('ahocorasick::AhoCorasick::stream_find_iter'):
            continue
        if p not in vocab() and b0.j.get('kind') != 'Closure':
            continue        # a helper introduced by a refactoring: its sites are counted where it is spliced in
        b = cx.body(p)
        sites = []
        for bi, t in b.calls(PANIC_CALLS):
            if t['loc'][2] and 'debug_assert' in '':
                continue
            # sites reachable only through a `const true/false` debug-assertion switch are debug_assert!s: list only
            sites.append(bi)
        real = []
        for bi in sites:
            # a debug_assert! is guarded by a switch on a constant; skip those
            guarded = False
            for sb, sc in b.switches():
                if sc[1][0] == 'c' and not reachable_without(b, [bi], [(sb, s) for s in b.succ(sb)]):
                    guarded = True
            if not guarded:
                real.append(bi)
        total += len(real)
        lim = allowed.get(p, 0)
        ok = len(real) <= lim
        if real or lim:
            cx.report('R18.5', b, 'panic-sites', ok, '%d panic site(s), within the reasoned inventory (%d)' % (len(real), lim) if ok else
                      '%d unconditional-build panic site(s) in the stream path, inventory allows %d (lines %s)' % (len(real), lim, [line_of(b, x) for x in real]))
    cx.report('R18.5', 'stream', 'inventory', True, '%d panic call sites in the stream path in total' % total)


RULES_C07 = [('R07.1', r07_1), ('R07.2', r07_2), ('R07.3', r07_3), ('R07.5', r07_5), ('R07.6', r07_6)]
RULES_C08 = [('R08.1', r08_1), ('R08.2', r08_2), ('R08.3', r08_3), ('R07.1', r07_1), ('R07.5', r07_5)]
RULES_C18 = [('R18.1', r18_1), ('R18.2', r18_2), ('R18.3', r18_3), ('R18.5', r18_5), ('R07.5', r07_5), ('R07.1', r07_1)]

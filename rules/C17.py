"""C17 — searches are pure (DESIGN.md §5 C17). Whole-crate structural facts; claimed as proof modulo trusted base."""
import os
from rules.teddy import r15_7
import re

from acverif.core import compile_control, VERIF
from acverif.mir import short, tstr, subterms
from acverif.rl import CallGraph, is_call, operand_ty, peel_all, expand_vars

LEVEL = 'proof'
EXPLANATION = """
Premises of the purity argument, each decided over the whole crate (all bodies, types, statics, impls):
R17.1 every search / inspection method of the searcher types and every method of the Automaton, PrefilterI and SearcherT
traits takes &self; R17.2 no UnsafeCell is reachable through the fields of the searcher types (following Vec/Box/Arc/slices,
and dyn objects through the recorded unsize-coercion sites) except Arc's own reference counters; R17.3 no static mut, no
static with interior mutability, no thread-local; R17.4 no write through a raw pointer, no pointer-writing intrinsic call, no
construct that produces a *mut pointer (cast, &raw mut, as_mut_ptr); R17.5 no unsafe impl Send/Sync and the object traits require Send + Sync +
UnwindSafe + RefUnwindSafe; R17.6 every &mut parameter of a function reachable from a search entry point has a caller-owned
type; R17.7 pointer addresses are only observed as differences of two addresses (results cannot depend on where the
haystack is allocated); R17.8 no call into process-global state (env, time, thread, fs, random); R17.9 every Clone impl of a type in the searcher's field
closure is the derived field-wise one and defines only `clone` (a clone is its source). From these, with Rust's
guarantee that data behind &T without UnsafeCell is immutable in safe code and the read-only unsafe code, a search is a
function of (*self, input, caller-owned state). A positive control containing every forbidden construct is compiled with the
same extractor on every run and each rule must report it.
"""
NOT_DECIDED = """Nothing at the level of the claim, modulo the trusted base: rustc's type/borrow checking, the internals of
core/alloc/std/memchr (notably is_x86_feature_detected!'s cached CPU probe and memchr's cached function pointer, which memoise a
pure value), and the aarch64 code that is not compiled here."""
TRUSTED = ['Rust aliasing rules: no mutation behind & without UnsafeCell in safe code',
           'core/alloc/std/memchr internals (cpu feature detection cache, memchr ifunc cache memoise pure values)']

SEARCH_TYPES = ('ahocorasick::AhoCorasick', 'nfa::noncontiguous::NFA', 'nfa::contiguous::NFA', 'dfa::DFA',
                'util::prefilter::Prefilter', 'packed::api::Searcher')
OBJ_TRAITS = ('ahocorasick::AcAutomaton', 'util::prefilter::PrefilterI', 'packed::teddy::builder::SearcherT')
SEARCH_TRAITS = ('automaton::Automaton', 'util::prefilter::PrefilterI', 'packed::teddy::builder::SearcherT')
# methods of the searcher types that are not searches (constructors / builders entry points)
NON_SEARCH = {'new', 'builder', 'with_capacity', 'default', 'fmt', 'clone', 'from'}


# ------------------------------------------------------------------ generic checks (run on repo facts and on the control)
def receivers(facts, types, traits):
    """[(body, ok, recv)] for search-relevant methods."""
    out = []
    for p, b in facts.bodies.items():
        j = b.j
        if j['kind'] != 'AssocFn':
            continue
        rel = False
        if j.get('impl_trait') in traits or j.get('in_trait') in traits:
            rel = True
        elif j.get('impl_self') in types and not j.get('impl_trait') and j.get('public') and j['name'] not in NON_SEARCH:
            rel = True
        if not rel:
            continue
        ins = j.get('inputs') or []
        if not ins:
            continue
        r = ins[0]
        isself = b.locals[1]['names'][:1] == ['self'] if len(b.locals) > 1 else False
        if not isself:
            continue
        ok = r.startswith('&') and not r.startswith('&mut')
        # by-value receivers of Copy-free searcher types would consume the searcher: not a shared search either
        out.append((b, ok, r))
    return out


def cell_paths(facts, roots):
    """UnsafeCell occurrences reachable from roots: [(root, path, exempt)]."""
    tg = facts.tygraph
    co = {}
    for c in facts.coercions:
        if c['from'] != c['to']:
            co.setdefault(c['to'], set()).add(c['from'])
    found = []
    visited_total = set()
    for root in roots:
        if root not in tg:
            found.append((root, ['<root type missing from type graph>'], False))
            continue
        seen = set()
        st = [(root, [root], False)]
        while st:
            ty, path, exempt = st.pop()
            if (ty, exempt) in seen:
                continue
            seen.add((ty, exempt))
            visited_total.add(ty)
            n = tg.get(ty)
            if n is None:
                continue
            if n.get('unsafe_cell'):
                found.append((root, path, exempt))
                continue
            kids = list(n['children'])
            if n['kind'] == 'dyn':
                kids = [('dyn<-' + src, src) for src in sorted(co.get(ty, ()))]
            for label, ch in kids:
                ex = exempt
                if n.get('adt') == 'alloc::sync::ArcInner' and label in ('ArcInner.strong', 'ArcInner.weak'):
                    ex = True
                st.append((ch, path + ['.%s: %s' % (label, ch)], ex))
    return found, visited_total


def bad_statics(facts):
    out = []
    for s in facts.statics:
        why = []
        if s['mutable']:
            why.append('static mut')
        if not s['freeze']:
            why.append('interior mutability (not Freeze)')
        if s['thread_local']:
            why.append('thread_local')
        if why:
            out.append((s['path'], why, s['loc']))
    for p, b in facts.bodies.items():
        for bi, si, pl, st in b.stores():
            r = st.get('r') if si != 'term' else None
            if r and r['k'] == 'tlsref':
                out.append((p, ['thread-local access ' + r['def']], st['loc']))
        for bi, t in b.calls(r'std::thread::(local::)?LocalKey'):
            out.append((p, ['LocalKey call'], t['loc']))
        for l in b.locals:
            if 'LocalKey<' in l['ty']:
                out.append((p, ['LocalKey value'], b.j['loc']))
                break
    return out


WRITE_CALLS = r'(::as_mut_ptr|::as_mut_ptr_range|NonNull::as_ptr|NonNull::as_mut|::get_unchecked_mut|UnsafeCell::)|^core::(ptr::(write|write_unaligned|write_volatile|write_bytes|copy|copy_nonoverlapping|swap|swap_nonoverlapping|replace|drop_in_place)|ptr::mut_ptr::|intrinsics::(write_|copy|volatile_|atomic_)|mem::transmute_copy|cell::|sync::atomic::)|^std::(ptr::(write|copy|swap|replace)|sync::(Mutex|RwLock|Once|atomic)|cell::)'


def raw_writes(facts):
    out = []
    for p, b in facts.bodies.items():
        # (a) stores whose place dereferences a raw pointer
        for bi, si, pl, st in b.stores():
            if pl['pr'] and pl['pr'][0] == '*' and b.locals[pl['l']]['ty'].startswith('*'):
                # `boxed[i] = x` is lowered to a store through the Box's own pointer: exempt when the raw pointer
                # is defined as a cast of a field path of a local Box
                ds = b.defs().get(pl['l'], [])
                boxed = False
                if len(ds) == 1 and ds[0][2] == 'assign' and ds[0][3]['r']['k'] == 'cast':
                    a = ds[0][3]['r']['a']
                    if a['k'] in ('copy', 'move') and b.locals[a['p']['l']]['ty'].startswith('alloc::boxed::Box<') and a['p']['pr'] and a['p']['pr'][0] != '*':
                        boxed = True
                if not boxed:
                    out.append((b, 'store through raw pointer %s' % b.locals[pl['l']]['ty'], st['loc'][1]))
            r = st.get('r') if si != 'term' else None
            if r and r['k'] == 'cast' and r['ty'].startswith('*mut'):
                out.append((b, 'cast to %s from %s' % (r['ty'], r['from']), st['loc'][1]))
            if r and r['k'] == 'rawptr' and r['mut']:
                out.append((b, '&raw mut', st['loc'][1]))
            if r and r['k'] == 'cast' and 'Transmute' in r['ck'] and ('&mut' in r['ty'] or '*mut' in r['ty']):
                out.append((b, 'transmute to %s' % r['ty'], st['loc'][1]))
        for bi, t in b.calls():
            c = t['callee']
            path = short(c.get('path', ''))
            if re.search(WRITE_CALLS, path) and not t['loc'][2]:
                out.append((b, 'call %s' % path, t['loc'][1]))
    return out


def send_sync_impls(facts):
    out = []
    for i in facts.impls:
        if i['trait_path'] in ('core::marker::Send', 'core::marker::Sync') or (i['unsafe'] and i['trait_path'] not in ('automaton::Automaton', 'core::clone::TrivialClone')):
            out.append(i)
    return out


def addr_uses(facts):
    """Places where a pointer address is observed: PointerExposeProvenance casts and calls of Pointer::as_usize.
    Returns (cast_sites, bad_uses, good_uses)."""
    casts, bad, good = [], [], []
    for p, b in facts.bodies.items():
        for bi, si, pl, st in b.stores():
            r = st.get('r') if si != 'term' else None
            if r and r['k'] == 'cast' and ('Expose' in r['ck'] or ('Transmute' in r['ck'] and r['from'].startswith(('*', '&')) and r['ty'] in ('usize', 'u64', 'isize', 'i64'))):
                casts.append((b, st['loc'][1]))
    helper = r'(packed::ext|util::int)::Pointer::as_usize$'
    for p, b in facts.bodies.items():
        if re.search(r'Pointer>::as_usize$', p):
            continue
        for bi, t in b.calls(helper):
            # find the uses of the destination, following plain copies into other locals
            d = t['dest']
            uses = []
            alias = [d['l']]
            seen_l = set()
            while alias:
                cur = alias.pop()
                if cur in seen_l:
                    continue
                seen_l.add(cur)
                for bj in b.live_blocks():
                    tt = b.term(bj)
                    if tt['k'] == 'call':
                        for a in tt['args']:
                            if a['k'] in ('copy', 'move') and a['p']['l'] == cur and not a['p']['pr']:
                                uses.append(('call', bj, tt))
                    for st in b.blocks[bj]['stmts']:
                        if st['k'] == 'assign':
                            r0 = st['r']
                            if r0['k'] == 'use' and r0['a']['k'] in ('copy', 'move') and r0['a']['p']['l'] == cur and not r0['a']['p']['pr'] and not st['p']['pr']:
                                alias.append(st['p']['l'])
                                continue
                            tx = str(r0)
                            if "'l': %d," % cur in tx or '"l": %d,' % cur in tx:
                                uses.append(('stmt', bj, st))
            okuse = True
            if not uses:
                okuse = False

            def is_addr(a):
                a = peel_all(expand_vars(b, a))
                return is_call(a, helper)
            for kind, bj, u in uses:
                if kind == 'call' and re.search(r'(wrapping_sub|checked_sub|saturating_sub)$', short(u['callee'].get('path', ''))):
                    ct = b.call_term(bj, u)
                    if all(is_addr(a) for a in ct[2]):
                        continue
                if kind == 'stmt' and u['r']['k'] == 'bin' and u['r']['op'].startswith('Sub'):
                    tm = b.rvalue_term(u['r'], 0, bj)
                    if is_addr(tm[2]) and is_addr(tm[3]):
                        continue
                okuse = False
            (good if okuse else bad).append((b, t['loc'][1]))
    return casts, bad, good


GLOBAL_CALLS = r'^std::(env|time|thread|fs|process|net|os)::|^std::io::(stdin|stdout|stderr)|^core::hint::black_box|^std::collections::hash::map::RandomState|^std::hash::random'


def global_calls(facts):
    out = []
    for p, b in facts.bodies.items():
        for bi, t in b.calls():
            path = short(t['callee'].get('path', ''))
            if re.search(GLOBAL_CALLS, path):
                out.append((b, path, t['loc'][1]))
        for l in b.locals:
            if re.search(r'std::collections::(hash::map::)?Hash(Map|Set)<', l['ty']) and 'BuildHasherDefault' not in l['ty']:
                out.append((b, 'randomly seeded ' + l['ty'][:60], b.line))
                break
    return out


ALLOWED_MUT = [
    (r'^&mut V$', 'Teddy carry vectors: stack locals of the calling find()'),
    (r'^&mut automaton::OverlappingState$', 'caller-owned overlapping state'),
    (r'^&mut core::fmt::Formatter<', 'Debug output'),
    (r'^&mut util::buffer::Buffer$', 'owned by the caller-owned StreamChunkIter'),
    (r'^&mut alloc::vec::Vec<u8>$', 'caller-supplied destination'),
    (r'^&mut alloc::string::String$', 'caller-supplied destination'),
    (r"^&mut util::search::Input<", 'iterator-owned input'),
    (r'^&mut (automaton|ahocorasick|packed::api)::(FindIter|FindOverlappingIter|StreamFindIter|StreamChunkIter)<', 'caller-owned iterator'),
    (r'^&mut [A-Z]$', 'generic caller-supplied reader / writer / closure'),
    (r'^&mut \{closure', 'closure environment on the caller stack'),
    (r'^&mut (core::option::Option<)?(util::search::(Match|Span)|util::primitives::(StateID|PatternID|SmallIndex)|usize|u8|u32|u64|bool)>?$',
     'a per-search value (cursor, state id, last match) on the stack of the calling search routine: these Copy types are never shared searcher state'),
]


def search_roots(facts):
    roots = []
    for p, b in facts.bodies.items():
        j = b.j
        ins = j.get('inputs') or ['']
        if j.get('in_trait') in SEARCH_TRAITS or j.get('impl_trait') in SEARCH_TRAITS:
            roots.append(p)
        elif j.get('impl_self') in SEARCH_TYPES and not j.get('impl_trait') and ins[0].startswith('&') and not ins[0].startswith('&mut') and j['kind'] == 'AssocFn':
            roots.append(p)
        elif j.get('impl_trait', '').endswith('iterator::Iterator') and re.search(r'FindIter|FindOverlappingIter|StreamFindIter', j.get('impl_self', '')):
            roots.append(p)
    return roots


# ------------------------------------------------------------------ control
_control = {}


def control():
    if 'f' not in _control:
        _control['f'] = compile_control(os.path.join(VERIF, 'controls', 'c17_control.rs'))
    return _control['f']


def ctl(cx, rule, what, hit):
    cx.report(rule, 'control', what, hit, ('positive control: rule reports the seeded %s' % what) if hit else
              ('positive control NOT reported (%s): the rule is blind' % what))


# ------------------------------------------------------------------ rules
def r17_1(cx):
    rs = receivers(cx.facts, SEARCH_TYPES, SEARCH_TRAITS)
    for b, ok, r in rs:
        cx.report('R17.1', b, 'receiver', ok, 'receiver is %s' % r if ok else 'search-relevant method takes %s (must be &self)' % r)
    cx.floor('R17.1', 'search-relevant methods with a self receiver', len(rs), 100 if cx.config in ('default', 'logging') else 60)
    c = receivers(control(), ('acverif_control::Searcher', 'Searcher'), ('Engine',))
    ctl(cx, 'R17.1', '&mut self search method', any(not ok for _, ok, _ in c))


def r17_2(cx):
    for r in SEARCH_TYPES:
        if r not in cx.facts.tygraph:
            cx.bad('R17.2', r, 'root', 'searcher type missing from the type graph')
    found, visited = cell_paths(cx.facts, SEARCH_TYPES)
    nex = 0
    for root, path, exempt in found:
        if exempt:
            nex += 1
            continue
        cx.bad('R17.2', root, 'cell:' + path[-1][:80], 'UnsafeCell reachable from %s via %s' % (root, ' '.join(path[-6:])))
    cx.report('R17.2', 'typegraph', 'closure', not [1 for f in found if not f[2]],
              'no UnsafeCell reachable from %s; %d types visited; %d occurrences are Arc reference counters (exempt)' % (', '.join(SEARCH_TYPES), len(visited), nex))
    cx.floor('R17.2', 'types visited in the field closure', len(visited), 60)
    # every dyn object type in the closure must have at least one recorded concrete source
    for ty in sorted(visited):
        n = cx.facts.tygraph.get(ty)
        if n and n['kind'] == 'dyn' and n.get('trait') in OBJ_TRAITS:
            srcs = [c['from'] for c in cx.facts.coercions if c['to'] == ty and c['from'] != ty]
            need = 3 if (n.get('trait') != 'util::prefilter::PrefilterI' or cx.config in ('default', 'logging', 'perf')) else 1
            cx.report('R17.2', ty, 'dyn-sources', len(set(srcs)) >= need, '%d concrete types coerced into %s: %s' % (len(set(srcs)), ty, sorted(set(srcs))))
    cf, _ = cell_paths(control(), ['Searcher'])
    ctl(cx, 'R17.2', 'Cell field behind Arc<dyn Engine>', any(not e for _, _, e in cf))


def r17_3(cx):
    bs = bad_statics(cx.facts)
    for path, why, loc in bs:
        cx.bad('R17.3', path, 'static', 'global mutable state: %s' % ', '.join(why), '%s:%s' % (loc[0], loc[1]))
    cx.report('R17.3', 'crate', 'statics', not bs, '%d statics in the crate, none mutable / interior-mutable / thread-local; no thread-local access in any body' % len(cx.facts.statics))
    c = bad_statics(control())
    kinds = ' '.join(w for _, why, _ in c for w in why)
    ctl(cx, 'R17.3', 'static AtomicUsize', 'interior' in kinds)
    ctl(cx, 'R17.3', 'static mut', 'static mut' in kinds)
    ctl(cx, 'R17.3', 'thread_local!', 'thread' in kinds or 'LocalKey' in kinds)


def r17_4(cx):
    ws = raw_writes(cx.facts)
    for b, what, line in ws:
        cx.bad('R17.4', b, 'write:' + what[:60], 'possible write through a raw pointer: %s' % what, line)
    cx.report('R17.4', 'crate', 'raw-writes', not ws, 'no store through a raw pointer, no way to obtain a *mut pointer (cast, &raw mut, as_mut_ptr), no writing pointer intrinsic in %d bodies' % len(cx.facts.bodies))
    c = raw_writes(control())
    kinds = ' | '.join(w for _, w, _ in c)
    ctl(cx, 'R17.4', 'store through *mut', 'store through raw pointer' in kinds)
    ctl(cx, 'R17.4', 'cast to *mut', 'cast to *mut' in kinds)
    ctl(cx, 'R17.4', 'ptr::write', 'ptr::write' in kinds)


def r17_5(cx):
    bad = send_sync_impls(cx.facts)
    for i in bad:
        cx.bad('R17.5', i['path'], 'impl', 'hand-written %simpl %s for %s' % ('unsafe ' if i['unsafe'] else '', i['trait'], i['self_ty']), '%s:%s' % (i['loc'][0], i['loc'][1]))
    cx.report('R17.5', 'crate', 'impls', not bad, 'no impl of Send/Sync and no unsafe impl other than the sealed Automaton trait among %d impls' % len(cx.facts.impls))
    for tr in OBJ_TRAITS:
        t = cx.facts.traits.get(tr)
        if t is None:
            if tr == 'util::prefilter::PrefilterI' or cx.config in ('default', 'logging', 'std', 'perf', 'nodefault'):
                cx.bad('R17.5', tr, 'supertraits', 'trait not found')
            continue
        sup = ' '.join(t['supers'])
        need = ['Send', 'Sync', 'UnwindSafe', 'RefUnwindSafe']
        miss = [n for n in need if not re.search(r'\b%s\b' % n, sup)]
        cx.report('R17.5', tr, 'supertraits', not miss, 'requires Send + Sync + UnwindSafe + RefUnwindSafe' if not miss else 'missing supertraits %s' % miss)
    ctl(cx, 'R17.5', 'unsafe impl Sync', bool(send_sync_impls(control())))


def r17_6(cx):
    cg = CallGraph(cx.facts)
    roots = search_roots(cx.facts)
    R = cg.reachable(roots)
    n = 0
    for p in sorted(R):
        b = cx.facts.bodies[p]
        for t in b.j.get('inputs') or []:
            if not t.startswith('&mut'):
                continue
            n += 1
            ok = any(re.search(pat, t) for pat, _ in ALLOWED_MUT)
            if not ok:
                cx.bad('R17.6', b, 'mutparam:' + t[:60], 'function reachable from a search entry point takes %s, which is not a caller-owned per-search type' % t)
    cx.report('R17.6', 'callgraph', 'mut-params', True, '%d roots, %d reachable functions, %d &mut parameters examined' % (len(roots), len(R), n))
    cx.floor('R17.6', 'functions reachable from search entry points', len(R), 200 if cx.config in ('default', 'logging') else 120)
    cx.floor('R17.6', '&mut parameters examined', n, 25)


def r17_7(cx):
    casts, bad, good = addr_uses(cx.facts)
    for b, line in casts:
        ok = bool(re.search(r'Pointer>::as_usize$', b.path))
        cx.report('R17.7', b, 'ptr-to-int', ok, 'pointer-to-integer cast inside the as_usize helper' if ok else 'pointer address is turned into an integer outside the as_usize helper', line)
    for b, line in bad:
        cx.bad('R17.7', b, 'addr-use', 'a pointer address (as_usize) is used other than as the difference of two addresses', line)
    for b, line in good:
        cx.ok('R17.7', b, 'addr-diff', 'addresses are only subtracted from each other', line)
    cx.floor('R17.7', 'address observations', len(casts) + len(good) + len(bad), 2)
    c, cb, cgood = addr_uses(control())
    ctl(cx, 'R17.7', 'haystack address used as a value', any(not re.search(r'Pointer>::as_usize$', b.path) for b, _ in c))


def r17_8(cx):
    g = global_calls(cx.facts)
    for b, path, line in g:
        cx.bad('R17.8', b, 'global:' + path[:50], 'call into process-global state: %s' % path, line)
    cx.report('R17.8', 'crate', 'globals', not g, 'no call into std::env/time/thread/fs/process/net and no randomly seeded hash container')


def r17_9(cx):
    """Clones: every Clone impl of a type in the searcher's field closure is the derived (field-wise) one and defines
    nothing but `clone`: a hand-written clone / clone_from can leave a clone that differs from its source."""
    found, visited = cell_paths(cx.facts, SEARCH_TYPES)
    vs = {v.split('<')[0] for v in visited}
    n = 0
    for i in cx.facts.impls:
        if i['trait_path'] != 'core::clone::Clone' or i['self_ty'].split('<')[0] not in vs:
            continue
        n += 1
        items = sorted(x.rsplit('::', 1)[-1] for x in i['items'])
        ok = bool(i.get('derived')) and items == ['clone']
        cx.report('R17.9', i['self_ty'], 'derived-clone', ok, 'Clone is derived (field-wise) and defines only clone' if ok else
                  'hand-written Clone impl (items %s) for a searcher type: a clone / clone_from that is not field-wise can differ from its source' % items,
                  '%s:%s' % (i['loc'][0], i['loc'][1]))
    cx.floor('R17.9', 'Clone impls in the searcher closure', n, 30 if cx.config in ('default', 'logging', 'perf') else 12)


RULES = [('R15.7', r15_7), ('R17.1', r17_1), ('R17.2', r17_2), ('R17.3', r17_3), ('R17.4', r17_4), ('R17.5', r17_5), ('R17.6', r17_6), ('R17.7', r17_7), ('R17.8', r17_8), ('R17.9', r17_9)]
THOROUGH_CONFIGS = ['default', 'std', 'perf', 'nodefault', 'logging']

CLAIM = """Proof-style static argument: eight whole-crate premises (receivers, no interior mutability in the searcher type closure,
no mutable/thread-local statics, no raw-pointer writes, no hand-written Send/Sync, caller-owned &mut state only, address
independence, no global-state calls) are each decided over every MIR body, type, static and impl of the crate; together with
Rust's aliasing guarantees they imply that a search is a function of (*self, input, caller-owned state), for every interleaving
and history. Each rule is validated on every run against a positive control containing the forbidden construct."""
NOTE = """Trusted base: rustc type/borrow checking; Rust's guarantee that data behind & without UnsafeCell is not mutated by safe
code; internals of core/alloc/std/memchr (cached CPU feature probe, memchr's function-pointer cache); aarch64 code is not compiled
here. logging feature: log macros write to a global logger but only in builders, not in searches (checked by R17.8/R17.6 reach)."""
TECHNIQUE = "static analysis: whole-crate type-graph walk, static/impl inventories, raw-pointer write and receiver queries over rustc MIR and type facts, call-graph reachability"

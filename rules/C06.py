"""C06 rule set (see DESIGN.md section 5)."""
from rules.teddy import r06_1, r06_3, r06_4, r06_5, r06_6, r06_7, r06_10
from rules.teddy import r15_7
from rules.teddy import r15_4
from rules.prefilter import r10_5, r10_6

LEVEL = 'other'
from rules.utilfn import r06_8
from rules.utilfn import r06_9
RULES = [('R15.7', r15_7), ('R15.4', r15_4), ('R06.1', r06_1), ('R06.3', r06_3), ('R06.4', r06_4), ('R06.10', r06_10), ('R06.5', r06_5), ('R06.6', r06_6), ('R06.7', r06_7), ('R10.5', r10_5), ('R10.6', r10_6), ('R06.8', r06_8), ('R06.9', r06_9)]
EXPLANATION = """R06.1 template consistency of the eight generic searchers Slim<V,k> / Fat<V,k>, k = 1..4 (lane width L = V::BYTES resp. V::Half::BYTES):
find starts at start + (k-1), loops while cur <= end - L, strides by L, and if cur < end re-runs once at end - L; find_one verifies from
cur - (k-1) behind !candidate.is_zero(); candidate loads width L at cur, applies members_k, shifts result j in by k-1-j bytes from prev_j,
stores prev_j = res_j and ANDs all k terms; exactly k-1 carry vectors initialised to splat(0xFF); minimum_len = L + (k-1).
R06.2 between cur = end - L and the tail find_one every carry vector is reset to splat(0xFF). R06.3 verification geometry: verify64
takes the lowest set bit, advances the base by bit / BUCKETS and selects bucket bit % BUCKETS; the per-lane closures advance by 8
(8 buckets) resp. 4 (16 buckets) positions, i.e. lane step x BUCKETS = 64. R06.4 ordering sources: set_match_kind sorts ascending by id
for leftmost-first and stably by descending length for leftmost-longest; the pattern iterator follows that order; Teddy and Rabin-Karp
buckets are filled from it; verify_bucket / Rabin-Karp return at the first verified pattern; the Teddy bucket key is
low_nybbles(min(4, minimum_len)). R06.5 dispatch: shorter spans go to Rabin-Karp, SlimAVX2 uses the 128-bit searcher below the
256-bit minimum. R06.6 Rabin-Karp hash window, power and rolling update. R06.7 membership template: every byte
shuffle is indexed by a nybble masked with 0x0F (low tables by chunk & 0x0F, high tables by (chunk >> 4) & 0x0F), each mask table used
once per half. R10.5 / R10.6 span handling of the packed entry points."""
NOT_DECIDED = """That the lane arithmetic (alignr / permute2x128 emulation of byte shifts across 128-bit lanes, interleave order in fat verification) produces the leftmost match for all positions and contents: SIMD semantics are outside MIR-level reasoning. cfg(target_arch = aarch64) code is not compiled here."""
CLAIM = """Static decision of the structural template that all eight generic Teddy searchers must share (window arithmetic, carry vectors and their tail reset, verification base and geometry), of the ordering sources that make 'first verified' the semantically correct pattern, and of the dispatch between algorithms."""
NOTE = """Trusted: rustc MIR construction, the fact extractor, the semantics of the SIMD intrinsics. One MIR body per const-generic impl block is analysed (8 x find/find_one/candidate)."""
TECHNIQUE = "static analysis: sibling/template agreement over const-generic impl bodies, window / bit geometry tabulated on loop-iteration summaries, must-pass-through and reaching-definition rules over rustc MIR"

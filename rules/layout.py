"""Reader / writer agreement of the contiguous NFA encoding, DFA construction helpers and byte classes (C04 R04.4/R04.5, C16)."""
import re

from acverif.mir import short, tstr, subterms, affine_str
from acverif.rl import (is_call, peel, peel_all, is_var, is_agg, is_const, self_field, bool_gates, discr_gates, reachable_without,
                        must_pass, line_of, rewrite, expand_vars, atom, cmp_norm, cmp_true_when, eq_cond, var_defs_terms,
                        is_named_const, strip_convs, param_at, Unsupported, EvalPanic)
from acverif.sym import (Sym, summarize, canon, cstr, TooManyPaths, teval, row_holds, row_consistent, by_cstr, loop_rows, innermost_loop)

ST = "nfa::contiguous::State::<'a>::"


def const(cx, name):
    c = cx.facts.consts.get(ST + name)
    return c['value'] if c else None


def r04_4(cx):
    mx, one, dense = const(cx, 'MAX_SPARSE_TRANSITIONS'), const(cx, 'KIND_ONE'), const(cx, 'KIND_DENSE')
    ok = None not in (mx, one, dense) and mx < one < dense <= 0xFF
    cx.report('R04.4', ST + 'KIND', 'sentinels', ok, 'MAX_SPARSE_TRANSITIONS (%s) < KIND_ONE (%s) < KIND_DENSE (%s) <= 0xFF: a sparse transition count can never be mistaken for a kind sentinel' % (mx, one, dense) if ok else
              'kind sentinels collide with sparse transition counts: MAX_SPARSE_TRANSITIONS=%s KIND_ONE=%s KIND_DENSE=%s' % (mx, one, dense))
    write_table(cx)


def write_table(cx):
    """State::write as a decision table: for every combination of force_dense, transition count and match status the words
    pushed first are [kind-word][fail], followed by the transition block of that kind."""
    w = cx.body(ST + 'write')
    dense, one, mx = const(cx, 'KIND_DENSE'), const(cx, 'KIND_ONE'), const(cx, 'MAX_SPARSE_TRANSITIONS')
    try:
        rows = [r for r in summarize(cx.facts, w) if r.end == 'return' and is_agg(r.ret, r'Result$', 'Ok')]
    except TooManyPaths:
        rows = []
    NNFA, OLDSID, OLD, CLASSES, DST, FD = (cstr(param_at(w, i)) for i in (1, 2, 3, 4, 5, 6))
    CNT = 'core::iter::Iterator::count(nfa::noncontiguous::NFA::iter_trans(%s, %s))' % (NNFA, OLDSID)
    FIRST = '(core::iter::Iterator::next(nfa::noncontiguous::NFA::iter_trans(%s, %s)) as Some).0' % (NNFA, OLDSID)
    why_kind = why_layout = None
    n = 0
    if not rows:
        why_kind = why_layout = 'no successful path through State::write could be tabulated'
    C, FAILW, NEXTW = 5, 77, 88
    for fd in (0, 1):
        for cnt in (0, 1, 2, 5, mx or 127, (mx or 127) + 1, 200, 300):
            for im in (0, 1):
                if why_kind or why_layout:
                    break
                at = by_cstr({FD: fd, CNT: cnt, 'nfa::noncontiguous::State::is_match(%s)' % OLD: im, '%s.fail.0.0' % OLD: FAILW,
                              'util::alphabet::ByteClasses::get(%s, %s.byte)' % (CLASSES, FIRST): C, '%s.next.0.0' % FIRST: NEXTW,
                              'discr(core::iter::Iterator::next(nfa::noncontiguous::NFA::iter_trans(%s, %s)))' % (NNFA, OLDSID): 1 if cnt else 0})
                sel = [r for r in rows if row_consistent(r, at)]
                n += 1
                if not sel:
                    why_kind = 'no path for force_dense=%d, %d transitions, match=%d' % (fd, cnt, im)
                    break
                exp = 'dense' if (fd or cnt > mx) else ('one' if cnt == 1 and not im else 'sparse')
                for r in sel:
                    lay = []
                    for e in r.effects:
                        if e[0] != 'call':
                            continue
                        ce = canon(e[1])
                        if is_call(ce, r'Vec.*::push$') and cstr(ce[2][0]) == DST:
                            lay.append(('push', ce[2][1]))
                        elif is_call(ce, r'State::write_(dense|sparse)_trans$'):
                            lay.append((short(ce[1]).rsplit('::', 1)[1], [cstr(a) for a in ce[2]]))
                        elif is_call(ce, r'Extend::extend$|extend_from_slice$') and cstr(ce[2][0]) == DST:
                            lay.append(('extend', None))
                    try:
                        w0 = teval(lay[0][1], at) if lay and lay[0][0] == 'push' else None
                        w1 = teval(lay[1][1], at) if len(lay) > 1 and lay[1][0] == 'push' else None
                        w2 = teval(lay[2][1], at) if exp == 'one' and len(lay) > 2 and lay[2][0] == 'push' else None
                    except (Unsupported, EvalPanic) as e:
                        why_layout = 'cannot evaluate the words written: %s' % e
                        break
                    want0 = dense if exp == 'dense' else ((one | (C << 8)) if exp == 'one' else cnt)
                    if w0 != want0:
                        why_kind = 'for force_dense=%d, %d transitions, match=%d the first word is %s, expected %s (%s)' % (fd, cnt, im, w0, want0, exp)
                        break
                    if w1 != FAILW:
                        why_layout = 'the second word of a %s state is not the failure transition' % exp
                        break
                    args = [NNFA, OLDSID, CLASSES, DST]
                    if exp == 'dense' and not (len(lay) > 2 and lay[2] == ('write_dense_trans', args)):
                        why_layout = 'a dense state header is not followed by write_dense_trans(nnfa, oldsid, classes, dst)'
                    elif exp == 'sparse' and not (len(lay) > 2 and lay[2] == ('write_sparse_trans', args)):
                        why_layout = 'a sparse state header is not followed by write_sparse_trans(nnfa, oldsid, classes, dst)'
                    elif exp == 'one' and w2 != NEXTW:
                        why_layout = 'a one-transition state does not store its single target as the third word'
                    elif exp == 'one' and any(x[0].startswith('write_') for x in lay):
                        why_layout = 'a one-transition state also writes a transition block'
                    if why_layout:
                        break
    cx.report('R04.4', w, 'kind-decision', why_kind is None, 'kind = DENSE if force_dense or more than MAX_SPARSE_TRANSITIONS; ONE only for exactly one transition of a non-match state; else the transition count (%d input classes tabulated)' % n if why_kind is None else 'State::write: ' + why_kind)
    cx.report('R04.5', w, 'header-layout', why_layout is None, 'every state starts with [kind | class<<8 for ONE][fail]; ONE continues with its single target; dense/sparse continue with their transition block' if why_layout is None else 'State::write: ' + why_layout)


def r04_5_writer(cx):
    sp = cx.body(ST + 'write_sparse_trans')
    # classes chunked by 4, last chunk padded with its last real class; then one word per target in the same order
    chunks = [i for i, l in enumerate(sp.locals) if l['ty'] == '[u8; 4]' and (l['names'] or len(sp.defs().get(i, [])) > 1)]
    byte_refs = {i for i, l in enumerate(sp.locals) if l['ty'] in ('&mut u8', '*mut u8')}
    real, pad, other = [], [], []
    for bi, si, pl, st in sp.stores():
        if si == 'term':
            continue
        prs = pl['pr']
        into_chunk = pl['l'] in chunks and any(isinstance(x, dict) and ('idx' in x or 'cidx' in x) for x in prs)
        via_ref = pl['l'] in byte_refs and '*' in prs
        if not (into_chunk or via_ref):
            continue
        v = expand_vars(sp, sp.rvalue_term(st['r'], 0, bi))
        v = strip_convs(v)
        if is_call(v, r'ByteClasses::get$'):
            real.append(bi)
        elif v[0] == 'idx' and v[1][0] == 'v' and v[1][2] in chunks and re.match(r'^\+\w+ -1$', affine_str(v[2]).strip()):
            pad.append(bi)
        else:
            other.append(tstr(v, 60))
    pushes = [expand_vars(sp, sp.call_term(bi, t0)) for bi, t0 in sp.calls(r'Vec.*::push$')]
    words = [x for x in pushes if is_call(strip_convs(x[2][1]), r'from_ne_bytes$') and peel_all(strip_convs(x[2][1])[2][0])[0] == 'v' and peel_all(strip_convs(x[2][1])[2][0])[2] in chunks]
    tg = [x for x in pushes if x not in words]
    oktargets = len(words) == 2 and len(tg) == 1 and re.search(r'Transition::next\(|\.next', tstr(tg[0][2][1], 300)) is not None and 'iter_trans' in tstr(tg[0][2][1], 300)
    ok = len(chunks) == 1 and len(pad) >= 1 and len(real) == 1 and not other and oktargets
    cx.report('R04.5', sp, 'sparse-layout', ok, 'sparse block = ceil(n/4) class words (last one padded by repeating the last real class) followed by n target words in the same order' if ok else
              'write_sparse_trans deviates: class-chunk bytes are written from %s (allowed: the class of a transition, or chunk[len-1] as padding: unused slots are compared by the reader); words pushed: %d chunk words, %d others' % (other, len(words), len(tg)))


def r04_5_reader(cx):
    b = cx.body('<nfa::contiguous::NFA as automaton::Automaton>::next_state')

    def is_repr(x):
        x = peel_all(expand_vars(b, x))
        return self_field(x, 'repr')

    def fn(y):
        if is_call(y, r'StateID::as_usize$') and peel_all(y[2][0])[0] == 'v' and b.locals[peel_all(y[2][0])[2]]['ty'].endswith('StateID'):
            return atom('O')
        if is_call(y, r'ByteClasses::get$'):
            return atom('CLASS')
        if is_call(y, r'contiguous::u32_len$'):
            return atom('CL')
        if y[0] == 'f' and y[2] == '0' and y[1][0] == 'f' and y[1][2] == '0' and y[1][1][0] == 'dc' and y[1][1][2] == 'Some' and is_call(peel_all(y[1][1][1]), r'Iterator::next$'):
            return atom('I')
        return None

    def norm(ix):
        return rewrite(rewrite(strip_convs(expand_vars(b, ix)), fn), fn)
    # decided on the iteration summaries of the failure loop: every read of self.repr is at one of the offsets the writer laid out
    # (evaluated with o = 100, class = 7, classes_len = 3, chunk index = 2), and a hit in class lane k returns target lane k
    from rules.search import FailLoop
    from acverif.sym import canon, cstr, teval
    from acverif.rl import Unsupported, EvalPanic
    K = FailLoop(cx, 'contiguous')
    forms, why_l = set(), None
    lanes_hit = set()
    if not K.ok:
        forms = {'?'}
        why_l = 'failure loop not recognised'
    else:
        S = cstr(K.St)

        def at(t):
            s0 = cstr(t)
            if s0 == S:
                return 100
            if re.match(r'util::alphabet::ByteClasses::get\(self\.byte_classes, ', s0):
                return 7
            if re.match(r'nfa::contiguous::u32_len\(', s0):
                return 3
            if re.match(r'^\(core::iter::Iterator::next\(.*\) as Some\)\.0\.0$', s0):
                return 2
            return None

        def reads_of(t):
            out = []
            for x in subterms(canon(t)):
                ix = None
                if is_call(x, r'core::ops::Index::index$') and cstr(x[2][0]) == 'self.repr':
                    ix = x[2][1]
                elif x[0] == 'idx' and cstr(x[1]) == 'self.repr':
                    ix = x[2]
                if ix is None or is_agg(ix, r'Range'):
                    continue
                try:
                    out.append(teval(ix, at))
                except (Unsupported, EvalPanic, KeyError, TypeError):
                    out.append('?:' + cstr(ix)[:60])
            return out
        for r in K.rows:
            terms = [c for c, v in r.conds] + ([r.ret] if r.ret is not None else []) + [v for l, v in r.env.items() if isinstance(v, tuple) and l != 0]
            for t in terms:
                forms.update(reads_of(t))
            if r.end != 'return' or r.ret is None:
                continue
            hits = []
            for c, v in r.conds:
                cc = canon(c)
                if cc[0] == 'op' and cc[1] == 'Eq':
                    for a0, b0 in ((cc[2], cc[3]), (cc[3], cc[2])):
                        if a0[0] == 'idx' and a0[2][0] == 'c' and is_call(peel_all(a0[1]), r'to_ne_bytes$') and re.match(r'util::alphabet::ByteClasses::get\(', cstr(b0)):
                            hits.append((a0[2][1], v))
            true_l = [k for k, v in hits if v is True]
            if not true_l:
                continue
            if len(true_l) != 1 or hits[-1][0] != true_l[0]:
                why_l = why_l or 'a path decides on several class lanes'
                continue
            k = true_l[0]
            got = reads_of(r.ret)
            got = got[:1]
            if got != [113 + k]:
                why_l = why_l or 'a hit in class lane %d reads offset %s (expected classes end + 4*i + %d)' % (k, [g - 113 if isinstance(g, int) else g for g in got], k)
            lanes_hit.add(k)
        if lanes_hit != {0, 1, 2, 3}:
            why_l = why_l or 'class lanes tested: %s (expected 0..3)' % sorted(lanes_hit)
    want = {100, 101, 102, 109, 113, 114, 115, 116}
    ok = forms == want
    cx.report('R04.5', b, 'reader-offsets', ok, 'next_state reads kind@o, fail@o+1, dense target@o+2+class, single target@o+2, sparse target k of chunk i@o+2+classes_len+4i+k (evaluated on the iteration summaries)' if ok else
              'contiguous next_state reads self.repr at %s relative to o=100, class=7, classes_len=3, i=2 (expected %s)' % (sorted(forms, key=str), sorted(want)))
    cx.report('R04.5', b, 'lane-agreement', why_l is None, 'a hit in class lane k reads target lane k (4 lanes)' if why_l is None else 'class lane and target lane disagree in the sparse lookup: %s' % why_l)
    KIND = None
    okk = True
    nk = 0
    for blk, sc in b.switches():
        if sc[0] != 'bool':
            continue
        c = sc[1]
        if c[0] == 'op' and c[1] in ('Eq', 'Ne') and any(s[0] == 'k' and re.search(r'KIND_(DENSE|ONE)$', s[1]) for s in (c[2], c[3])):
            other = [s for s in (c[2], c[3]) if not (s[0] == 'k' and re.search(r'KIND_(DENSE|ONE)$', s[1]))]
            nk += 1
            k0 = rewrite(strip_convs(expand_vars(b, other[0])), fn) if other else None
            good = k0 is not None and k0[0] == 'op' and k0[1] == 'BitAnd' and k0[3] == ('c', 255) and is_call(k0[2], r'Index::index$') and is_repr(k0[2][2][0]) and k0[2][2][1] == atom('O')
            okk = okk and good
            KIND = k0 if good else KIND
    dense_v, one_v = const(cx, 'KIND_DENSE'), const(cx, 'KIND_ONE')
    for blk, sc in b.switches():
        if sc[0] != 'int' or sc[1][0] == 'discr':
            continue
        vals = {v for v, tg in sc[2]}
        if {dense_v, one_v} <= vals:
            nk += 2
            k0 = rewrite(strip_convs(expand_vars(b, sc[1])), fn)
            good = k0[0] == 'op' and k0[1] == 'BitAnd' and k0[3] == ('c', 255) and is_call(k0[2], r'Index::index$') and is_repr(k0[2][2][0]) and k0[2][2][1] == atom('O')
            okk = okk and good
            KIND = k0 if good else KIND
    okk = okk and nk >= 2
    cx.report('R04.5', b, 'kind-byte', okk, 'kind = low byte of word 0' if okk else 'the kind tested against KIND_DENSE / KIND_ONE is not repr[o] & 0xFF')
    cls_calls = [strip_convs(expand_vars(b, b.call_term(bi, t0))) for bi, t0 in b.calls(r'contiguous::u32_len$')]
    okc = len(cls_calls) == 1 and KIND is not None
    if okc:
        a = rewrite(cls_calls[0][2][0], fn)
        while is_call(a, r'as_usize$'):
            a = a[2][0]
        okc = a == KIND
    cx.report('R04.5', b, 'classes_len', okc, 'classes_len = u32_len(kind as transition count)' if okc else 'classes_len is not u32_len(kind)')
    u = cx.body('nfa::contiguous::u32_len')
    from acverif.rl import ieval
    bad = None
    try:
        for nn in range(0, 300):
            if ieval(u, {'ntrans': nn}) != (nn + 3) // 4:
                bad = nn
                break
    except KeyError as e:
        bad = 'unsupported construct %s' % e
    cx.report('R04.5', u, 'u32_len', bad is None, 'u32_len(n) = ceil(n / 4) for every n in 0..300 (decision table over the finite domain)' if bad is None else 'u32_len deviates from ceil(n/4) at %s' % bad)


def r04_5_iter(cx):
    b = cx.body('dfa::sparse_iter')
    ri = [b.call_term(bi, t) for bi, t in b.calls(r'RangeInclusive::new$')]
    ok = len(ri) == 1 and is_var(ri[0][2][0]) and ri[0][2][1] == ('c', 255)
    cx.report('R04.5', b, 'tail-range', ok, 'after the last explicit transition the remaining bytes byte..=255 are visited' if ok else 'sparse_iter tail range is %s (byte 0xFF or others are never visited)' % [tstr(x, 80) for x in ri])
    if not ok:
        return
    BYTE = ri[0][2][0]
    defs = var_defs_terms(b, BYTE[2])

    def bnorm(y):
        return atom('B') if y == BYTE else None
    okb = sorted(affine_str(rewrite(expand_vars(b, t, keep=lambda v: v == BYTE), bnorm)) for bi, si, t in defs) == ['+0', '+B +1', '+B +1']
    cx.report('R04.5', b, 'byte-counter', okb, 'the byte counter starts at 0 and advances by exactly 1 per visited byte' if okb else 'byte counter updates: %s' % [tstr(t, 40) for _, _, t in defs])
    F = param_at(b, 4)
    its = [b.call_term(bi, t0) for bi, t0 in b.calls(r'NFA::iter_trans$')]
    one_iter_trans = len(its) == 1 and peel_all(its[0][2][0]) == param_at(b, 1) and peel_all(its[0][2][1]) == param_at(b, 2)
    calls = []
    allrows = list(summarize(cx.facts, b))
    for h in b.loops():
        allrows += loop_rows(cx.facts, b, h)
    seen_sites = set()
    for r in allrows:
        for c in r.calls(r'FnMut::call_mut$'):
            cc = canon(c)
            if cstr(cc[2][0]) != cstr(F):
                continue
            key = cstr(cc)
            if key in seen_sites:
                continue
            seen_sites.add(key)
            calls.append(cc)

    def third(c):
        x = peel_all(c[2][1][3][2])
        if is_named_const(x, r'NFA::FAIL$'):
            return 'FAIL'
        if (is_call(x, r'Transition::next$') or (x[0] == 'f' and x[2] == 'next')):
            base = peel_all(x[2][0]) if x[0] == 'call' else peel_all(x[1])
            if 'iter_trans' in tstr(x, 400) or (base[0] == 'f' and base[1][0] == 'dc' and base[1][2] == 'Some' and is_call(peel_all(base[1][1]), r'Iterator::next$') and one_iter_trans):
                return 'target'
        return tstr(x, 60)
    kinds = sorted({third(c) for c in calls if is_agg(c[2][1], 'tuple') and len(c[2][1][3]) == 3})
    okc = kinds == ['FAIL', 'target'] and len(calls) >= 3
    cx.report('R04.5', b, 'callbacks', okc, 'gaps are reported as FAIL, explicit transitions with their target' if okc else 'sparse_iter callbacks carry %s' % kinds)

    def gap(x):
        x = expand_vars(b, x, keep=lambda v: v == BYTE)
        if not (x[0] == 'op' and x[1] in ('Lt', 'Gt')):
            return False
        lo, hi = (x[2], x[3]) if x[1] == 'Lt' else (x[3], x[2])
        hi = strip_convs(hi)
        return strip_convs(lo) == BYTE and (is_call(hi, r'Transition::byte$') or (hi[0] == 'f' and hi[2] == 'byte'))
    g = bool_gates(b, gap)
    cx.report('R04.5', b, 'gap-loop', bool(g), 'gaps before a transition are walked while byte < t.byte()' if g else 'gap loop condition deviates')
    s = cx.body('util::alphabet::ByteClassSet::set_range')
    srows = [r for r in summarize(cx.facts, s) if r.end == 'return']
    ST, EN = cstr(param_at(s, 2)), cstr(param_at(s, 3))
    why = None if srows else 'set_range never returns'
    try:
        for a0 in (0, 1, 2, 7):
            for e0 in (a0, a0 + 1, a0 + 5):
                at = by_cstr({ST: a0, EN: e0})
                sel = [r for r in srows if row_consistent(r, at)]
                if len(sel) != 1:
                    why = '%d paths for start=%d end=%d' % (len(sel), a0, e0)
                    continue
                adds = sorted(teval(canon(c)[2][1], at) for c in sel[0].calls(r'ByteSet::add$'))
                want = sorted(([a0 - 1] if a0 > 0 else []) + [e0])
                if adds != want:
                    why = 'set_range(%d, %d) marks boundaries after %s, expected after %s' % (a0, e0, adds, want)
    except (Unsupported, EvalPanic) as e:
        why = 'cannot evaluate: %s' % e
    cx.report('R04.5', s, 'class-boundaries', why is None, 'set_range(start, end) marks a class boundary after start-1 (iff start > 0) and after end' if why is None else 'ByteClassSet::set_range: ' + why)


def r04_5_dfa(cx):
    """DFA construction: a missing transition follows the failure link unless the state's failure link is DEAD (or anchored)"""
    from rules.builder import closure_with
    from rules.dfabuild import r_one_start_closure
    r_one_start_closure(cx, ids=('R04.5',))
    from rules.dfabuild import both_starts_rules
    both_starts_rules(cx, ids=('R04.5',))

"""Reader / writer agreement of the contiguous NFA encoding, DFA construction helpers and byte classes (C04 R04.4/R04.5, C16)."""
import re

from acverif.mir import short, tstr, subterms, affine_str
from acverif.rl import (is_call, peel, peel_all, is_var, is_agg, is_const, self_field, bool_gates, discr_gates, reachable_without,
                        must_pass, line_of, rewrite, expand_vars, atom, cmp_norm, cmp_true_when, eq_cond, var_defs_terms,
                        is_named_const, strip_convs)

ST = "nfa::contiguous::State::<'a>::"


def const(cx, name):
    c = cx.facts.consts.get(ST + name)
    return c['value'] if c else None


def r04_4(cx):
    mx, one, dense = const(cx, 'MAX_SPARSE_TRANSITIONS'), const(cx, 'KIND_ONE'), const(cx, 'KIND_DENSE')
    ok = None not in (mx, one, dense) and mx < one < dense <= 0xFF
    cx.report('R04.4', ST + 'KIND', 'sentinels', ok, 'MAX_SPARSE_TRANSITIONS (%s) < KIND_ONE (%s) < KIND_DENSE (%s) <= 0xFF: a sparse transition count can never be mistaken for a kind sentinel' % (mx, one, dense) if ok else
              'kind sentinels collide with sparse transition counts: MAX_SPARSE_TRANSITIONS=%s KIND_ONE=%s KIND_DENSE=%s' % (mx, one, dense))
    w = cx.body(ST + 'write')
    kl = w.locals_named('kind')
    defs = var_defs_terms(w, kl[0]) if kl else []
    # kind decision
    dg = bool_gates(w, lambda x: is_var(x, 'force_dense'))

    def fn(y):
        if is_var(y, 'old_len'):
            return atom('N')
        if y[0] == 'k' and y[1].endswith('MAX_SPARSE_TRANSITIONS'):
            return atom('MAXS')
        return None
    mg = []
    for blk, sc in w.switches():
        if sc[0] != 'bool':
            continue
        cn = cmp_norm(rewrite(sc[1], fn))
        if cn == cmp_norm(('op', 'Gt', atom('N'), atom('MAXS'))):
            mg.append((blk, [(blk, t) for t in sc[2]], [(blk, t) for t in sc[3]]))
    dense_def = [bi for bi, si, t in defs if t[0] == 'k' and t[1].endswith('KIND_DENSE')]
    one_def = [bi for bi, si, t in defs if t[0] == 'k' and t[1].endswith('KIND_ONE')]
    len_def = [bi for bi, si, t in defs if 'old_len' in tstr(expand_vars(w, t, keep=('old_len',)))]
    ok1 = len(dense_def) == 1 and len(one_def) == 1 and len(len_def) == 1 and bool(dg) and bool(mg)
    if ok1:
        # counts above MAX_SPARSE_TRANSITIONS can only become dense
        ok1 = all(not ({one_def[0], len_def[0]} & w.reach(tg, cut_blocks=[dense_def[0]])) for g in mg for _, tg in g[1])
        ok1 = ok1 and all(not ({one_def[0], len_def[0]} & w.reach(tg, cut_blocks=[dense_def[0]])) for g in dg for _, tg in g[2])
    # KIND_ONE only for exactly one transition and a non-match state
    g1 = bool_gates(w, lambda x: x[0] == 'op' and x[1] == 'Eq' and is_var(x[2], 'old_len') and x[3] == ('c', 1))
    gm = bool_gates(w, lambda x: is_call(x, r'noncontiguous::State::is_match$') and is_var(peel(x[2][0]), 'old'))
    ok2 = bool(one_def) and bool(g1) and bool(gm) and not reachable_without(w, one_def, [e for g in g1 for e in g[2]]) and not reachable_without(w, one_def, [e for g in gm for e in g[3]])
    cx.report('R04.4', w, 'kind-decision', ok1 and ok2, 'kind = DENSE if force_dense or more than MAX_SPARSE_TRANSITIONS; ONE only for exactly one transition of a non-match state; else the transition count' if ok1 and ok2 else
              'State::write kind decision deviates (dense rule=%s, one rule=%s)' % (ok1, ok2))
    okol = False
    ol = w.locals_named('old_len')
    if ol:
        d = w.def_term(ol[0])
        okol = d is not None and is_call(d, r'Iterator::count$') and is_call(d[2][0], r'NFA::iter_trans$') and is_var(d[2][0][2][1], 'oldsid')
    cx.report('R04.4', w, 'old_len', okol, 'old_len = number of transitions of the state being written' if okol else 'old_len is not iter_trans(oldsid).count()')


def r04_5_writer(cx):
    w = cx.body(ST + 'write')
    pushes = [(bi, w.call_term(bi, t)) for bi, t in w.calls(r'Vec.*::push$') if is_var(peel(w.call_term(bi, t)[2][0]), 'dst')]
    kd = discr_gates(w, lambda x: False)
    # branches by kind tests
    gd = bool_gates(w, lambda x: x[0] == 'op' and x[1] == 'Eq' and is_var(x[2], 'kind') and x[3][0] == 'k' and x[3][1].endswith('KIND_DENSE'))
    go = bool_gates(w, lambda x: x[0] == 'op' and x[1] == 'Eq' and is_var(x[2], 'kind') and x[3][0] == 'k' and x[3][1].endswith('KIND_ONE'))
    ok = bool(gd) and bool(go)
    rows = {}
    if ok:
        regions = {'dense': [tg for g in gd for _, tg in g[2]], 'one': [tg for g in go for _, tg in g[2]], 'sparse': [tg for g in go for _, tg in g[3]]}
        stop = [bi for bi, t in w.calls(r'noncontiguous::State::is_match$') if any(bi in w.reach(tg) for tgs in regions.values() for tg in tgs) and w.dominates(gd[0][0], bi) and not any(bi in w.reach(0, cut_blocks=[gd[0][0]]) for _ in [0])]
        for nm, tgs in regions.items():
            seq = []
            r = set()
            for tg in tgs:
                r |= w.reach(tg, cut_blocks=stop)
            for bi, ct in sorted(pushes):
                if bi in r and bi not in stop:
                    seq.append((bi, tstr(strip_convs(expand_vars(w, ct[2][1], keep=('kind', 'old', 'class', 't'))), 120)))
            calls = [short(t['callee']['path']).rsplit('::', 1)[1] for bi, t in w.calls(r'State::write_(dense|sparse)_trans$') if bi in r]
            rows[nm] = (seq, calls)
        def fail_word(s):
            return 'State::fail(old)' in s
        d, o, s = rows['dense'], rows['one'], rows['sparse']
        okd = len(d[0]) >= 2 and d[0][0][1] == 'kind' and fail_word(d[0][1][1]) and 'write_dense_trans' in d[1] and w.dominates(d[0][0][0], d[0][1][0])
        oko = len(o[0]) >= 3 and 'BitOr(kind, Shl(class, 8))' in o[0][0][1] and fail_word(o[0][1][1]) and 'Transition::next(t)' in o[0][2][1]
        oks = len(s[0]) >= 2 and s[0][0][1] == 'kind' and fail_word(s[0][1][1]) and 'write_sparse_trans' in s[1]
        ok = okd and oko and oks
    cx.report('R04.5', w, 'header-layout', ok, 'every state starts with [kind | class<<8 for ONE][fail]; ONE continues with its single target; dense/sparse continue with their transition block' if ok else
              'State::write header layout deviates: %s' % {k: [x[1] for x in v[0]] for k, v in rows.items()})
    sp = cx.body(ST + 'write_sparse_trans')
    # classes chunked by 4, last chunk padded with its last real class; then one word per target in the same order
    st = [(bi, tstr(tt), v) for bi, si, tt, v, s in sp.field_stores()]
    pad = [(bi, v) for bi, ts, v in st if ts.startswith('chunk[') and is_var(v, 'repeat')]
    real = [(bi, v) for bi, ts, v in st if ts.startswith('chunk[') and is_call(v, r'ByteClasses::get$')]
    other = [(bi, ts, tstr(v, 60)) for bi, ts, v in st if ts.startswith('chunk[') and not is_var(v, 'repeat') and not is_call(v, r'ByteClasses::get$')]
    rl = sp.locals_named('repeat')
    okrep = False
    if rl:
        d = sp.def_term(rl[0])
        okrep = d is not None and d[0] == 'idx' and is_var(d[1], 'chunk') and affine_str(d[2]).replace(' ', '') in ('+len-1',)
    tg = [sp.call_term(bi, t) for bi, t in sp.calls(r'Vec.*::push$')]
    oktargets = any('Transition::next(t)' in tstr(x, 200) for x in tg) and sum(1 for x in tg if 'from_ne_bytes(chunk)' in tstr(x, 200)) == 2
    ok = len(pad) == 1 and len(real) == 1 and not other and okrep and oktargets
    cx.report('R04.5', sp, 'sparse-layout', ok, 'sparse block = ceil(n/4) class words (last one padded by repeating the last real class) followed by n target words in the same order' if ok else
              'write_sparse_trans deviates: padding uses %s (must repeat the last real class: unused slots are compared by the reader)' % ([tstr(v, 40) for _, v in pad] + [o[2] for o in other]))


def r04_5_reader(cx):
    b = cx.body('<nfa::contiguous::NFA as automaton::Automaton>::next_state')
    reads = []
    for bi in sorted(b.live_blocks()):
        t = b.term(bi)
        if t['k'] == 'call' and is_call(b.call_term(bi, t), r'Index::index$'):
            ct = b.call_term(bi, t)
            if is_var(peel(ct[2][0]), 'repr'):
                reads.append((bi, strip_convs(expand_vars(b, ct[2][1], keep=('o', 'class', 'i', 'classes_len')))))

    def fn(y):
        if is_var(y, 'o'):
            return atom('O')
        if is_var(y, 'class'):
            return atom('CLASS')
        if is_var(y, 'i'):
            return atom('I')
        if is_var(y, 'classes_len'):
            return atom('CL')
        return None
    forms = sorted({affine_str(rewrite(ix, fn)) for bi, ix in reads if not is_agg(ix, r'Range')})
    want = sorted({'+O', '+O +1', '+O +2', '+CLASS +O +2', '+CL +4*I +O +2', '+CL +4*I +O +3', '+CL +4*I +O +4', '+CL +4*I +O +5'})
    ok = forms == want
    cx.report('R04.5', b, 'reader-offsets', ok, 'next_state reads kind@o, fail@o+1, dense target@o+2+class, single target@o+2, sparse target k of chunk i@o+2+classes_len+4i+k' if ok else
              'contiguous next_state index expressions deviate: %s (expected %s)' % (forms, want))
    # the lane compared and the lane read agree: classes[k] == class -> +k
    okl = True
    for blk, sc in b.switches():
        if sc[0] != 'bool':
            continue
        c = sc[1]
        if c[0] == 'op' and c[1] == 'Eq' and c[2][0] == 'idx' and is_var(c[2][1], 'classes') and is_var(c[3], 'class'):
            k = c[2][2][1]
            for tgt in sc[2]:
                r = b.reach(tgt, cut_blocks=[h for h in b.loops()])
                idx = [affine_str(rewrite(ix, fn)) for bi, ix in reads if bi in r]
                first = [x for x in idx if '4*I' in x]
                if not first or first[0] != '+CL +4*I +O %+d' % (2 + k):
                    okl = False
    cx.report('R04.5', b, 'lane-agreement', okl, 'a hit in class lane k reads target lane k' if okl else 'class lane and target lane disagree in the sparse lookup')
    cl = b.locals_named('classes_len')
    d = expand_vars(b, b.def_term(cl[0]), keep=('kind',)) if cl else None
    okc = d is not None and is_call(d, r'contiguous::u32_len$') and 'kind' in tstr(d)
    cx.report('R04.5', b, 'classes_len', okc, 'classes_len = u32_len(kind as transition count)' if okc else 'classes_len = %s' % (tstr(d, 80) if d else None))
    u = cx.body('nfa::contiguous::u32_len')
    from acverif.rl import ieval
    bad = None
    try:
        for nn in range(0, 300):
            if ieval(u, {'ntrans': nn}) != (nn + 3) // 4:
                bad = nn
                break
    except KeyError as e:
        bad = 'unsupported construct %s' % e
    cx.report('R04.5', u, 'u32_len', bad is None, 'u32_len(n) = ceil(n / 4) for every n in 0..300 (decision table over the finite domain)' if bad is None else 'u32_len deviates from ceil(n/4) at %s' % bad)
    kd = b.locals_named('kind')
    d = b.def_term(kd[0]) if kd else None
    okk = d is not None and d[0] == 'op' and d[1] == 'BitAnd' and d[3] == ('c', 255)
    cx.report('R04.5', b, 'kind-byte', okk, 'kind = low byte of word 0' if okk else 'kind = %s' % (tstr(d, 80) if d else None))


def r04_5_iter(cx):
    b = cx.body('dfa::sparse_iter')
    ri = [b.call_term(bi, t) for bi, t in b.calls(r'RangeInclusive::new$')]
    ok = len(ri) == 1 and is_var(ri[0][2][0], 'byte') and ri[0][2][1] == ('c', 255)
    cx.report('R04.5', b, 'tail-range', ok, 'after the last explicit transition the remaining bytes byte..=255 are visited' if ok else 'sparse_iter tail range is %s (byte 0xFF or others are never visited)' % [tstr(x, 80) for x in ri])
    BYTE = ('v', 'byte', b.locals_named('byte')[0])
    defs = var_defs_terms(b, BYTE[2])
    okb = sorted(affine_str(t) for bi, si, t in defs) == ['+0', '+byte +1', '+byte +1']
    cx.report('R04.5', b, 'byte-counter', okb, 'the byte counter starts at 0 and advances by exactly 1 per visited byte' if okb else 'byte counter updates: %s' % [tstr(t, 40) for _, _, t in defs])
    calls = [b.call_term(bi, t) for bi, t in b.calls(r'FnMut::call_mut$')]
    kinds = sorted(tstr(c[2][1][3][2], 60) for c in calls if is_agg(c[2][1], 'tuple') and len(c[2][1][3]) == 3)
    okc = kinds == ['nfa::noncontiguous::NFA::FAIL', 'nfa::noncontiguous::NFA::FAIL', 'nfa::noncontiguous::Transition::next(t)']
    cx.report('R04.5', b, 'callbacks', okc, 'gaps are reported as FAIL, explicit transitions with their target' if okc else 'sparse_iter callbacks carry %s' % kinds)
    g = bool_gates(b, lambda x: x[0] == 'op' and x[1] == 'Lt' and x[2] == BYTE and 'Transition::byte(t)' in tstr(x[3]))
    cx.report('R04.5', b, 'gap-loop', bool(g), 'gaps before a transition are walked while byte < t.byte()' if g else 'gap loop condition deviates')
    s = cx.body('util::alphabet::ByteClassSet::set_range')
    adds = [(bi, s.call_term(bi, t)) for bi, t in s.calls(r'ByteSet::add$')]
    lo = [(bi, ct) for bi, ct in adds if affine_str(strip_convs(ct[2][1])).replace(' ', '') == '+start-1']
    hi = [(bi, ct) for bi, ct in adds if is_var(strip_convs(ct[2][1]), 'start') is False and is_var(strip_convs(ct[2][1]), 'end')]
    gates = []
    for blk, sc in s.switches():
        if sc[0] != 'bool':
            continue
        c = rewrite(strip_convs(sc[1]), lambda y: atom('S') if is_var(y, 'start') else None)
        cn = cmp_norm(c)
        if cn is None or 'S' not in cn[2] or 'end' in cn[2]:
            continue
        v0, v1 = cmp_true_when(c, {'S': 0}), cmp_true_when(c, {'S': 1})
        if v0 is None or v0 == v1:
            continue
        gates.append((blk, [(blk, t) for t in (sc[2] if v1 else sc[3])], [(blk, t) for t in (sc[2] if v0 else sc[3])]))
    ok = len(lo) == 1 and len(hi) == 1 and bool(gates)
    if ok:
        # start - 1 is added exactly when start >= 1: reachable on the start=1 edge, unreachable on the start=0 edge
        ok = all(lo[0][0] in s.reach(tg) for g in gates for _, tg in g[1]) and all(lo[0][0] not in s.reach(tg, cut_blocks=[hi[0][0]]) for g in gates for _, tg in g[2])
        rets = s.return_blocks()
        ok = ok and must_pass(s, rets, [hi[0][0]])
    cx.report('R04.5', s, 'class-boundaries', ok, 'set_range(start, end) marks a class boundary after start-1 (iff start > 0) and after end' if ok else 'ByteClassSet::set_range does not mark exactly the boundaries start-1 (for every start >= 1) and end')


def r04_5_dfa(cx):
    """DFA construction: a missing transition follows the failure link unless the state's failure link is DEAD (or anchored)"""
    from rules.builder import closure_with
    for prefix, cap in (('dfa::Builder::finish_build_one_start', 'anchored'), ('dfa::Builder::finish_build_both_starts', 'anewsid')):
        c = closure_with(cx, prefix, cap)
        dg = bool_gates(c, lambda x: eq_cond(x) is not None and any('State::fail' in tstr(s0) for s0 in eq_cond(x)[:2]) and any('NFA::DEAD' in tstr(s0) for s0 in eq_cond(x)[:2]))
        nx = [bi for bi, t in c.calls(r'next_state$')]
        ok = bool(dg) and len(nx) == 1
        if ok:
            # next_state(Anchored::No, state.fail(), byte) on the not-DEAD edge
            ne = []
            for g in dg:
                e = eq_cond(g[1])
                ne += g[3] if e[2] else g[2]
            ok = not reachable_without(c, nx, ne)
            ct = c.call_term(nx[0], c.term(nx[0]))
            ok = ok and is_agg(ct[2][1], r'Anchored$', 'No') and 'State::fail' in tstr(ct[2][2]) and 'byte' in tstr(ct[2][3])
        # no other condition short-cuts to DEAD besides FAIL/anchored/fail==DEAD tests
        conds = [tstr(sc[1], 120) for blk, sc in c.switches() if sc[0] == 'bool']
        extra = [x for x in conds if not ('NFA::FAIL' in x or 'is_anchored' in x or ('State::fail' in x and 'NFA::DEAD' in x))]
        cx.report('R04.5', c, 'failure-closure', ok and not extra, 'a missing transition is resolved through nnfa.next_state(Anchored::No, state.fail(), byte) unless state.fail() is DEAD' if ok and not extra else
                  'the DFA failure closure is short-cut by another condition (%s) or does not follow state.fail()' % extra)

"""C15 rule set (see DESIGN.md section 5)."""
from rules.teddy import r15_1, r06_1, r06_3, r06_5, r15_4, r15_6
from rules.layout import r04_5_reader
from rules.layout import r04_5_writer
from rules.prefilter import r05_3
from rules.teddy import r15_7
from rules.prefilter import r10_5, r10_6, r10_1
from rules.search import r10_3

LEVEL = 'other'
from rules.layout import r04_4
from rules.C12 import r12_loops
from rules.search import r10_2
from rules.search import r03_1
from rules.utilfn import r04_8
from rules.utilfn import r06_8
from rules.utilfn import r04_10
from rules.utilfn import r06_9
from rules.utilfn import r10_8
RULES = [('R04.5r', r04_5_reader), ('R04.5w', r04_5_writer), ('R05.3', r05_3), ('R15.7', r15_7), ('R15.1', r15_1), ('R15.2', r06_5), ('R15.3', r06_1), ('R15.4', r15_4), ('R15.5', r06_3), ('R15.6', r15_6), ('R10.5', r10_5), ('R10.6', r10_6), ('R10.3', r10_3), ('R10.1', r10_1), ('R04.4', r04_4), ('R12.2', r12_loops), ('R10.2', r10_2), ('R03.1', r03_1), ('R04.8', r04_8), ('R06.8', r06_8), ('R04.10', r04_10), ('R06.9', r06_9), ('R10.8', r10_8)]
EXPLANATION = """Decides the premises of a written bounds argument for every raw-pointer read, plus an inventory that forces every unsafe operation to
be covered by one of them. R15.1 every unsafe operation in non-test code is classified (value-only SIMD / pointer arithmetic / load /
unchecked index / call of a local unsafe fn); an unclassified operation, or a pointer/load/unchecked operation in a function that no
premise rule covers, is reported; all of them live in src/packed/; transmutes are value-only. R15.2 entry premises: the Teddy entry
asserts haystack[at..].len() >= minimum_len before the unsafe call and derives both pointers from that slice (R10.5); SlimAVX2 selects
by len < slim256.minimum_len() and Searcher.minimum_len is the 128-bit minimum; every SearcherT::find carries its target_feature and
every checked constructor probes is_available_*(). R15.3 window premises (from R06.1): in-loop loads of width L happen at cur with
start + (k-1) <= cur <= end - L (the loop guard dominates the load with no cursor update in between), the tail load is at end - L
exactly and only if cur < end; verification starts at cur - (k-1). R15.4 is_equal_raw reads exactly n bytes for n = 1, 2, 3, and for
n >= 4 reads u32s at x < x + (n-4) stepping by 4 and once at x + (n-4); both callers test pattern length <= available bytes first.
R15.5 get_unchecked premises: bucket = bit % BUCKETS into an array of BUCKETS; pattern ids read from the bucket. R15.6 mask loads are
behind V::BYTES <= array length. R10.1/R10.3/R10.6 safe-code index discipline of spans, search loops and Rabin-Karp."""
NOT_DECIDED = """Absence of panics in general (arithmetic overflow in get_match's `at - len` and slice indexing inside the automata rest on table validity, i.e. automaton data); anything about the aarch64 build. With len >= L + k - 1 (entry assertion) the window premises imply in-bounds loads; that implication is the written argument, not a machine-checked proof."""
CLAIM = """Static decision of every premise of the bounds argument for the raw-pointer code: a complete classified inventory of unsafe operations, entry assertions and CPU-feature gates, window arithmetic of all eight searchers, the width table of the raw comparison, and the unchecked-index provenance. Tests cannot observe an out-of-bounds read; these premises hold for every haystack length and alignment."""
NOTE = """Trusted: rustc MIR construction, the fact extractor (callee safety and generic arguments), SIMD intrinsic semantics. General panic freedom is not decided."""
TECHNIQUE = "static analysis: unsafe-operation inventory with coverage table, read widths / offsets of the raw comparison tabulated per length on loop-iteration summaries, dominance of guards over loads over rustc MIR"

"""C18 — stream I/O failures surface and never corrupt what was produced (DESIGN.md §5 C18)."""
from rules.stream import RULES_C18 as RULES, STREAM_CONFIGS
from rules.agree import r20_1
from rules.stream import r08_3
from rules.utilfn import r13_8
from rules.stream import r07_2
RULES = list(RULES) + [('R20.1', r20_1), ('R08.3', r08_3), ('R13.8', r13_8), ('R07.2', r07_2)]

LEVEL = 'other'
THOROUGH_CONFIGS = ['default', 'std', 'logging']
EXPLANATION = """
R18.1 error discipline: for every call in the crate whose result type carries std::io::Error (reader read, Buffer::fill,
write_all x2, the user closure, the chunk iterator's items, the map_err conversions), the Err payload reaches the function's
return on every error edge (through ?, Some(Err(e)) or by being the result); no lossy API (Write::write, Result::ok,
unwrap_or…) is used on an io::Result in the stream path. R18.2 on the Err edge of read() inside fill no Buffer field is
written, and on the Err edge of fill inside next() no iterator field is written and no chunk helper runs. R18.3 the only
`return None` is behind fill's Ok(false) and behind the flush of the remaining bytes; with len >= min the buffer is rolled
before fill, so (with capacity > min, R07.1) fill always has free space and a 0 read is the reader's EOF; StreamFindIter ends
only when the chunk iterator ends. R18.4 bytes derivable from buffered data (pending match, pre-roll chunk) are emitted before
roll/fill. R18.5 panic inventory of the stream path: only Buffer::roll's guarded expect/assert and the documented table-length
assertion.
"""
NOT_DECIDED = """Prefix-consistency of the match sequence itself (inherits C07's remainder); behaviour of user-supplied Read/Write
implementations; panics of slice indexing, which rest on the index contracts of C07/C08."""
CLAIM = """Static error-discipline and state-preservation analysis over every io::Result-producing call site of the crate and every
error edge of the stream iterator: the error value is tracked from the call to the return value, error edges are shown to
write nothing and emit nothing, end-of-stream is shown to be reported only behind the reader's own EOF. No test in the pinned
suite injects an I/O fault."""
NOTE = """Trusted: rustc MIR construction, the fact extractor. Requires the std feature. The value-flow tracker follows moves, Option/Result
payload projections, ?-desugaring, map_err and From/Into only; any other consumer of an io::Result counts as dropping it."""
TECHNIQUE = "static analysis: error-value flow tracking from call sites to the return place, error-edge effect analysis and graph cuts over rustc MIR"

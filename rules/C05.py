"""C05 rule set (see DESIGN.md section 5)."""
from rules.search import r05_6, r19_1, r09_3
from rules.teddy import r06_7
from rules.prefilter import r05_9
from rules.teddy import r15_4
from rules.prefilter import r05_8
from rules.prefilter import r05_1, r05_2, r05_3, r05_4, r05_5, r05_7
from rules.stream import r07_6
from rules.teddy import r06_1
from rules.prefilter import r10_5

LEVEL = 'other'
from rules.teddy import r06_4, r06_10
from rules.casefold import r11_2
from rules.utilfn import r06_8
from rules.utilfn import r20_7
from rules.utilfn import r06_9
from rules.utilfn import r10_8
from rules.prefilter import r05_10
from rules.agree import r11_3
RULES = [('R06.7', r06_7), ('R05.9', r05_9), ('R15.4', r15_4), ('R05.8', r05_8), ('R05.7', r05_7), ('R05.1', r05_1), ('R05.2', r05_2), ('R05.3', r05_3), ('R05.4', r05_4), ('R05.5', r05_5), ('R05.6', r05_6), ('R19.1', r19_1), ('R09.3', r09_3), ('R07.6', r07_6), ('R06.1', r06_1), ('R10.5', r10_5), ('R06.4', r06_4), ('R06.10', r06_10), ('R11.2', r11_2), ('R06.8', r06_8), ('R20.7', r20_7), ('R06.9', r06_9), ('R10.8', r10_8), ('R05.10', r05_10), ('R11.3', r11_3)]
EXPLANATION = """R05.1 RareBytesBuilder::add records set_offset(pos, b) for every byte of every pattern before any `continue`; R05.2
RareByteOffsets::set keeps the maximum, offsets above 255 are rejected and patterns of 256+ bytes disable the builder before any
offset is recorded; R05.3 candidate arithmetic of the eight PrefilterI::find_in implementations (search haystack[span]; start bytes:
span.start + i; rare bytes: max(span.start, (span.start + i) (-) offset of the byte actually found); memmem: the exact match of
pattern 0; packed: pass-through) and of Candidate::into_option; R05.4 which prefilter may exist (none once an empty pattern was seen;
memmem / packed only without ASCII case folding; as_packed maps Standard to None; memmem only for exactly one pattern; byte
prefilters for at most three bytes); R05.5 every pattern recorded in pattern_lens is also handed to the prefilter builder, before the
leftmost-first pruning exit (packed pattern ids stay aligned); R05.6 use sites in both drivers: one call before the loop over
get_span() whose Match is returned as is, and one in the loop only in a special, non-dead, non-match state over cursor..end, a None
verdict ends the search, the cursor jumps only forward (i > cursor) and the jump is not followed by += 1; R09.3 no prefilter in
anchored mode; R07.6 none in stream search. R06.1/R06.2/R10.5 the packed prefilter's window template, tail reset of the carry
vectors and span truncation (shared with C06/C10)."""
NOT_DECIDED = """That the byte-frequency heuristic's choice of rare bytes never lets a skip pass a true match (data dependent), and Teddy's own correctness (C06)."""
CLAIM = """Static decision of the structural conditions under which skipping is sound: complete offset coverage and max-accumulation in the
rare-byte builder, exact candidate arithmetic of every prefilter implementation, the conditions under which each prefilter kind may
be built, alignment of packed pattern ids with the automaton's, and the guard / monotonicity structure of both use sites."""
NOTE = """Trusted: rustc MIR construction, the fact extractor, memchr/memmem contracts."""
TECHNIQUE = "static analysis: path summaries (spelling-independent decision tables) of the prefilter builder and the eight find_in contracts, iteration summaries of the trie loop, graph-cut / dominance queries over rustc MIR"

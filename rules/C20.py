"""C20 rule set (see DESIGN.md section 5)."""
from rules.trie import r03_6
from rules.teddy import r06_6
from rules.layout import r04_4
from rules.prefilter import r05_9
from rules.agree import r20_1, r20_2, r20_3, r20_5, r04_1
from rules.prefilter import r05_5, r05_1, r05_2

LEVEL = 'other'
from rules.layout import r04_5_iter
from rules.builder import r03_2
from rules.agree import r20_6
from rules.casefold import r11_1
from rules.layout import r04_5_writer
from rules.layout import r04_5_reader
from rules.utilfn import r04_9
from rules.utilfn import r20_7
from rules.teddy import r15_4
from rules.utilfn import r04_10
from rules.utilfn import r03_7
RULES = [('R06.6', r06_6), ('R04.4', r04_4), ('R05.9', r05_9), ('R03.6', r03_6), ('R20.1', r20_1), ('R20.2', r20_2), ('R20.3', r20_3), ('R20.5', r20_5), ('R04.1', r04_1), ('R05.5', r05_5), ('R05.1', r05_1), ('R05.2', r05_2), ('R04.5i', r04_5_iter), ('R03.2', r03_2), ('R20.6', r20_6), ('R11.1', r11_1), ('R04.5w', r04_5_writer), ('R04.5r', r04_5_reader), ('R04.9', r04_9), ('R20.7', r20_7), ('R15.4', r15_4), ('R04.10', r04_10), ('R03.7', r03_7)]
EXPLANATION = """R20.1 in build_trie the pattern id is PatternID::new(i) of the enumerate() index, pattern_lens.push(len) and the min/max updates happen
once per pattern before any pruning exit, add_match(prev, pid) uses that pid. R20.2 provenance chains: each metadata getter of the three
automata returns its namesake field; both converters initialise pattern_lens / match_kind / min_pattern_len / max_pattern_len / prefilter
from the same-meaning getter of the noncontiguous NFA; AhoCorasick's getters forward to their namesakes; kind() / start_kind() return the
stored fields. R20.3 at each of the six (Arc<dyn AcAutomaton>, AhoCorasickKind) construction sites the concrete automaton type matches
the variant; Some(kind) has an arm per variant and None goes to build_auto; the searcher literal stores the pair and the builder's
start_kind. R20.5 the user-observable builder options reach every builder that reads them (match_kind, ascii_case_insensitive ->
noncontiguous builder; start_kind -> self.start_kind and the DFA builder; kind -> self.kind). R04.1 forwarding impls (stream search
sizes its buffer through them). R05.5 packed pattern ids stay aligned. R05.1/R05.2 the only unwrap on the rare-byte offset is unreachable for patterns of 256+
bytes (the builder is disabled first), a build-time panic premise."""
NOT_DECIDED = """'Never panics for any collection within limits' (the build-time panic inventory R20.4 of the design was not built); paths with more than 127 transitions / 256 classes."""
CLAIM = """Static decision of pattern-id assignment, metadata provenance chains across the three representations and the public getters, kind/type pairing at every construction site, and builder option plumbing."""
NOTE = """Trusted: rustc MIR construction, the fact extractor. Build-time panic freedom is not decided."""
TECHNIQUE = "static analysis: iteration summaries of the pattern loop (ids, lengths, min/max evaluated on all orderings), construction-site inventories and decision tables over rustc MIR and call generic arguments"

"""Shared rules over the in-memory search drivers of automaton.rs (try_find_fwd[_imp], try_find_overlapping_fwd[_imp],
get_match, FindIter). Used by C01, C02, C03, C05, C09, C10, C14, C19."""
import re

from acverif.mir import short, tstr, subterms, affine_str
from acverif.rl import (is_call, peel, peel_all, is_var, is_agg, is_const, bool_gates, try_gates, result_gates, discr_gates, reachable_without, cmp_gates,
                        param_of_type, param_at, var_of_type, user_locals_of_type,
                        must_pass, line_of, expand_vars, cmp_norm, atom, rewrite, reaching_defs, var_defs_terms, eq_cond, value_roots, unwrapped, enum_gates, arm_edges, other_edges)

FIND = 'automaton::try_find_fwd'
FIND_IMP = 'automaton::try_find_fwd_imp'
OVER = 'automaton::try_find_overlapping_fwd'
OVER_IMP = 'automaton::try_find_overlapping_fwd_imp'


def negate(cn):
    return ('cmp', {'Lt': 'Ge', 'Le': 'Gt', 'Gt': 'Le', 'Ge': 'Lt', 'Eq': 'Ne', 'Ne': 'Eq'}[cn[1]], cn[2])


class Driver:
    """View of one of the two *_imp search drivers."""

    def __init__(self, cx, path):
        self.cx = cx
        self.b = b = cx.body(path)
        self.over = path == OVER_IMP
        # roles are resolved by type / position / data flow, never by variable name
        self.inp = param_of_type(b, r'util::search::Input<')
        self.aut = param_at(b, 1)
        self.anch = param_of_type(b, r'^util::search::Anchored$')
        self.early = param_of_type(b, r'^bool$')
        ns = b.calls(r'Automaton::next_state$')
        self.ns = ns
        self.nsb = ns[0][0] if len(ns) == 1 else None
        # the state variable of the walk: the destination of next_state (also its third argument)
        self.sidv = None
        if len(ns) == 1:
            d0 = ns[0][1]['dest']
            if not d0['pr']:
                l0 = d0['l']
                if not b.locals[l0]['names']:
                    # the result goes through a temporary: the state variable is the named local assigned from it
                    for bi, si, pl, st0 in b.stores():
                        if si != 'term' and not pl['pr'] and b.locals[pl['l']]['names'] and st0['r'].get('k') == 'use' and st0['r']['a'].get('k') in ('copy', 'move') and st0['r']['a']['p']['l'] == l0 and not st0['r']['a']['p']['pr']:
                            l0 = pl['l']
                            break
                self.sidv = ('v', b.locals[l0]['names'][0], l0) if b.locals[l0]['names'] else b.local_term(l0)
        if self.over:
            self.state = param_of_type(b, r'automaton::OverlappingState')
            self.cur = ('f', self.state, 'at')
        else:
            self.cur = None
            if self.nsb is not None:
                byte = peel_all(expand_vars(b, b.call_term(*ns[0])[2][3]))
                while byte[0] in ('conv', 'cast'):
                    byte = peel_all(byte[2])
                if byte[0] == 'idx' and byte[2][0] == 'v':
                    self.cur = byte[2]
        if self.inp is None or self.aut is None or (self.over and self.state is None):
            from acverif.core import Missing
            raise Missing('parameters of %s (input / automaton / state) not identified by type' % path)
        loops = b.loops()
        hs = [h for h, blks in loops.items() if self.nsb in blks]
        hs.sort(key=lambda h: -len(loops[h]))
        self.header = hs[0] if hs else None
        self.loop = loops[self.header] if hs else set()

    # -- cursor --------------------------------------------------------------------------------
    def cursor_defs(self):
        b = self.b
        if self.over:
            return [(bi, si, val) for bi, si, tt, val, st in b.field_stores() if tt == self.cur]
        return [(bi, si, t) for bi, si, t in var_defs_terms(b, self.cur[2])]

    def is_cur(self, t):
        return t == self.cur

    def plus1(self, t):
        return isinstance(t, tuple) and t[0] == 'op' and t[1] == 'Add' and ((t[2] == self.cur and t[3] == ('c', 1)) or (t[3] == self.cur and t[2] == ('c', 1)))

    def input_call(self, t, name):
        return is_call(t, r'util::search::Input::%s$' % name) and peel(t[2][0]) == self.inp

    # -- gates -----------------------------------------------------------------------------------
    def anchored_gates(self):
        """gates testing whether the search is anchored: is_anchored(anchored) / is_anchored(get_anchored(input))"""
        b = self.b

        def pred(x):
            if not is_call(x, r'util::search::Anchored::is_anchored$'):
                return False
            a = peel(x[2][0])
            return (self.anch is not None and a == self.anch) or self.input_call(a, 'get_anchored')
        return bool_gates(b, pred)

    def end_gates(self):
        """[(block, in_span_edges, out_of_span_edges)] for tests `cursor < input.end()`"""
        want = cmp_norm(('op', 'Lt', atom('CUR'), atom('END')))
        return cmp_gates(self.b, lambda y: atom('CUR') if y == self.cur else (atom('END') if self.input_call(y, 'end') else None), want)

    def start_filter_gates(self, m):
        """gates comparing m.start() with input.start(); returns [(block, pass_edges, reject_edges)] where reject = m.start() > input.start()"""
        want = cmp_norm(('op', 'Gt', atom('MS'), atom('IS')))

        def fn(y):
            if is_call(y, r'util::search::Match::start$') and peel(y[2][0]) == m:
                return atom('MS')
            if self.input_call(y, 'start'):
                return atom('IS')
            return None
        return [(blk, fe, te) for blk, te, fe in cmp_gates(self.b, fn, want)]


def get_match_sites(d):
    """calls of get_match in the driver: [(block, term(aut, sid, index, pos))]"""
    b = d.b
    return [(bi, b.call_term(bi, t)) for bi, t in b.calls(r'^automaton::get_match$')]


def ret_norm(b, v, MAT=None):
    """`Ok(x)` with x a named intermediate (e.g. the result an outcome enum of a spliced helper carried): what x holds"""
    if is_agg(v, r'Result$', 'Ok') and isinstance(v[3], dict) and is_var(v[3].get('0')) and v[3]['0'] != MAT:
        pv = peel_all(expand_vars(b, v[3]['0'], keep=lambda y: y == MAT or (y[0] == 'v' and 1 <= y[2] <= b.j['arg_count'])))
        return ('agg', v[1], v[2], {'0': pv})
    return v


def mat_slots(d):
    """the published-match slot of the non-overlapping driver: the Option<Match> local carried around the search loop (a local
    of that type that merely names a prefilter verdict before the loop is not the slot)"""
    b = d.b
    ml = user_locals_of_type(b, r'^core::option::Option<util::search::Match>$')
    if len(ml) > 1 and d.header is not None:
        try:
            from acverif.sym import Sym
            mods, _ = Sym(d.cx.facts, b).loop_mods(d.header)
            carried = [l for l in ml if l in mods]
            if carried:
                return carried
        except Exception:
            pass
    return ml


def publications(d):
    """stores of Some(x) into the published match slot: [(block, idx, x_term)] ; and None-stores"""
    b = d.b
    some, none = [], []
    if d.over:
        for bi, si, tt, val, st in b.field_stores():
            if tt == ('f', d.state, 'mat'):
                if is_agg(val, r'Option$', 'Some'):
                    some.append((bi, si, val[3]['0']))
                elif is_agg(val, r'Option$', 'None'):
                    none.append((bi, si))
                else:
                    some.append((bi, si, val))
    else:
        ml = mat_slots(d)
        for l in ml:
            for bi, si, t in var_defs_terms(b, l):
                if is_agg(t, r'Option$', 'Some'):
                    some.append((bi, si, t[3]['0']))
                elif is_agg(t, r'Option$', 'None'):
                    none.append((bi, si))
                else:
                    some.append((bi, si, t))
    return some, none


def match_source(d, x):
    """Resolve a published value to its get_match call: returns (block_of_call, call_term, var_or_None)."""
    b = d.b
    var = None
    if is_var(x):
        var = x
        t = b.def_term(x[2])
        if t is None:
            return None
        x2 = t
    else:
        x2 = x
    if is_call(x2, r'^automaton::get_match$'):
        return (x2[3], x2, var)
    return None


def sid_is_start_only(d, blk, sid_term):
    """Does the state id used at blk come only from start_state (never from next_state or a saved state)?"""
    b = d.b
    if not is_var(sid_term):
        # already the expression itself (e.g. the payload of start_state(..)?, spelled out)
        t = peel_all(sid_term)
        for _ in range(6):
            if t[0] == 'try':
                t = peel_all(t[1])
            elif t[0] == 'f' and t[1][0] == 'dc' and t[1][2] in ('Ok', 'Continue', 'Some'):
                t = peel_all(t[1][1])
            elif is_call(t, r'Try::branch$'):
                t = peel_all(t[2][0])
            else:
                break
        return is_call(t, r'Automaton::start_state$')
    seen = set()
    work = [(sid_term[2], blk, 'term')]
    while work:
        l, bb, ii = work.pop()
        rds = reaching_defs(b, l, bb, ii)
        if not rds:
            return False
        for db, di, kind, obj in rds:
            key = (l, db, di)
            if key in seen:
                continue
            seen.add(key)
            t = b.call_term(db, obj) if kind == 'call' else b.rvalue_term(obj['r'], 0, db)
            t = peel_all(t)
            # payload of an explicit `match start_state(..) { Ok(sid) => sid, Err(e) => return Err(e) }`
            while t[0] == 'f' and t[1][0] == 'dc' and t[1][2] in ('Ok', 'Continue', 'Some'):
                t = peel_all(t[1][1])
                if is_call(t, r'Try::branch$'):
                    t = peel_all(t[2][0])
            if is_call(t, r'Automaton::start_state$'):
                continue
            if is_var(t):
                work.append((t[2], db, di))
                continue
            return False
    return True


# =================================================================================================== C09
def r09_1(cx):
    n = 0
    for path in (FIND_IMP, OVER_IMP):
        d = Driver(cx, path)
        b = d.b
        some, none = publications(d)
        for bi, si, x in some:
            src = match_source(d, x)
            if src is None:
                cx.bad('R09.1', b, 'publication@%d' % n, 'published match %s does not come from get_match' % tstr(x, 120), line_of(b, bi, si))
                n += 1
                continue
            cb, ct, var = src
            sid = peel(ct[2][1])
            tag = 'start' if sid_is_start_only(d, cb, sid) else ('loop' if cb in d.loop else 'resume')
            n += 1
            if tag == 'start':
                # start-state matches are empty matches at the start of the search: position must be input.start()/the initial cursor
                pos = ct[2][3]
                okp = d.input_call(pos, 'start')
                if not okp and pos == d.cur:
                    # the cursor itself: its only definition that can reach this point must be input.start()
                    doms = [(x0, z0) for x0, y0, z0 in d.cursor_defs() if b.dominates(x0, cb)]
                    okp = len(doms) >= 1 and all(d.input_call(z0, 'start') for x0, z0 in doms)
                cx.report('R09.1', b, 'publication:start', okp, 'start-state match is published at the search start (exempt from the anchored filter)' if okp else 'start-state match is published at %s' % tstr(pos, 80), line_of(b, bi, si))
                continue
            m = var if var is not None else x
            ag = d.anchored_gates()
            cut = [e for g in ag for e in g[3]]
            for blk, passe, reje in d.start_filter_gates(m):
                cut += passe
            ok = bool(ag) and not reachable_without(b, [bi], cut, src=cb)
            cx.report('R09.1', b, 'publication:%s@%s' % (tag, 'idx0' if ct[2][2] == ('c', 0) else 'idx'), ok,
                      'a match from a %s state is published only if the search is unanchored or m.start() <= input.start()' % tag if ok else
                      'a match obtained from a %s state is published without the anchored-start filter (anchored && m.start() > input.start())' % tag, line_of(b, bi, si))
    cx.floor('R09.1', 'match publications in the search drivers', n, 5)


def nfa_next_state(cx, which):
    return cx.body('<nfa::%s::NFA as automaton::Automaton>::next_state' % which)


class FailLoop:
    """The failure loop of an NFA next_state on iteration summaries: header, the loop-carried state variable S (the only
    modified local whose arrival value an iteration reads), the rows that repeat and the rows that return."""
    def __init__(self, cx, which):
        from acverif.sym import Sym, loop_rows, live_in
        self.b = b = nfa_next_state(cx, which)
        self.ok = False
        loops = b.loops()
        if not loops:
            return
        self.h = h = max(loops, key=lambda x: len(loops[x]))
        self.rows = loop_rows(cx.facts, b, h)
        self.live = live_in(cx.facts, b, h)
        sym = Sym(cx.facts, b)
        self.S = None
        cand = [l for l in self.live if re.search(r'^util::primitives::StateID$', b.locals[l]['ty'])]
        if len(cand) == 1:
            self.S = cand[0]
            self.St = sym.default_local(self.S)
        self.anch = param_of_type(b, r'^util::search::Anchored$')
        self.repeat = [r for r in self.rows if r.end == ('stop', h)]
        self.ok = self.S is not None and bool(self.repeat)

    def anchored_val(self, r):
        from acverif.sym import canon
        for c, v in r.conds:
            cc = canon(c)
            if is_call(cc, r'Anchored::is_anchored$') and self.anch and peel(cc[2][0]) == self.anch:
                return v
        return None


def r09_2(cx):
    for which in ('noncontiguous', 'contiguous'):
        K = FailLoop(cx, which)
        b = K.b
        if not K.ok:
            cx.bad('R09.2', b, 'fail-link-guard', 'next_state: failure loop / loop-carried state id not recognised')
            continue
        ok = all(K.anchored_val(r) is False for r in K.repeat)
        cx.report('R09.2', b, 'fail-link-guard', ok, 'the failure link is followed only when the search is not anchored (%d repeating path(s))' % len(K.repeat) if ok else 'the failure link can be followed in an anchored search')
        dead = [r for r in K.rows if K.anchored_val(r) is True]
        okd = bool(dead) and all(r.end == 'return' and r.ret is not None and peel(r.ret)[0] == 'k' and peel(r.ret)[1].endswith('NFA::DEAD') and peel(r.ret)[2] == 0 for r in dead)
        # ... and DEAD is returned exactly where the unanchored search follows the failure link: every anchored DEAD path has an
        # unanchored twin (same decisions otherwise) that repeats the loop -- an anchored search does not give up earlier
        from acverif.sym import cstr as _cs, canon as _cn

        def others(r):
            return sorted((_cs(_cn(c)), repr(v)) for c, v in r.conds if not is_call(_cn(c), r'Anchored::is_anchored$'))
        twins = [others(r) for r in K.repeat]
        okt = okd and all(others(r) in twins for r in dead)
        cx.report('R09.2', b, 'anchored-dead', okd and okt, 'in anchored mode a missing transition yields DEAD, on exactly the paths on which the unanchored search follows the failure link' if okd and okt else
                  ('the anchored edge does not return DEAD' if not okd else 'an anchored search returns DEAD on a path where the lookup is not finished (the unanchored search would go on looking)'))


def imp_calls(cx, outer, inner):
    b = cx.body(outer)
    return b, [(bi, b.call_term(bi, t)) for bi, t in b.calls('^' + re.escape(inner) + '$')]


def r09_3(cx):
    """no prefilter when anchored, decided on the path summaries of try_find_fwd / try_find_overlapping_fwd: on every path the
    prefilter argument of the driver is None unless the path decided !input.get_anchored().is_anchored(), and a prefilter that
    is passed is aut.prefilter()"""
    from acverif.sym import summarize, canon, cstr
    for outer, inner in ((FIND, FIND_IMP), (OVER, OVER_IMP)):
        b = cx.body(outer)
        inp = cstr(param_of_type(b, r'util::search::Input<'))
        aut = cstr(param_at(b, 1))
        rows = [r for r in summarize(cx.facts, b) if r.end in ('return', 'diverge')]
        n = with_pre = 0
        why = None
        for r in rows:
            cs = [canon(c) for c in r.calls('^' + re.escape(inner) + '$')]
            if not cs:
                continue
            if len(cs) != 1:
                why = why or 'a path calls the driver %d times' % len(cs)
                continue
            n += 1
            pre = cs[0][2][2]
            anch = None
            for c, v in r.conds:
                cc = canon(c)
                if is_call(cc, r'Anchored::is_anchored$') and cstr(cc[2][0]) in ('util::search::Input::get_anchored(%s)' % inp, '%s.anchored' % inp):
                    anch = v
            if is_agg(pre, r'Option$', 'None'):
                continue
            with_pre += 1
            if anch is not False:
                why = why or 'a prefilter is handed to the search on a path where the input may be anchored'
            src = pre[3]['0'] if is_agg(pre, r'Option$', 'Some') else pre
            pf = 'automaton::Automaton::prefilter(%s)' % aut
            if not (cstr(src) in (pf, '(%s as Some).0' % pf) or (is_call(src, r'Option::unwrap$') and cstr(src[2][0]) == pf)):
                why = why or 'the prefilter passed is %s, not aut.prefilter()' % tstr(canon(src), 100)
        if n == 0:
            why = why or 'no path calls the driver'
        if with_pre == 0:
            why = why or 'no path hands the prefilter to the driver'
        cx.report('R09.3', b, 'prefilter-arg', why is None, 'the driver receives aut.prefilter() only on paths that decided !input.get_anchored().is_anchored(); None otherwise (%d calling paths, %d with a prefilter)' % (n, with_pre) if why is None else why)


def r09_4(cx):
    """mode plumbing, on the path summaries of try_find_fwd: the anchoring mode handed to the driver is Anchored::Yes only on paths
    that decided input.get_anchored().is_anchored(), Anchored::No only on paths that decided its negation, or the input's own mode;
    aut and input are passed through"""
    from acverif.sym import summarize, canon, cstr
    b = cx.body(FIND)
    inp = cstr(param_of_type(b, r'util::search::Input<'))
    autp = cstr(param_at(b, 1))
    why = None
    n = 0
    for r in summarize(cx.facts, b):
        cs = [canon(c) for c in r.calls('^' + re.escape(FIND_IMP) + '$')]
        if not cs:
            continue
        n += 1
        anch = None
        for c, v in r.conds:
            cc = canon(c)
            if is_call(cc, r'Anchored::is_anchored$') and cstr(cc[2][0]) in ('util::search::Input::get_anchored(%s)' % inp, '%s.anchored' % inp):
                anch = v
        for ct in cs:
            a = ct[2][3]
            if is_agg(a, r'Anchored$', 'Yes'):
                ok = anch is True
            elif is_agg(a, r'Anchored$', 'No'):
                ok = anch is False
            else:
                ok = cstr(a) in ('util::search::Input::get_anchored(%s)' % inp, '%s.anchored' % inp)
            if not ok or cstr(ct[2][0]) != autp or cstr(ct[2][1]) != inp:
                why = why or 'the anchoring mode / aut / input handed to try_find_fwd_imp does not follow the request: %s' % tstr(ct, 200)
    if n == 0:
        why = why or 'no path calls try_find_fwd_imp'
    cx.report('R09.4', b, 'mode', why is None, 'the driver is specialised to Anchored::Yes only on the anchored paths and to Anchored::No only on the unanchored ones (%d calling paths); aut and input are passed through' % n if why is None else why)
    for path in (FIND_IMP, OVER_IMP):
        d = Driver(cx, path)
        b = d.b
        for bi, t in b.calls(r'Automaton::start_state$'):
            ct = b.call_term(bi, t)
            ok = peel(ct[2][0]) == d.aut and d.input_call(ct[2][1], 'get_anchored')
            cx.report('R09.4', b, 'start_state', ok, 'start_state(input.get_anchored())' if ok else 'start state requested as %s' % tstr(ct, 120), line_of(b, bi))
        for bi, t in d.ns:
            ct = b.call_term(bi, t)
            m = peel(ct[2][1])
            ok = peel(ct[2][0]) == d.aut and ((d.anch is not None and m == d.anch) or d.input_call(m, 'get_anchored'))
            cx.report('R09.4', b, 'next_state-mode', ok, 'next_state receives the request\'s anchoring mode' if ok else 'next_state mode is %s' % tstr(m, 80), line_of(b, bi))
    # iterator probes and restarts
    fi = cx.body("automaton::FindIter::<'a, 'h, A>::search")
    t = fi.local_term(0, expand=True)
    ok = is_call(t, r'Result::expect$') and is_call(t[2][0], r'Automaton::try_find$') and peel(t[2][0][2][1])[0] == 'f' and peel(t[2][0][2][1])[2] == 'input'
    cx.report('R09.4', fi, 'iter-search', ok, 'the iterator searches with its own input (anchoring preserved)' if ok else 'FindIter::search = %s' % tstr(t, 160))


# =================================================================================================== C10
def r10_2(cx):
    for outer, inner in ((FIND, FIND_IMP), (OVER, OVER_IMP)):
        b, calls = imp_calls(cx, outer, inner)
        inp = param_of_type(b, r'util::search::Input<')
        g = bool_gates(b, lambda x: is_call(x, r'Input::is_done$') and peel(x[2][0]) == inp)
        cut = [e for x in g for e in x[3]]
        targets = [bi for bi, ct in calls] + [bi for bi, t in b.calls(r'Automaton::(prefilter|start_state|next_state)$')]
        ok = bool(g) and bool(calls) and not reachable_without(b, targets, cut)
        # the done edge returns the empty result
        okr = bool(g)
        for x in g:
            for _, tg in x[2]:
                r = b.reach(tg)
                vals = [b.rvalue_term(st['r'], 0, y) for y in r for st in b.blocks[y]['stmts'] if st['k'] == 'assign' and st['p']['l'] == 0 and not st['p']['pr']]
                if len(vals) != 1 or not is_agg(vals[0], r'Result$', 'Ok'):
                    okr = False
                else:
                    v = vals[0][3]['0']
                    if not (is_agg(v, r'Option$', 'None') or is_agg(v, 'tuple')):
                        okr = False
                if any(b.blocks[y]['term']['k'] == 'call' and re.search(r'^(automaton|util::prefilter)::', b.blocks[y]['term']['callee'].get('path', '')) for y in r):
                    okr = False
        cx.report('R10.2', b, 'done-gate', ok and okr, 'a done input returns the empty result before the automaton is touched' if ok and okr else 'the search proper is reachable for an input whose start lies past its end (or the done edge does not return the empty result)')


def r10_3(cx):
    for path in (FIND_IMP, OVER_IMP):
        d = Driver(cx, path)
        b = d.b
        # haystack reads: idx terms over Input::haystack(input)
        reads = []
        for blk in sorted(b.live_blocks()):
            t = b.term(blk)
            terms = []
            if t['k'] == 'call':
                terms.append(b.call_term(blk, t))
            for st in b.blocks[blk]['stmts']:
                if st['k'] == 'assign':
                    terms.append(b.rvalue_term(st['r'], 0, blk))
            for tm in terms:
                for s in subterms(tm):
                    if s[0] == 'idx' and d.input_call(peel(s[1]), 'haystack'):
                        reads.append((blk, s[2]))
                    if s[0] in ('slice',) and d.input_call(peel(s[1]), 'haystack'):
                        reads.append((blk, ('s', 'slice')))
                    if is_call(s, r'Index::index$') and d.input_call(peel(s[2][0]), 'haystack'):
                        reads.append((blk, ('s', 'index-call')))
        reads = list({(blk, tstr(i)): (blk, i) for blk, i in reads}.values())
        endg = []
        for blk, sc in b.switches():
            if sc[0] != 'bool':
                continue

            def fn(y):
                if y == d.cur:
                    return atom('CUR')
                if d.input_call(y, 'end'):
                    return atom('END')
                return None
            cn = cmp_norm(rewrite(sc[1], fn))
            if cn == cmp_norm(('op', 'Lt', atom('CUR'), atom('END'))):
                endg.append((blk, [(blk, t) for t in sc[2]]))
            elif cn is not None and negate(cn) == cmp_norm(('op', 'Lt', atom('CUR'), atom('END'))):
                endg.append((blk, [(blk, t) for t in sc[3]]))
        cut = [e for g in endg for e in g[1]]
        gblocks = [g[0] for g in endg]
        n = 0
        for blk, idx in reads:
            n += 1
            ok = idx == d.cur and bool(endg) and not reachable_without(b, [blk], cut)
            # no redefinition of the cursor between the gate and the read
            if ok:
                for db, di, val in d.cursor_defs():
                    if blk in b.reach_after(db, cut_blocks=gblocks) - set(gblocks):
                        ok = False
            cx.report('R10.3', b, 'read@%d' % n, ok, 'haystack[cursor] is read only after cursor < input.end() with no cursor update in between' if ok else
                      'haystack is read at %s without a dominating `cursor < input.end()` test for the current cursor value' % tstr(idx, 80), line_of(b, blk))
        cx.floor('R10.3', 'haystack reads in %s' % path.split('::')[-1], n, 1)
        # cursor definitions
        for db, di, val in d.cursor_defs():
            v = expand_vars(b, val, keep=('at', 'state', 'input', 'pre', 'span'))
            if peel_all(v) == d.cur:
                continue        # cursor = cursor (a helper handing the unchanged offset back): no definition
            kind = None
            if d.input_call(v, 'start'):
                kind = 'init'
            elif d.plus1(v):
                kind = 'plus1'
            else:
                p = peel_all(v)
                if p[0] == 'f' and p[1][0] == 'dc' and p[1][2] in ('PossibleStartOfMatch', 'Some'):
                    src = p[1][1]
                    if is_call(src, r'Candidate::into_option$'):
                        src = src[2][0]
                    if is_call(src, r'Prefilter::find_in$') and d.input_call(peel(src[2][1]), 'haystack'):
                        sp = peel_all(src[2][2])
                        if d.input_call(sp, 'get_span'):
                            kind = 'candidate(get_span)'
                        else:
                            sp = expand_vars(b, sp, keep=('at', 'state', 'input'))
                            sp = peel_all(sp)
                            if is_agg(sp, r'core::ops::Range$') and sp[3]['start'] == d.cur and d.input_call(sp[3]['end'], 'end'):
                                kind = 'candidate(cursor..end)'
                            elif is_call(sp, r'Span') or is_agg(sp, r'Span$'):
                                kind = None
            if kind is not None and not d.over:
                # where: before the walk the cursor is the search start or the first candidate; inside it only moves forward
                inloop = db in d.loop
                if (inloop and kind in ('init', 'candidate(get_span)')) or (not inloop and kind in ('plus1', 'candidate(cursor..end)')):
                    cx.report('R10.3', b, 'cursor-def:%s' % kind, False, 'cursor definition `%s` %s the search loop (a byte of the span is skipped or revisited)' % (kind, 'inside' if inloop else 'before'), line_of(b, db, di))
                    continue
            cx.report('R10.3', b, 'cursor-def:%s' % (kind or 'other'), kind is not None,
                      'cursor definition: %s' % kind if kind else 'cursor is assigned %s (allowed: input.start(), +1, a prefilter candidate for get_span() or for cursor..input.end())' % tstr(v, 160), line_of(b, db, di))
    g = cx.body('automaton::get_match')
    from acverif.sym import summarize, canon, cstr, teval, by_cstr
    grows = [r for r in summarize(cx.facts, g) if r.end == 'return']
    ok = len(grows) == 1
    t = canon(grows[0].ret) if ok else ('s', '%d paths' % len(grows))
    if ok:
        AUT, SID, IDX, AT = (cstr(param_at(g, i)) for i in (1, 2, 3, 4))
        PID = 'automaton::Automaton::match_pattern(%s, %s, %s)' % (AUT, SID, IDX)
        ok = is_call(t, r'util::search::Match::(new|must)$') and cstr(t[2][0]) == PID
        rg = t[2][1] if ok else None
        if ok and is_agg(rg, r'core::ops::Range$|util::search::Span$') and isinstance(rg[3], dict):
            try:
                at = by_cstr({AT: 50, 'automaton::Automaton::pattern_len(%s, %s)' % (AUT, PID): 7})
                ok = teval(rg[3]['start'], at) == 43 and teval(rg[3]['end'], at) == 50
            except Exception:
                ok = False
        else:
            ok = False
    cx.report('R10.3', g, 'get_match', ok, 'get_match = Match::new(match_pattern(sid, index), at - pattern_len(pid) .. at)' if ok else 'get_match builds %s' % tstr(t, 200))


# =================================================================================================== C05 use sites / C19 progress
def special_gates(d):
    b = d.b
    sid_ok = lambda x: len(x[2]) == 2 and peel(x[2][0]) == d.aut and var_of_type(b, peel(x[2][1]), r'^util::primitives::StateID$')
    sp = bool_gates(b, lambda x: is_call(x, r'Automaton::is_special$') and sid_ok(x))
    dd = bool_gates(b, lambda x: is_call(x, r'Automaton::is_dead$') and sid_ok(x))
    mm = [g for g in bool_gates(b, lambda x: is_call(x, r'Automaton::is_match$') and sid_ok(x)) if g[0] in d.loop]
    return sp, dd, mm


def verdict_gates(d):
    """branches on the in-loop prefilter answer `pre.find_in(..).into_option()`, however the answer is named on the way"""
    b = d.b

    def is_verdict(x):
        y = peel_all(expand_vars(b, x, keep=lambda v: v == d.cur or (v[0] == 'v' and 1 <= v[2] <= b.j['arg_count'])))
        return is_call(y, r'Candidate::into_option$') and is_call(peel_all(y[2][0]), r'Prefilter::find_in$')
    return discr_gates(b, is_verdict)


def r05_6(cx):
    for path in (FIND_IMP, OVER_IMP):
        d = Driver(cx, path)
        b = d.b
        sites = [(bi, b.call_term(bi, t)) for bi, t in b.calls(r'util::prefilter::Prefilter::find_in$')]
        sp, dd, mm = special_gates(d)
        inloop = [(bi, ct) for bi, ct in sites if bi in d.loop]
        pre = [(bi, ct) for bi, ct in sites if bi not in d.loop]
        cx.report('R05.6', b, 'sites', len(inloop) == 1 and len(pre) == (0 if d.over else 1), '%d pre-loop and %d in-loop prefilter call(s)' % (len(pre), len(inloop)) if len(inloop) == 1 and len(pre) == (0 if d.over else 1) else
                  'unexpected prefilter call sites: %d before the loop, %d inside' % (len(pre), len(inloop)))
        for bi, ct in pre:
            ok = d.input_call(peel(ct[2][1]), 'haystack') and d.input_call(peel_all(ct[2][2]), 'get_span')
            cx.report('R05.6', b, 'pre-loop-span', ok, 'the initial prefilter call searches input.haystack() over input.get_span()' if ok else 'initial prefilter call is %s' % tstr(ct, 160), line_of(b, bi))
            # its three outcomes
            gs = discr_gates(b, lambda x: is_call(x, r'Prefilter::find_in$') and x[3] == bi)
            okm = False
            if gs:
                gb, x, arms, oth = gs[0]
                vmap = {v['name']: i for i, v in enumerate(cx.facts.adts['util::prefilter::Candidate']['variants'])}
                none_t, match_t, poss_t = arms.get(vmap['None']), arms.get(vmap['Match']), arms.get(vmap['PossibleStartOfMatch'])
                def ret_of(tg):
                    r = b.reach(tg, cut_blocks=[d.header] if d.header is not None else [])
                    return [b.rvalue_term(st['r'], 0, y) for y in r for st in b.blocks[y]['stmts'] if st['k'] == 'assign' and st['p']['l'] == 0 and not st['p']['pr']]
                def opt_of(v):
                    # the Option handed to Ok(..), looked through a named intermediate
                    if not is_agg(v, r'Result$', 'Ok'):
                        return None
                    o = v[3]['0']
                    if is_var(o):
                        o = peel_all(expand_vars(b, o, keep=lambda y: y[0] == 'v' and 1 <= y[2] <= b.j['arg_count']))
                    return o
                rn = ret_of(none_t) if none_t is not None else []
                rm = ret_of(match_t) if match_t is not None else []
                okn = len(rn) == 1 and is_agg(rn[0], r'Result$', 'Ok') and is_agg(opt_of(rn[0]), r'Option$', 'None')
                okmm = False
                if len(rm) == 1 and is_agg(rm[0], r'Result$', 'Ok') and is_agg(opt_of(rm[0]), r'Option$', 'Some'):
                    mv = expand_vars(b, opt_of(rm[0])[3]['0'], keep=('pre', 'input'))
                    okmm = mv[0] == 'f' and mv[1][0] == 'dc' and mv[1][2] == 'Match' and is_call(mv[1][1], r'Prefilter::find_in$')
                okposs = poss_t is not None and d.header in b.reach(poss_t)
                okm = okn and okmm and okposs
            cx.report('R05.6', b, 'pre-loop-outcomes', okm, 'None -> no match, Match(m) -> exactly m, PossibleStartOfMatch(i) -> continue at i' if okm else 'the three candidate outcomes are not handled as specified', line_of(b, bi))
        for bi, ct in inloop:
            sp_t = peel_all(expand_vars(b, ct[2][2], keep=('at', 'state', 'input')))
            oks = d.input_call(peel(ct[2][1]), 'haystack') and is_agg(sp_t, r'core::ops::Range$') and sp_t[3]['start'] == d.cur and d.input_call(sp_t[3]['end'], 'end')
            cx.report('R05.6', b, 'in-loop-span', oks, 'the in-loop prefilter call searches cursor..input.end()' if oks else 'in-loop prefilter span is %s' % tstr(sp_t, 160), line_of(b, bi))
            # only on is_special && !is_dead && !is_match
            cut = [e for g in sp for e in g[2]]
            ok1 = bool(sp) and not reachable_without(b, [bi], cut, src=d.nsb)
            cut = [e for g in dd for e in g[3]]
            ok2 = bool(dd) and not reachable_without(b, [bi], cut, src=d.nsb)
            cut = [e for g in mm for e in g[3]]
            ok3 = bool(mm) and not reachable_without(b, [bi], cut, src=d.nsb)
            cx.report('R05.6', b, 'in-loop-guard', ok1 and ok2 and ok3, 'the prefilter is consulted only in a special, non-dead, non-match (i.e. start) state' if ok1 and ok2 and ok3 else
                      'the prefilter can be consulted outside a start state (special=%s, not-dead=%s, not-match=%s)' % (ok1, ok2, ok3), line_of(b, bi))
            # result handling: None -> return no match; Some(i): cursor = i only if i > cursor, skipping the +1
            og = verdict_gates(d)
            okr = False
            if og:
                gb, x, arms, oth = og[0]
                none_t = arms.get(0, oth)
                r = b.reach(none_t, cut_blocks=[d.header])
                vals = [ret_norm(b, b.rvalue_term(st['r'], 0, y)) for y in r for st in b.blocks[y]['stmts'] if st['k'] == 'assign' and st['p']['l'] == 0 and not st['p']['pr']]
                okr = d.header not in r and len(vals) == 1 and is_agg(vals[0], r'Result$', 'Ok') and (is_agg(vals[0][3]['0'], r'Option$', 'None') or is_agg(vals[0][3]['0'], 'tuple'))
            cx.report('R05.6', b, 'in-loop-none', okr, 'no candidate -> the search ends without a further match' if okr else 'a None candidate does not end the search', line_of(b, bi))


def r19_1(cx):
    for path in (FIND_IMP, OVER_IMP):
        d = Driver(cx, path)
        b = d.b
        if d.nsb is None or d.header is None:
            cx.bad('R19.1', b, 'loop', 'search loop with a single next_state call not found')
            continue
        incr = []
        okdefs = True
        for db, di, val in d.cursor_defs():
            if db not in d.loop:
                continue
            v = expand_vars(b, val, keep=('at', 'state', 'input', 'i'))
            if d.plus1(v):
                incr.append(db)
                continue
            # cursor = i guarded by i > cursor (i: any spelling of one value, e.g. the payload of the prefilter's answer)
            keepcur = (lambda x: x == d.cur or (x[0] == 'v' and 1 <= x[2] <= b.j['arg_count']))
            ivx = peel_all(expand_vars(b, val, keep=keepcur))
            if ivx != d.cur and not d.plus1(ivx):
                iv = v

                def fn(y, iv=iv, ivx=ivx):
                    if y == d.cur:
                        return atom('CUR')
                    if y == iv or (isinstance(y, tuple) and y[0] in ('v', 'f', 't') and peel_all(expand_vars(b, y, keep=keepcur)) == ivx):
                        return atom('I')
                    return None
                gates = []
                for blk, sc in b.switches():
                    if sc[0] != 'bool':
                        continue
                    cn = cmp_norm(rewrite(sc[1], fn))
                    if cn == cmp_norm(('op', 'Gt', atom('I'), atom('CUR'))):
                        gates += [(blk, t) for t in sc[2]]
                    elif cn is not None and negate(cn) == cmp_norm(('op', 'Gt', atom('I'), atom('CUR'))):
                        gates += [(blk, t) for t in sc[3]]
                if gates and not reachable_without(b, [db], gates, src=d.nsb):
                    incr.append(db)
                    continue
            okdefs = False
            cx.bad('R19.1', b, 'cursor-def', 'inside the search loop the cursor is assigned %s, which is neither +1 nor a candidate guarded by `candidate > cursor`' % tstr(v, 120), line_of(b, db, di))
        cx.report('R19.1', b, 'cursor-monotone', okdefs and len(incr) >= 1, 'inside the loop the cursor is only increased (+1, or a jump forward guarded by i > cursor)' if okdefs and incr else 'cursor updates in the loop are not all strict increases')
        # every cycle through next_state passes a strict increase
        r = b.reach_after(d.nsb, cut_blocks=incr)
        ok = d.nsb not in r
        cx.report('R19.1', b, 'progress', ok, 'every cycle through next_state passes a strict increase of the cursor (at most one transition per cursor value)' if ok else 'a cycle through next_state exists that does not advance the cursor')
        # the jump forward skips the +1 (otherwise a candidate position would be stepped over)
        plus = [db for db, di, val in d.cursor_defs() if db in d.loop and d.plus1(expand_vars(b, val, keep=('at', 'state')))]
        jumps = [x for x in incr if x not in plus]
        okj = all(not (set(plus) & b.reach_after(j, cut_blocks=[d.header])) for j in jumps)
        cx.report('R05.6', b, 'jump-skips-increment', okj and bool(jumps), 'after jumping to a candidate the cursor is not additionally incremented' if okj and jumps else 'the candidate jump is followed by cursor += 1 (skips the candidate byte) or no jump exists')
        # loop guard bounds the cursor: next_state only after cursor < input.end() (R10.3)


def r19_2(cx):
    b = cx.body('<dfa::DFA as automaton::Automaton>::next_state')
    ok = not b.back_edges()
    from acverif.rl import CallGraph
    cg = CallGraph(cx.facts)
    R = cg.reachable([b.path])
    loops = [p for p in R if cx.facts.bodies[p].back_edges()]
    idx = 0
    for blk in b.live_blocks():
        for st in b.blocks[blk]['stmts']:
            if st['k'] == 'assign':
                for s in subterms(b.rvalue_term(st['r'], 0, blk)):
                    if s[0] == 'idx':
                        idx += 1
    calls = [short(t['callee']['path']) for bi, t in b.calls()]
    cx.report('R19.2', b, 'loop-free', ok and not loops, 'DFA::next_state and everything it calls (%d local functions) is loop-free: one class lookup, one table lookup' % len(R) if ok and not loops else 'DFA::next_state contains a loop (%s)' % loops)
    bad = [c for c in calls if re.search(r'fail|next_state|follow', c)]
    cx.report('R19.2', b, 'no-failure-walk', not bad, 'no failure traversal in the DFA transition' if not bad else 'DFA transition calls %s' % bad)


def r19_3(cx):
    for which in ('noncontiguous', 'contiguous'):
        b = nfa_next_state(cx, which)
        loops = b.loops()
        if not loops:
            cx.bad('R19.3', b, 'loop', 'no failure loop found')
            continue
        h = max(loops, key=lambda x: len(loops[x]))
        blks = loops[h]
        sidp = param_of_type(b, r'^util::primitives::StateID$')
        sl = [sidp[2]] if sidp else []
        inner = [x for x in loops if x != h]
        okin = all(loops[x] < blks for x in inner)
        # inner loops must be iterator-driven (bounded by a slice / chunk iterator)
        for x in inner:
            sc = b.switch_cond(x) if b.blocks[x]['term']['k'] == 'switch' else None
            drives = [t for bi, t in b.calls(r'Iterator::next$') if bi in loops[x]]
            if not drives:
                okin = False
        cx.report('R19.3', b, 'loop-shape', okin, 'one failure loop%s' % (' plus %d bounded iterator loop(s) nested in it' % len(inner) if inner else '') if okin else 'unexpected loop structure')
        # loop-carried state of the failure loop: only the state id
        from acverif.sym import canon, cstr, teval, by_cstr
        K = FailLoop(cx, which)
        names = sorted((b.locals[l]['names'] or ['_%d' % l])[0] for l in K.live)
        okc = K.S is not None and K.live == {K.S}
        cx.report('R19.3', b, 'carried', okc, 'the only loop-carried variable of the failure loop is the state id' if okc else 'loop-carried variables: %s' % names)
        # every repetition replaces the state id by the failure link of the current state
        okf = K.ok
        back = [(s_, h) for s_ in b.pred(h) if s_ in blks]
        if okf:
            for r in K.repeat:
                v = canon(r.env.get(K.S, K.St))
                if which == 'noncontiguous':
                    x = v
                    if is_call(x, r'State::fail$'):
                        x = ('f', x[2][0], 'fail')
                    good = x[0] == 'f' and x[2] == 'fail' and (is_call(x[1], r'Index::index$') and cstr(x[1][2][0]) == 'self.states' and cstr(x[1][2][1]) == cstr(K.St)
                                                                  or x[1][0] == 'idx' and cstr(x[1][1]) == 'self.states' and cstr(x[1][2]) == cstr(K.St))
                else:
                    idx = [x[2] for x in subterms(v) if x[0] == 'idx' and cstr(x[1]) == 'self.repr'] + [x[2][1] for x in subterms(v) if is_call(x, r'Index::index$') and cstr(x[2][0]) == 'self.repr']
                    good = False
                    if len(idx) == 1 and is_call(v, r'StateID::(from_u32_unchecked|new_unchecked)$'):
                        try:
                            good = teval(idx[0], by_cstr({cstr(K.St): 40})) == 41
                        except Exception:
                            good = False
                if not good:
                    okf = False
        cx.report('R19.3', b, 'fail-step', okf, 'each repetition of the failure loop replaces sid by the current state\'s failure link' if okf else 'the failure loop can repeat without following exactly the failure link of sid')
        if which == 'noncontiguous':
            def failtest(x):
                e = eq_cond(x)
                if not e:
                    return False
                return any(s[0] == 'k' and s[1].endswith('NFA::FAIL') for s in (peel(e[0]), peel(e[1])))
            fg = bool_gates(b, failtest)
            cut = []
            for g in fg:
                e = eq_cond(g[1])
                cut += g[2] if e[2] else g[3]
            ok = bool(fg) and not any((s in b.reach(h, cut_edges=cut)) for s, _ in back)
            cx.report('R19.3', b, 'back-edge-on-FAIL', ok, 'the loop repeats only when the lookup produced FAIL; any other result is returned' if ok else 'the failure loop can repeat although a transition was found (or no FAIL test exists)')


# =================================================================================================== C14 / C02 flag plumbing
def r02_1(cx):
    from acverif.rl import value_roots
    b, calls = imp_calls(cx, FIND, FIND_IMP)
    inp = param_of_type(b, r'util::search::Input<')
    autp = param_at(b, 1)
    # the flag: the user boolean that reaches the `earliest` argument of the driver calls
    cand = user_locals_of_type(b, r'^bool$')
    flag = None
    for bi, ct in calls:
        e = peel(ct[2][4])
        if is_var(e) and e[2] in cand:
            flag = e
    if flag is None and len(cand) == 1:
        flag = ('v', b.locals[cand[0]]['names'][0], cand[0])
    if flag is None:
        cx.bad('R02.1', b, 'earliest', 'the earliest flag of try_find_fwd could not be identified')
        return
    E = flag
    defs = var_defs_terms(b, E[2])
    sg = bool_gates(b, lambda x: is_call(x, r'MatchKind::is_standard$') and is_call(x[2][0], r'Automaton::match_kind$') and peel(x[2][0][2][0]) == autp)
    ok = len(defs) >= 1
    why = []
    saw_std = False
    for bi, si, t in defs:
        t = expand_vars(b, t, keep=())
        if t == ('c', 1):
            saw_std = True
            # only on the standard edge
            if not sg or reachable_without(b, [bi], [e for g in sg for e in g[2]]):
                ok = False
                why.append('flag = true outside the is_standard edge')
        elif is_call(t, r'Input::get_earliest$') and peel(t[2][0]) == inp:
            if not sg or reachable_without(b, [bi], [e for g in sg for e in g[3]]):
                ok = False
                why.append('get_earliest decides although the searcher is standard')
        elif t[0] == 'op' and t[1] == 'BitOr':
            sides = [t[2], t[3]]
            if any(is_call(s, r'MatchKind::is_standard$') for s in sides) and any(is_call(s, r'Input::get_earliest$') for s in sides):
                saw_std = True
            else:
                ok = False
                why.append('flag = %s' % tstr(t, 100))
        else:
            ok = False
            why.append('flag = %s' % tstr(t, 100))
    if ok and not saw_std:
        ok = False
        why.append('standard semantics do not force earliest')
    cx.report('R02.1', b, 'earliest-derivation', ok, 'earliest = match_kind().is_standard() || input.get_earliest()' if ok else 'earliest is not is_standard() || get_earliest(): %s' % '; '.join(why))
    eg = bool_gates(b, lambda x: x == E)
    for i, (bi, ct) in enumerate(calls):
        e = peel(ct[2][4])
        if e == E:
            ok = True
            what = 'passes the earliest flag itself'
        elif e[0] == 'c':
            cut = [ed for g in eg for ed in (g[2] if e[1] == 1 else g[3])]
            ok = bool(eg) and not reachable_without(b, [bi], cut)
            what = 'constant %s only on the matching edge of the flag' % bool(e[1])
        else:
            ok = False
            what = ''
        cx.report('R02.1', b, 'earliest-arg@%d' % i, ok, what if ok else 'try_find_fwd_imp receives earliest = %s on a path where the flag may differ' % tstr(e, 60), line_of(b, bi))
    cx.floor('R02.1', 'calls of try_find_fwd_imp', len(calls), 3)


def _is_match_shape(cx):
    """AhoCorasick::is_match(input) = self.try_find(input.earliest(true)).expect(..).is_some(), in any spelling"""
    from acverif.sym import is_some_of, cstr, canon
    b = cx.body('ahocorasick::AhoCorasick::is_match')
    X = is_some_of(cx.facts, b)
    if X is None:
        return b, 'is_match is not `<something>.is_some()`'
    # X = payload of the Ok of try_find(...) (expect / unwrap unfolds to the Ok payload)
    x = X
    if not (x[0] == 'f' and x[1][0] == 'dc' and x[1][2] == 'Ok' and is_call(x[1][1], r'^ahocorasick::AhoCorasick::try_find$')):
        return b, 'is_match asks %s, expected self.try_find(..) unwrapped' % tstr(x, 160)
    call = x[1][1]
    if cstr(call[2][0]) != cstr(param_at(b, 1)):
        return b, 'try_find is not called on self'
    a = call[2][1]
    if not (is_call(a, r'Input::earliest$') and a[2][1] == ('c', 1) and cstr(a[2][0]) == cstr(param_at(b, 2))):
        return b, 'try_find receives %s, expected input.earliest(true)' % tstr(a, 120)
    return b, None


def r14_1(cx):
    b, why = _is_match_shape(cx)
    cx.report('R14.1', b, 'is_match', why is None, 'is_match = try_find(input.earliest(true)).is_some()' if why is None else why)
    from rules.utilfn import builder_sets_only
    e = cx.body("util::search::Input::<'h>::earliest")
    whye = builder_sets_only(cx, "util::search::Input::<'h>::earliest", 'earliest', r'Input::set_earliest$')
    oke = whye is None
    cs = [whye]
    cx.report('R14.1', e, 'earliest-builder', oke, 'Input::earliest(yes) = { self.set_earliest(yes); self }' if oke else 'Input::earliest: %s' % whye)
    se = cx.body("util::search::Input::<'h>::set_earliest")
    st = [(tt, val) for bi, si, tt, val, s in se.field_stores()]
    oks = len(st) == 1 and st[0][0][0] == 'f' and st[0][0][2] == 'earliest' and is_var(st[0][1], 'yes')
    cx.report('R14.1', se, 'set_earliest', oks, 'set_earliest(yes) stores yes into the earliest flag only' if oks else 'set_earliest writes %s' % [(tstr(a), tstr(v)) for a, v in st])
    ge = cx.body("util::search::Input::<'h>::get_earliest")
    t = ge.local_term(0, expand=True)
    okg = t[0] == 'f' and t[2] == 'earliest' and is_var(t[1], 'self')
    cx.report('R14.1', ge, 'get_earliest', okg, 'get_earliest() returns the earliest flag' if okg else 'get_earliest returns %s' % tstr(t, 80))


def r14_3(cx):
    d = Driver(cx, FIND_IMP)
    b = d.b
    E = d.early
    # uses of earliest: only as a switch discriminant
    uses = 0
    bad = []
    for blk in sorted(b.live_blocks()):
        for st in b.blocks[blk]['stmts']:
            if st['k'] == 'assign':
                tm = b.rvalue_term(st['r'], 0, blk)
                if any(s == E for s in subterms(tm)):
                    # copies into a switch temp are fine; detect by destination being an unnamed temp used by this block's switch
                    t = b.term(blk)
                    if t['k'] == 'switch' and t['discr']['k'] in ('copy', 'move') and t['discr']['p']['l'] == st['p']['l']:
                        continue
                    # a plain copy into an anonymous single-definition local (the parameter of a spliced helper) is an alias:
                    # its own uses are looked at through the same term expansion
                    r0 = st['r']
                    if (r0.get('k') == 'use' and not st['p']['pr'] and not b.locals[st['p']['l']]['names'] and len(b.defs().get(st['p']['l'], [])) == 1
                            and b.operand_term(r0['a'], 0, blk) == E):
                        continue
                    bad.append(blk)
        t = b.term(blk)
        if t['k'] == 'call' and any(s == E for a in t['args'] for s in subterms(b.operand_term(a, 0, blk))):
            bad.append(blk)
    eg = bool_gates(b, lambda x: x == E)
    cx.report('R14.3', b, 'flag-uses', not bad and len(eg) >= 2, 'earliest is used only as a branch condition (%d branches)' % len(eg) if not bad and len(eg) >= 2 else 'earliest flows into data/calls at blocks %s or has fewer than 2 branch uses' % bad)
    some, none = publications(d)
    pub_blocks = {bi for bi, si, x in some}
    ml = mat_slots(d)
    MAT = ('v', b.locals[ml[0]]['names'][0], ml[0]) if ml else None
    try:
        from acverif.sym import Sym as _Sym
        carried = set(_Sym(cx.facts, b).loop_mods(d.header)[0]) if d.header is not None else set(range(len(b.locals)))
    except Exception:
        carried = set(range(len(b.locals)))
    for i, (gb, cond, te, fe) in enumerate(eg):
        # true edge: straight to return Ok(mat) with no side effects
        ok = True
        why = ''
        for _, tg in te:
            r = b.reach(tg)
            for y in r:
                blk = b.blocks[y]
                if blk['term']['k'] == 'call':
                    ok = False
                    why = 'a call on the early-return edge'
                for st in blk['stmts']:
                    if st['k'] == 'assign' and (st['p']['pr'] or (b.locals[st['p']['l']]['names'] and st['p']['l'] in carried)) and st['p']['l'] != 0:
                        ok = False
                        why = 'a store on the early-return edge'
                    if st['k'] == 'assign' and st['p']['l'] == 0 and not st['p']['pr']:
                        v = b.rvalue_term(st['r'], 0, y)
                        if is_agg(v, r'Result$', 'Ok') and is_var(v[3]['0']) and v[3]['0'] != MAT:
                            pv = peel_all(expand_vars(b, v[3]['0'], keep=lambda yv: yv == MAT or (yv[0] == 'v' and 1 <= yv[2] <= b.j['arg_count'])))
                            v = ('agg', v[1], v[2], {'0': pv})
                        if not (is_agg(v, r'Result$', 'Ok') and v[3]['0'] == MAT):
                            ok = False
                            why = 'early return yields %s instead of Ok(mat)' % tstr(v, 80)
            if d.header in r:
                ok = False
                why = 'the early-return edge re-enters the loop'
        # the gate is immediately dominated by a publication of mat (same acceptance region): gate block is reached only through a publication
        okp = bool(pub_blocks) and must_pass(b, [gb], pub_blocks)
        # and the false edge rejoins the ordinary flow (reaches the loop or the prefilter section)
        okf = all((d.header in b.reach(tg)) for _, tg in fe)
        cx.report('R14.3', b, 'early-return@%d' % i, ok and okp and okf, 'if earliest: return Ok(mat) right after mat was assigned from get_match; otherwise continue as the normal run' if ok and okp and okf else
                  'earliest branch deviates: %s%s%s' % (why, '' if okp else ' not preceded by a publication of mat;', '' if okf else ' false edge does not continue the normal run'), line_of(b, gb))
    # publications happen only after the anchored filter (shared with R09.1) and the early return follows the publication
    # R14.4: the prefilter's confirmed match is returned in both modes: the pre-loop prefilter call is not control dependent on earliest other than via the start-state return
    pre = [bi for bi, t in b.calls(r'Prefilter::find_in$') if bi not in d.loop]
    for bi in pre:
        dep = [g for g in eg if bi in b.reach(g[0]) and any(bi not in b.reach(s) for s in b.succ(g[0]))]
        okd = all(g[0] not in d.loop and must_pass(b, [g[0]], pub_blocks) for g in dep)
        cx.report('R14.4', b, 'prefilter-both-modes', okd, 'the initial prefilter call is skipped only by the start-state early return' if okd else 'the initial prefilter call depends on earliest in another way', line_of(b, bi))


# =================================================================================================== C01 R01.5 / R01.6 ; C03 R03.1
def r01_5(cx):
    d = Driver(cx, FIND_IMP)
    b = d.b
    some, none = publications(d)
    ml = mat_slots(d)
    MAT = ('v', b.locals[ml[0]]['names'][0], ml[0]) if ml else None
    okn = len(none) == 1 and none[0][0] not in d.loop and b.dominates(none[0][0], d.header)
    cx.report('R01.5', b, 'mat-init', okn, 'mat starts as None before the loop' if okn else 'mat is not initialised to None exactly once before the loop')
    oks = all(match_source(d, x) is not None for bi, si, x in some) and len(some) == 2
    cx.report('R01.5', b, 'mat-defs', oks, 'mat is otherwise assigned only Some(get_match(aut, sid, 0, pos)) (2 sites)' if oks else 'mat has other definitions: %s' % [tstr(x, 80) for _, _, x in some])
    for bi, si, x in some:
        src = match_source(d, x)
        if src is None:
            continue
        cb, ct, var = src
        start = sid_is_start_only(d, cb, peel(ct[2][1]))
        pos = ct[2][3]
        okpos = (pos == d.cur) if start else d.plus1(pos)
        okidx = ct[2][2] == ('c', 0) and peel(ct[2][0]) == d.aut and (peel(ct[2][1]) == d.sidv or is_var(peel(ct[2][1]), 'sid'))
        cx.report('R01.5', b, 'mat-pos:%s' % ('start' if start else 'loop'), okpos and okidx, 'get_match(aut, sid, 0, %s)' % ('at' if start else 'at + 1') if okpos and okidx else 'match is built as %s' % tstr(ct, 160), line_of(b, bi, si))
    # returns
    rets = [(bi, ret_norm(b, b.rvalue_term(st['r'], 0, bi), MAT)) for bi, si, pl, st in b.stores() if si != 'term' and pl['l'] == 0 and not pl['pr']]
    kinds = {'mat': 0, 'none': 0, 'prefilter-match': 0, 'other': 0}
    for bi, v in rets:
        if is_agg(v, r'Result$', 'Ok'):
            p = v[3]['0']
            if is_var(p) and p != MAT:
                # a named intermediate (e.g. the verdict a pre-scan helper handed back): what it holds on this path
                p = peel_all(expand_vars(b, p, keep=lambda y: y == MAT or (y[0] == 'v' and 1 <= y[2] <= b.j['arg_count'])))
            if p == MAT:
                kinds['mat'] += 1
            elif is_agg(p, r'Option$', 'None'):
                kinds['none'] += 1
                # Ok(None) only as a prefilter verdict
                g = discr_gates(b, lambda x: is_call(x, r'Prefilter::find_in$') or is_call(x, r'Candidate::into_option$'))
                if not any(bi in b.reach(gb) for gb, x, arms, oth in g):
                    kinds['other'] += 1
            elif is_agg(p, r'Option$', 'Some'):
                mv = expand_vars(b, p[3]['0'], keep=('pre', 'input'))
                if mv[0] == 'f' and mv[1][0] == 'dc' and mv[1][2] == 'Match' and is_call(mv[1][1], r'Prefilter::find_in$') and mv[1][1][3] not in d.loop:
                    kinds['prefilter-match'] += 1
                else:
                    kinds['other'] += 1
            else:
                kinds['other'] += 1
    ok = kinds['other'] == 0 and kinds['mat'] >= 3 and kinds['prefilter-match'] <= 1
    cx.report('R01.5', b, 'returns', ok, 'returns are Ok(mat) (%d sites), the prefilter\'s confirmed match before the loop (%d) or Ok(None) as a prefilter verdict (%d)' % (kinds['mat'], kinds['prefilter-match'], kinds['none']) if ok else 'unexpected return values: %s' % kinds)
    # dead state and loop exit return Ok(mat)
    sp, dd, mm = special_gates(d)
    okd = bool(dd)
    for g in dd:
        for _, tg in g[2]:
            r = b.reach(tg, cut_blocks=[d.header])
            vals = [v for bi, v in rets if bi in r]
            if d.header in b.reach(tg) and d.header in r:
                okd = False
            if len(vals) != 1 or not (is_agg(vals[0], r'Result$', 'Ok') and vals[0][3]['0'] == MAT):
                okd = False
    cx.report('R01.5', b, 'dead-exit', okd, 'reaching the dead state returns Ok(mat) (the last match seen)' if okd else 'the dead-state exit does not return Ok(mat)')
    exits = [(x, s) for x in d.loop for s in b.succ(x) if s not in d.loop and x == d.header or (s not in d.loop and b.blocks[x]['term']['k'] == 'switch' and x in [g[0] for g in bool_gates(b, lambda y: cmp_norm(y) is not None)])]
    okx = True
    for x, s in [(x, s) for x in d.loop for s in b.succ(x) if s not in d.loop]:
        sc = b.switch_cond(x)
        if sc and sc[0] == 'bool' and cmp_norm(rewrite(sc[1], lambda y: atom('CUR') if y == d.cur else (atom('END') if d.input_call(y, 'end') else None))) in (cmp_norm(('op', 'Lt', atom('CUR'), atom('END'))),):
            r = b.reach(s)
            vals = [v for bi, v in rets if bi in r]
            if len(vals) != 1 or not (is_agg(vals[0], r'Result$', 'Ok') and vals[0][3]['0'] == MAT):
                okx = False
    cx.report('R01.5', b, 'end-exit', okx, 'running out of span returns Ok(mat)' if okx else 'the end-of-span exit does not return Ok(mat)')


def r01_6(cx):
    """FindIter::next on its path summaries: the match yielded is self.search()?, replaced by handle_overlapping_empty_match(m)?
    exactly when it is empty; before Some(m) is returned the input restarts at m.end() and last_match_end = Some(m.end()) for
    that same m; every other path returns None because one of the two calls returned None"""
    from acverif.rl import value_roots
    from acverif.sym import summarize, canon, cstr
    b = cx.body("<automaton::FindIter<'a, 'h, A> as core::iter::Iterator>::next")
    self_input = lambda t: isinstance(t, tuple) and t[0] == 'f' and t[2] == 'input' and is_var(t[1], 'self')
    rows = [r for r in summarize(cx.facts, b) if r.end == 'return']
    why_ret = why_src = why_restart = why_guard = None
    nsome = 0
    for r in rows:
        ret = canon(r.ret) if r.ret is not None else None
        S = [canon(c) for c in r.calls(r'FindIter::search$')]
        H = [canon(c) for c in r.calls(r'FindIter::handle_overlapping_empty_match$')]
        if len(S) != 1 or cstr(S[0][2][0]) != 'self':
            why_src = why_src or 'a path does not call self.search() exactly once'
            continue
        m0 = cstr(('f', ('dc', S[0], 'Some'), '0'))

        def outcome(call):
            for c, v in r.conds:
                cc = canon(c)
                if cc[0] == 'discr' and cstr(cc[1]) == cstr(call):
                    return 'some' if (v == 1 or (isinstance(v, tuple) and v[0] == 'not' and 0 in v[1])) else 'none'
            return None
        emp = None
        for c, v in r.conds:
            cc = canon(c)
            if is_call(cc, r'util::search::Match::is_empty$') and cstr(cc[2][0]) == m0:
                emp = v
        if len(H) > 1 or (H and (cstr(H[0][2][0]) != 'self' or cstr(H[0][2][1]) != m0)):
            why_guard = why_guard or 'handle_overlapping_empty_match is not called once with the match found by search()'
            continue
        if H and emp is not True:
            why_guard = why_guard or 'handle_overlapping_empty_match runs for a match that was not tested to be empty'
        if not H and outcome(S[0]) == 'some' and emp is not False:
            why_guard = why_guard or 'an empty match can be yielded without going through handle_overlapping_empty_match'
        if ret is not None and is_agg(ret, r'Option$', 'None'):
            if not (outcome(S[0]) == 'none' or (H and outcome(H[0]) == 'none')):
                why_ret = why_ret or 'None is returned although a match was found'
            continue
        if not (ret is not None and is_agg(ret, r'Option$', 'Some')):
            why_ret = why_ret or 'a path returns %s' % (tstr(ret, 60) if ret else None)
            continue
        nsome += 1
        M = cstr(ret[3]['0'])
        want = cstr(('f', ('dc', H[0], 'Some'), '0')) if H else m0
        if M != want or outcome(S[0]) != 'some' or (H and outcome(H[0]) != 'some'):
            why_src = why_src or 'the yielded match is %s (expected self.search()?, replaced by handle_overlapping_empty_match(m)? when empty)' % M[:100]
        ENDS = ('util::search::Match::end(%s)' % M, '%s.span.end' % M)
        ss = [c for c in (canon(x) for x in r.calls(r'util::search::Input::set_start$')) if cstr(c[2][0]) == 'self.input']
        lme = [canon(v) for pl, v in r.stores() if cstr(canon(pl)) == 'self.last_match_end']
        if not (len(ss) == 1 and cstr(ss[0][2][1]) in ENDS and len(lme) == 1 and is_agg(lme[0], r'Option$', 'Some') and cstr(lme[0][3]['0']) in ENDS):
            why_restart = why_restart or 'the iterator does not restart at m.end() of the match it yields (set_start %s, last_match_end %s)' % ([cstr(c[2][1])[:60] for c in ss], [cstr(v)[:60] for v in lme])
    if nsome == 0:
        why_ret = why_ret or 'no path yields a match'
    cx.report('R01.6', b, 'returns', why_ret is None, 'returns are Some(m), or None because search() / the empty-match handler returned None' if why_ret is None else why_ret)
    cx.report('R01.6', b, 'm-sources', why_src is None, 'the yielded match is self.search()?, replaced by handle_overlapping_empty_match(m)? when empty' if why_src is None else why_src)
    cx.report('R01.6', b, 'restart', why_restart is None, 'every Some(m) is preceded by input.set_start(m.end()) and last_match_end = Some(m.end()) for that m' if why_restart is None else why_restart)
    cx.report('R01.6', b, 'empty-guard', why_guard is None, 'handle_overlapping_empty_match(m) runs exactly when the match found by search() is empty, and an empty match is only yielded through it' if why_guard is None else why_guard)
    # other stores to last_match_end / other set_start calls are foreign
    h = cx.body("automaton::FindIter::<'a, 'h, A>::handle_overlapping_empty_match")
    b = h
    M = param_at(b, 2)
    eqg = []
    for blk, sc in b.switches():
        if sc[0] != 'bool':
            continue
        e = eq_cond(sc[1])
        if e:
            sides = [expand_vars(b, peel(x)) for x in (e[0], e[1])]
            a = [x for x in sides if is_agg(x, r'Option$', 'Some') and is_call(expand_vars(b, x[3]['0']), r'Match::end$') and peel(expand_vars(b, x[3]['0'])[2][0]) == M]
            c = [x for x in sides if x[0] == 'f' and x[2] == 'last_match_end' and is_var(x[1], 'self')]
            if a and c:
                eqg.append((blk, [(blk, t) for t in (sc[2] if e[2] else sc[3])], [(blk, t) for t in (sc[3] if e[2] else sc[2])]))
    ss = b.calls(r'util::search::Input::set_start$')
    sr = b.calls(r'FindIter::search$')
    ok = bool(eqg) and len(ss) == 1 and len(sr) == 1
    if ok:
        cut = [e for g in eqg for e in g[1]]
        ok = not reachable_without(b, [ss[0][0], sr[0][0]], cut)
        ct = b.call_term(*ss[0])
        arg = peel_all(expand_vars(b, ct[2][1]))
        if is_call(arg, r'Option::(unwrap|expect)$'):
            arg = peel_all(expand_vars(b, arg[2][0]))
        okadv = (is_call(arg, r'core::num::checked_add$') and is_call(expand_vars(b, arg[2][0]), r'Input::start$') and self_input(peel(expand_vars(b, arg[2][0])[2][0])) and arg[2][1] == ('c', 1)) or \
                (arg[0] == 'op' and arg[1] == 'Add' and is_call(arg[2], r'Input::start$') and arg[3] == ('c', 1))
        ok = ok and okadv and self_input(peel(ct[2][0])) and sr[0][0] in b.reach_after(ss[0][0])
    cx.report('R01.6', h, 'empty-rule', ok, 'if Some(m.end()) == last_match_end: advance the start by exactly 1 and search again; otherwise keep m' if ok else 'the empty-match rule deviates (guard Some(m.end()) == last_match_end, start + 1, re-search)')
    rets = [(bi, si, b.rvalue_term(st['r'], 0, bi)) for bi, si, pl, st in b.stores() if si != 'term' and pl['l'] == 0 and not pl['pr']]
    okr = len(rets) >= 1
    for bi, si, v in rets:
        if is_agg(v, r'Option$', 'Some'):
            roots = value_roots(b, v[3]['0'], bi, si)
            # either the parameter itself (kept) or the result of the re-search
            good = all(r == M or is_call(r, r'FindIter::search$') for r in roots) and bool(roots)
            # the kept parameter only on the not-equal edge, the re-search result only on the equal edge
            okr = okr and good
        elif is_agg(v, r'Option$', 'None'):
            # only as the propagated None of the re-search
            g = discr_gates(b, lambda x: is_call(x, r'FindIter::search$'))
            okr = okr and bool(g) and all(bi in b.reach(gb) for gb, x, arms, oth in g)
        elif is_call(v, r'FromResidual::from_residual$'):
            pass
        else:
            okr = False
    cx.report('R01.6', h, 'returns', okr, 'returns Some(kept m), Some(re-searched m) or the re-search\'s None' if okr else 'returns %s' % [tstr(v, 60) for _, _, v in rets])
    # Input::set_start keeps the end
    from rules.utilfn import setter_keeps_other_end
    s = cx.body("util::search::Input::<'h>::set_start")
    ok = setter_keeps_other_end(cx, 'set_start')
    cx.report('R01.6', s, 'set_start', ok, 'set_start(start) = set_span(start..self.end())' if ok else 'set_start does not keep the end of the span')


def r03_1(cx):
    d = Driver(cx, OVER_IMP)
    b = d.b
    st = d.state
    NMI = ('f', st, 'next_match_index')
    some, none = publications(d)
    n = 0
    for bi, si, x in some:
        src = match_source(d, x)
        if src is None:
            continue
        cb, ct, var = src
        n += 1
        idx = ct[2][2]
        # the paired store next_match_index = Some(idx + 1) in the same acceptance region
        nm = [(sb, val) for sb, ssi, tt, val, s in b.field_stores() if tt == NMI and is_agg(val, r'Option$', 'Some')]
        want_c = None
        if idx[0] == 'c':
            want = ('c', idx[1] + 1)
        else:
            want = None
        paired = []
        for sb, val in nm:
            v = val[3]['0']
            good = (want is not None and v == want) or (want is None and v[0] == 'op' and v[1] == 'Add' and ((v[2] == idx and v[3] == ('c', 1)) or (v[3] == idx and v[2] == ('c', 1))))
            if good and (b.dominates(sb, bi) or sb == bi) and cb in b.reach(0) and (b.dominates(cb, sb) or b.dominates(sb, cb)):
                # same region: between the store and the publication there is no loop header
                paired.append(sb)
        start = sid_is_start_only(d, cb, peel(ct[2][1]))
        pos = ct[2][3]
        okpos = d.input_call(pos, 'start') if start else d.plus1(pos)
        tag = 'start' if start else ('loop' if cb in d.loop else 'resume')
        cx.report('R03.1', b, 'step:%s' % tag, bool(paired) and okpos, 'publishing list entry %s stores next_match_index = Some(%s + 1); position %s' % (tstr(idx), tstr(idx), tstr(pos, 40)) if paired and okpos else
                  'publication of list entry %s at %s is not paired with next_match_index = Some(entry + 1) (or has the wrong position)' % (tstr(idx), tstr(pos, 60)), line_of(b, bi, si))
        # index bound: idx < match_len(sid) on the path (for non-constant index)
        if idx[0] != 'c':
            lg = []
            for blk, sc in b.switches():
                if sc[0] != 'bool':
                    continue
                def fn(y, idx=idx):
                    if y == idx:
                        return atom('I')
                    yy = expand_vars(b, y, keep=('sid', 'aut', 'i'))
                    if is_call(yy, r'Automaton::match_len$'):
                        return atom('LEN')
                    return None
                cn = cmp_norm(rewrite(sc[1], fn))
                if cn == cmp_norm(('op', 'Lt', atom('I'), atom('LEN'))):
                    lg += [(blk, t) for t in sc[2]]
            okb = bool(lg) and not reachable_without(b, [cb], lg)
            cx.report('R03.1', b, 'bound:%s' % tag, okb, 'list index < match_len(sid) is checked before the entry is read' if okb else 'list entry read without an index < match_len(sid) check', line_of(b, cb))
    cx.floor('R03.1', 'overlapping publications', n, 3)
    # leaving a state's match list (exhausted, or cut short by the anchored filter) while resuming: at += 1, next_match_index = None,
    # mat = None on EVERY path that goes on to the walk -- a path statement on the summaries of the part before the loop
    from acverif.sym import Sym, canon, cstr, teval, by_cstr
    okx = False
    try:
        arr = Sym(cx.facts, b, start=0, stop={d.header}).rows()
        res = [r for r in arr if r.end == ('stop', d.header) and r.cond(lambda c: cstr(canon(c)) == 'discr(%s.id)' % cstr(d.state)) == 1
               and r.cond(lambda c: cstr(canon(c)) == 'discr(%s.next_match_index)' % cstr(d.state)) == 1]
        okx = bool(res)
        for r in res:
            stx = {cstr(canon(p0)): canon(v0) for p0, v0 in r.stores()}
            at_v = stx.get('%s.at' % cstr(d.state))
            good = at_v is not None and teval(at_v, by_cstr({'%s.at' % cstr(d.state): 7})) == 8
            good = good and is_agg(stx.get('%s.next_match_index' % cstr(d.state)), r'Option$', 'None') and is_agg(stx.get('%s.mat' % cstr(d.state)), r'Option$', 'None')
            okx = okx and good
    except Exception:
        okx = False
    cx.report('R03.1', b, 'exhaustion', okx, 'when a state\'s list is exhausted: at += 1, next_match_index = None, mat = None, then the walk continues' if okx else 'list exhaustion does not advance/clear the stepping state as specified')
    # state.id stores: Some(sid) at loop exit and on special states
    ids3 = [(sb, ssi, val) for sb, ssi, tt, val, s in b.field_stores() if tt == ('f', st, 'id')]
    ids = [(sb, val) for sb, ssi, val in ids3]
    def state_value(x, sb, ssi):
        """the value saved is a state id the walk is (or starts) in: the start state, a next_state result, or the id resumed"""
        roots = value_roots(b, x, sb, ssi) if is_var(x) else [x]
        if not roots:
            return False
        for r0 in roots:
            r0 = peel_all(r0)
            if r0[0] in ('try',):
                r0 = peel_all(r0[1])
            while r0[0] == 'f' and r0[1][0] == 'dc' and r0[1][2] in ('Ok', 'Some', 'Continue'):
                r0 = peel_all(r0[1][1])
                if is_call(r0, r'Try::branch$'):
                    r0 = peel_all(r0[2][0])
            if not (is_call(r0, r'Automaton::(start_state|next_state)$') or r0 == ('f', st, 'id')):
                return False
        return True
    okid = len(ids) >= 3 and all((is_agg(v, r'Option$', 'Some') and (not is_var(peel_all(v[3]['0'])) or b.locals[peel_all(v[3]['0'])[2]]['ty'].endswith('StateID')) and state_value(peel_all(v[3]['0']), sb, ssi)) for sb, ssi, v in ids3)
    exit_ids = [sb for sb, v in ids if sb not in d.loop and sb in b.reach(d.header)]
    # after a transition, no return may happen before the new state was saved (a later call resumes from state.id)
    rets_ok = [bi for bi, si, pl, st0 in b.stores() if si != 'term' and pl['l'] == 0 and not pl['pr'] and is_agg(b.rvalue_term(st0['r'], 0, bi), r'Result$', 'Ok')]
    r = b.reach_after(d.nsb, cut_blocks=[sb for sb, v in ids] + [d.nsb]) if d.nsb is not None else set()
    idblocks = {sb for sb, v in ids}
    stale = []
    for x in sorted(set(rets_ok) & r):
        if x in idblocks:
            # same block: the save must come before the return value is set
            order = [('id' if (st0['k'] == 'assign' and st0['p']['pr'] and b.store_term(st0['p']) == ('f', st, 'id')) else ('ret' if (st0['k'] == 'assign' and st0['p']['l'] == 0 and not st0['p']['pr']) else None)) for st0 in b.blocks[x]['stmts']]
            order = [o for o in order if o]
            if order and order[0] == 'id':
                continue
        stale.append(x)
    cx.report('R03.1', b, 'id-saved', okid and bool(exit_ids) and not stale, 'state.id = Some(sid) is saved before every return that follows a transition (special states, prefilter verdict, end of span)' if okid and exit_ids and not stale else
              'the stepper can return after a transition without saving the new state in state.id (a later call resumes from a stale state): return at line(s) %s' % [line_of(b, x) for x in stale])
    # outer: state.mat cleared first
    o = cx.body(OVER)
    first = [tt for bi, si, tt, val, s in o.field_stores() if bi == 0 and si == 0]
    okc = any(tt[0] == 'f' and tt[2] == 'mat' and is_var(tt[1], 'state') and is_agg(val, r'Option$', 'None') for bi, si, tt, val, s in o.field_stores() if bi == 0)
    cx.report('R03.1', o, 'mat-cleared', okc, 'state.mat is cleared before anything else' if okc else 'state.mat is not cleared at entry')


def r03_4(cx):
    """who may write OverlappingState"""
    adt = cx.facts.adts.get('automaton::OverlappingState')
    pub = [f['name'] for v in adt['variants'] for f in v['fields'] if f['public']]
    cx.report('R03.4', 'automaton::OverlappingState', 'private-fields', not pub, 'all fields of OverlappingState are private' if not pub else 'public fields: %s' % pub)
    allowed = {OVER, OVER_IMP, 'automaton::OverlappingState::start'}
    bad = []
    from acverif.inline import vocab
    from acverif.rl import CallGraph
    cg = CallGraph(cx.facts)

    def part_of_allowed(p, depth=3):
        """a private helper that did not exist on the reference tree and is called only from the allowed writers is part of them
        (the rules on the drivers see its statements spliced in)"""
        if p in allowed:
            return True
        pb = cx.facts.bodies[p]
        if depth == 0 or p in vocab() or pb.j.get('public'):
            return False
        cs = {c for c, _ in cg.callers(p)}
        return bool(cs) and all(part_of_allowed(c, depth - 1) for c in cs)
    for p, b in cx.facts.bodies.items():
        if p in allowed or b.j.get('derived'):
            continue
        if not any((any(isinstance(x, dict) and x.get('of') == 'automaton::OverlappingState' for x in pl['pr'])) or (si != 'term' and st.get('r', {}).get('adt') == 'automaton::OverlappingState') for bi, si, pl, st in b.stores()):
            continue
        if part_of_allowed(p):
            continue
        for bi, si, pl, st in b.stores():
            prs = pl['pr']
            if any(isinstance(x, dict) and x.get('of') == 'automaton::OverlappingState' for x in prs):
                bad.append((p, line_of(b, bi, si)))
            r = st.get('r') if si != 'term' else None
            if r and r.get('k') == 'agg' and r.get('adt') == 'automaton::OverlappingState':
                bad.append((p, line_of(b, bi, si)))
    cx.report('R03.4', 'automaton::OverlappingState', 'writers', not bad, 'only OverlappingState::start and the two overlapping drivers write or construct the stepping state' if not bad else 'other writers: %s' % bad)


def r03_5(cx):
    """every Ok(()) of the overlapping stepper is justified: a publication, the dead state, a prefilter verdict or the end of the span"""
    d = Driver(cx, OVER_IMP)
    b = d.b
    some, none = publications(d)
    pubs = {bi for bi, si, x in some}
    sp, dd, mm = special_gates(d)
    dead_t = {tg for g in dd for _, tg in g[2]}
    og = verdict_gates(d)
    none_t = set()
    for gb, x, arms, oth in og:
        none_t.add(arms.get(0, oth))
    exit_t = {tg for g in d.end_gates() if g[0] in d.loop for _, tg in g[2]}
    just = pubs | dead_t | none_t | exit_t
    oks = [bi for bi, si, pl, st in b.stores() if si != 'term' and pl['l'] == 0 and not pl['pr'] and is_agg(b.rvalue_term(st['r'], 0, bi), r'Result$', 'Ok')]
    n = 0
    for bi in oks:
        n += 1
        ok = bi in just or must_pass(b, [bi], just)
        cx.report('R03.5', b, 'return@%d' % n, ok, 'this Ok(()) is reached only after a publication, in the dead state, on a prefilter verdict or at the end of the span' if ok else
                  'the stepper can return Ok(()) without having published a match although the walk is not finished (a rejected list entry ends the search early)', line_of(b, bi))
    cx.floor('R03.5', 'Ok(()) return sites of the overlapping stepper', n, 3)
    # when the anchored filter rejects an entry the walk goes on: the reject edges reach the loop header
    n2 = 0
    for bi, si, x in some:
        src = match_source(d, x)
        if src is None or src[2] is None:
            continue
        for blk, passe, reje in d.start_filter_gates(src[2]):
            n2 += 1
            ok = all(d.header in b.reach(tg) and not (set(oks) & b.reach(tg, cut_blocks=[d.header])) for _, tg in reje)
            cx.report('R03.5', b, 'reject-continues@%d' % n2, ok, 'a list entry rejected by the anchored filter is skipped and the walk continues' if ok else 'a rejected list entry ends the call without a match', line_of(b, blk))

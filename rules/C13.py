"""C13 — search rejection depends only on configuration (DESIGN.md §5 C13)."""
import re
from rules.agree import r20_1

from acverif.mir import short, tstr, subterms
from acverif.rl import (is_call, peel, peel_all, is_var, self_field, is_agg, try_gates, result_gates, expand_vars, bool_gates, reachable_without,
                        CallGraph, decision_table, eq_cond, variant_name, is_named_const, operand_ty, line_of)

LEVEL = 'other'
EXPLANATION = """
Decides, for every path of the functions involved and therefore for every pattern list, haystack and engine:
R13.1 every call from an AhoCorasick method into a search method of self.aut is unreachable once the success edge of
enforce_anchored_consistency(self.start_kind, <anchoring of the very input passed on | Anchored::No>)? is removed;
R13.2 every infallible search method is its try_ twin with the same arguments followed by a panicking unwrap;
R13.3 no public entry reaches the overlapping stepper without passing match_kind().is_standard(), FindOverlappingIter is
only constructed behind is_standard / not-anchored / start_state?, StreamChunkIter only behind is_standard /
min_pattern_len != 0 / start_state(Anchored::No)?;
R13.4 the decision table of enforce_anchored_consistency equals the specification table;
R13.5 the NFAs' start_state never fails and the DFA's fails exactly when the selected start id equals DEAD, with the
builder storing DEAD into exactly the unsupported start id and dispatching on the start kind;
R13.6 iterator constructors probe start_state before constructing and iterators only call Input::set_start;
R13.7 every MatchError construction site is control-dependent only on configuration-derived conditions.
"""
NOT_DECIDED = """
R13.7 is intra-procedural: that `start_state?` inside try_find_fwd_imp cannot fail for a searcher reached through
AhoCorasick rests on R13.1 plus the start-kind plumbing of C20 (R20.5). Direct use of a DFA through the Automaton
trait with a 'done' input returns Ok(None) before the start-state probe; the property is read at the AhoCorasick level.
"""

INSPECTION = {'match_kind', 'min_pattern_len', 'max_pattern_len', 'patterns_len', 'pattern_len', 'memory_usage', 'prefilter'}
DELEGATE_PAT = r'^automaton::(Automaton::|try_find|get_match|FindIter|FindOverlappingIter|StreamChunkIter|StreamFindIter)'


def is_delegate(t):
    c = t['callee']
    p = short(c.get('path', ''))
    if not re.search(DELEGATE_PAT, p):
        return False
    return c.get('name') not in INSPECTION


def ac_methods(cx):
    return [b for b in cx.find(r'^ahocorasick::AhoCorasick::', 20)]


def r13_1(cx):
    """decided on the path summaries of every AhoCorasick method (helpers that are not vocabulary unfolded, `?`, map_err and
    explicit matches alike): on every path a call into a search method of self.aut comes after enforce_anchored_consistency(
    self.start_kind, <anchoring of the very input passed on | Anchored::No>) with the Ok outcome, and a path that returns without
    delegating returns that check's own error"""
    from acverif.sym import summarize, canon, cstr
    gated = 0
    GATE = r'ahocorasick::enforce_anchored_consistency$'

    def gate_of(c):
        x = canon(c)
        if x[0] == 'discr':
            x = x[1]
            if is_call(x, r'core::result::Result::map_err$'):
                x = x[2][0]
            if is_call(x, GATE) and len(x[2]) == 2:
                return x
        return None
    for b in ac_methods(cx):
        try:
            rows = summarize(cx.facts, b)
        except Exception:
            rows = None
        if rows is None:
            cx.bad('R13.1', b, 'summary', 'the method could not be summarised')
            continue
        sites = {}
        has_del = False
        bad_early = None
        for r in rows:
            if r.end == 'diverge':
                continue
            calls = [(i, canon(e[1])) for i, e in enumerate(r.effects) if e[0] == 'call']
            dels = [(i, c) for i, c in calls if re.search(DELEGATE_PAT, short(c[1])) and short(c[1]).rsplit('::', 1)[-1] not in INSPECTION]
            gates = [(g, v) for g, v in ((gate_of(c), v) for c, v in r.conds) if g is not None]
            gidx = [i for i, c in calls if is_call(c, GATE)]
            okg = [g for g, v in gates if (v == 0 or (isinstance(v, tuple) and v[0] == 'not' and 1 in v[1])) and cstr(g[2][0]) == 'self.start_kind']
            if dels:
                has_del = True
            for i, c in dels:
                name = short(c[1])
                args = [cstr(a) for a in c[2]]
                inputs = [a for a in c[2] if a[0] in ('v', 'f', 'agg', 'call', 'upd') and ('Input' in cstr(a) or True)]
                has_input = any(re.search(r'util::search::Input', ty) for ty in _arg_types(cx, b, name))
                good = False
                for g in okg:
                    w = g[2][1]
                    if has_input:
                        ws = cstr(w)
                        good = good or any(ws in ('util::search::Input::get_anchored(%s)' % a, '%s.anchored' % a) for a in args)
                    else:
                        good = good or is_agg(w, r'util::search::Anchored$', 'No')
                good = good and bool(gidx) and min(gidx) < i
                sites.setdefault(name, []).append(good)
            if not dels and r.end == 'return' and not any(v == 1 or (isinstance(v, tuple) and v[0] == 'not' and 0 in v[1]) for g, v in gates):
                bad_early = bad_early or r
        for name, goods in sorted(sites.items()):
            ok = all(goods)
            if ok:
                gated += 1
            has_in = any(re.search(r'util::search::Input', ty) for ty in _arg_types(cx, b, name))
            cx.report('R13.1', b, name, ok,
                      ('delegate %s is reached only after the Ok outcome of enforce_anchored_consistency(self.start_kind, %s) (%d path(s))' % (name, 'get_anchored(<same input>)' if has_in else 'Anchored::No', len(goods)))
                      if ok else
                      ('delegate call %s is reachable without passing enforce_anchored_consistency(self.start_kind, <anchoring of the input passed on>)?' % name))
        if has_del and any(gate_of(c) is not None for r in rows for c, v in r.conds):
            cx.report('R13.1', b, 'no-early-return', bad_early is None, 'no result is returned before enforce_anchored_consistency has passed (other than its own error)' if bad_early is None else 'a result can be returned without the anchoring check having passed')
    cx.floor('R13.1', 'gated delegate calls in AhoCorasick methods', gated, 11 if cx.config in ('default', 'std', 'logging') else 8)


def _arg_types(cx, b, callee_short):
    """declared parameter types of a delegate (from the fact base)"""
    for p, bb in cx.facts.bodies.items():
        if short(p) == callee_short:
            return bb.j.get('inputs') or []
    return []


def r13_2(cx):
    meths = {b.j['name']: b for b in ac_methods(cx) if b.j['kind'] == 'AssocFn'}
    n = 0
    for name, b in sorted(meths.items()):
        if name.startswith('try_') or not b.j['public']:
            continue
        twin = 'try_find' if name == 'is_match' else 'try_' + name
        if twin not in meths:
            continue
        n += 1
        if name == 'is_match':
            from rules.search import _is_match_shape
            _b, why0 = _is_match_shape(cx)
            cx.report('R13.2', b, twin, why0 is None, '= try_find(input.earliest(true)) + panicking unwrap + is_some' if why0 is None else why0)
            continue
        # decided on the path summaries: every path calls the twin exactly once with the same arguments; the Ok outcome returns
        # the payload, the Err outcome panics (no path swallows the error or substitutes a value)
        from acverif.sym import summarize, canon, cstr
        from acverif.rl import param_at
        rows = summarize(cx.facts, b)
        params = [cstr(param_at(b, i)) for i in range(1, b.j['arg_count'] + 1)]
        why = None
        nok = 0
        for r in rows:
            tw = [canon(c) for c in r.calls(r'^ahocorasick::AhoCorasick::%s$' % twin)]
            if len(tw) != 1:
                why = why or 'a path calls %s %d times' % (twin, len(tw))
                continue
            if [cstr(a) for a in tw[0][2]] != params:
                why = why or 'arguments are not passed through unchanged: %s' % tstr(tw[0], 200)
                continue
            out = None
            for c, v in r.conds:
                cc = canon(c)
                if cc[0] == 'discr' and cstr(cc[1]) == cstr(tw[0]):
                    out = 'ok' if (v == 0 or (isinstance(v, tuple) and v[0] == 'not' and 1 in v[1])) else 'err'
            if r.end == 'diverge':
                if out == 'ok':
                    why = why or 'a successful search panics'
                continue
            if out != 'ok':
                why = why or 'a path returns although %s failed (the error is swallowed)' % twin
                continue
            nok += 1
            ret = canon(r.ret) if r.ret is not None else None
            pay = cstr(('f', ('dc', tw[0], 'Ok'), '0'))
            if ret is not None and cstr(ret) not in (pay, '()') and not (ret[0] == 'c' and ret[1] is None) and not (ret[0] == 'agg' and ret[1] == 'tuple' and not ret[3]):
                why = why or 'the value returned is %s, not the payload of %s' % (tstr(ret, 120), twin)
        if nok == 0:
            why = why or 'no path returns the result of %s' % twin
        ok = why is None
        cx.report('R13.2', b, twin, ok, ('= %s(same args) + panicking unwrap' % twin) if ok else why)
    cx.floor('R13.2', 'infallible search methods with a try_ twin', n, 10 if cx.config in ('default', 'std', 'logging') else 9)


def std_gate_of(b):
    """aut.match_kind().is_standard(), with the kind possibly bound to a local first"""
    def gate(x):
        return is_call(x, r'MatchKind::is_standard$') and is_call(peel_all(expand_vars(b, x[2][0])), r'Automaton::match_kind$')
    return gate


def r13_3(cx):
    f = cx.facts
    cg = CallGraph(f)
    stepper = 'automaton::try_find_overlapping_fwd_imp'
    cx.body(stepper)
    # (a) functions that can enter the stepper without passing is_standard()
    U = {stepper}
    chain = {stepper: stepper}
    changed = True
    while changed:
        changed = False
        for p, b in f.bodies.items():
            if p in U:
                continue
            gates = bool_gates(b, std_gate_of(b))
            cut = [e for g in gates for e in g[2]]
            live = b.reach(0, cut_edges=cut)
            for blk, tg in cg.callees(p):
                if tg in U and blk in live:
                    U.add(p)
                    chain[p] = '%s -> %s' % (p, chain[tg])
                    changed = True
                    break
    reach_all = set()
    # every function that reaches the stepper at all
    for p in f.bodies:
        if stepper in cg.reachable([p]):
            reach_all.add(p)
    n = 0
    for p in sorted(reach_all):
        b = f.bodies[p]
        if p == stepper:
            continue
        api = b.j.get('public') or b.j.get('in_trait') == 'automaton::Automaton' or b.j.get('impl_trait') == 'automaton::Automaton'
        if not api:
            continue
        if b.j.get('impl_trait', '').endswith('Iterator') and 'FindOverlappingIter' in b.j.get('impl_self', ''):
            cx.note('R13.3: %s is exempt from the entry rule; its constructor is checked instead' % p)
            continue
        n += 1
        cx.report('R13.3', b, 'stepper-entry', p not in U,
                  'every call chain into the overlapping stepper passes match_kind().is_standard()' if p not in U else
                  'reaches the overlapping stepper without a match_kind().is_standard() gate: %s' % chain[p])
    cx.floor('R13.3', 'public entries reaching the overlapping stepper', n, 4)
    # (b) FindOverlappingIter construction, (c) StreamChunkIter construction
    nb = nc = 0
    sci_sites = []
    for p, b in f.bodies.items():
        for blk, si, pl, st in b.stores():
            r = st.get('r') if si != 'term' else None
            if not r or r.get('k') != 'agg' or r.get('agg') != 'adt':
                continue
            if r['adt'] == 'automaton::FindOverlappingIter':
                nb += 1
                agg = b.rvalue_term(r, 0, blk)
                inp = peel_all(expand_vars(b, agg[3].get('input'))) if isinstance(agg[3], dict) else None
                aut = peel_all(expand_vars(b, agg[3].get('aut'))) if isinstance(agg[3], dict) else None
                g1 = [e for g in bool_gates(b, std_gate_of(b)) for e in g[2]]
                def anch_of(x):
                    x = expand_vars(b, x)
                    return is_call(x, r'Input::get_anchored$') and peel_all(expand_vars(b, x[2][0])) == inp
                g2 = [e for g in bool_gates(b, lambda x: is_call(x, r'Anchored::is_anchored$') and anch_of(x[2][0])) for e in g[3]]
                g3 = [e for g in result_gates(b, lambda x: is_call(x, r'Automaton::start_state$') and peel_all(expand_vars(b, x[2][0])) == aut and anch_of(x[2][1])) for e in g[2]]
                for tag, cut, what in (('is_standard', g1, 'match_kind().is_standard()'), ('not-anchored', g2, '!input.get_anchored().is_anchored()'), ('start_state', g3, 'start_state(input.get_anchored())?')):
                    ok = bool(cut) and not reachable_without(b, [blk], cut)
                    cx.report('R13.3', b, 'FindOverlappingIter/' + tag, ok, ('construction is behind %s' if ok else 'FindOverlappingIter is constructed on a path that does not pass %s') % what, line_of(b, blk, si))
            if r['adt'] == 'automaton::StreamChunkIter':
                nc += 1
                sci_sites.append((p, b, blk, si))
    # (c) on path summaries: every path that builds a StreamChunkIter has passed the three checks
    from acverif.sym import summarize as _sm, canon as _cn, cstr as _cs, teval as _te, by_cstr as _by
    from acverif.inline import vocab as _vocab
    for p, b0, blk, si in sci_sites:
        if p not in _vocab():
            continue
        b = cx.body(p)
        AUT = None
        rows = [r for r in _sm(cx.facts, b) if r.end == 'return']
        built = []
        for r in rows:
            rt = r.ret
            if rt is not None and is_agg(rt, r'Result$', 'Ok') and is_agg(rt[3]['0'], r'automaton::StreamChunkIter$'):
                built.append(r)
        why = {'is_standard': None, 'non-empty': None, 'start_state': None, 'sid=start': None}
        if not built:
            why = dict.fromkeys(why, 'no path builds a StreamChunkIter')
        for r in built:
            agg = r.ret[3]['0']
            aut = _cs(agg[3]['aut'])
            if r.cond(lambda c: is_call(_cn(c), r'MatchKind::is_standard$') and is_call(_cn(c)[2][0], r'Automaton::match_kind$') and _cs(_cn(c)[2][0][2][0]) == aut) is not True:
                why['is_standard'] = 'StreamChunkIter is constructed on a path that does not pass match_kind().is_standard()'
            ML = 'automaton::Automaton::min_pattern_len(%s)' % aut
            nz = False
            for c, v in r.conds:
                try:
                    z0, z1 = _te(c, _by({ML: 0})), _te(c, _by({ML: 1}))
                except Exception:
                    continue
                if z0 == z1:
                    continue
                hold1 = (bool(z1) == v) if isinstance(v, bool) else ((z1 not in v[1]) if isinstance(v, tuple) else z1 == v)
                hold0 = (bool(z0) == v) if isinstance(v, bool) else ((z0 not in v[1]) if isinstance(v, tuple) else z0 == v)
                if hold1 and not hold0:
                    nz = True
            if not nz:
                why['non-empty'] = 'StreamChunkIter is constructed on a path that does not pass min_pattern_len() != 0'
            ss = [c[1] for c, v in r.conds if c[0] == 'discr' and is_call(c[1], r'Automaton::start_state$') and v == 0 and _cs(c[1][2][0]) == aut and is_agg(_cn(c[1][2][1]), r'Anchored$', 'No')]
            if not ss:
                why['start_state'] = 'StreamChunkIter is constructed on a path that does not pass start_state(Anchored::No)?'
            else:
                pay = _cs(('f', ('dc', ss[0], 'Ok'), '0'))
                if _cs(agg[3]['start']) != pay or _cs(agg[3]['sid']) != pay:
                    why['sid=start'] = 'start / sid are not the probed start state'
        for tag, what in (('is_standard', 'match_kind().is_standard()'), ('non-empty', 'min_pattern_len() != 0'), ('start_state', 'start_state(Anchored::No)?')):
            cx.report('R13.3', b, 'StreamChunkIter/' + tag, why[tag] is None, 'construction is behind %s' % what if why[tag] is None else why[tag], line_of(b0, blk, si))
        cx.report('R13.3', b, 'StreamChunkIter/sid=start', why['sid=start'] is None, 'initial sid is the probed start state' if why['sid=start'] is None else why['sid=start'], line_of(b0, blk, si))
    cx.floor('R13.3', 'FindOverlappingIter construction sites', nb, 1)
    if cx.config in ('default', 'std', 'logging'):
        cx.floor('R13.3', 'StreamChunkIter construction sites', nc, 1)


def zero_test(t, aut):
    """If t compares min_pattern_len(aut) with a constant, return the truth value of t when the length is 0."""
    import operator
    ops = {'Eq': operator.eq, 'Ne': operator.ne, 'Lt': operator.lt, 'Le': operator.le, 'Gt': operator.gt, 'Ge': operator.ge}
    if not (isinstance(t, tuple) and t[0] == 'op' and t[1] in ops):
        return None
    a, b = t[2], t[3]

    def is_len(x):
        return is_call(x, r'Automaton::min_pattern_len$')
    if is_len(a) and b[0] == 'c':
        return ops[t[1]](0, b[1])
    if is_len(b) and a[0] == 'c':
        return ops[t[1]](a[1], 0)
    return None


SPEC_13_4 = {
    ('Both', False): 'Ok', ('Both', True): 'Ok',
    ('Unanchored', False): 'Ok', ('Unanchored', True): 'invalid_input_anchored',
    ('Anchored', True): 'Ok', ('Anchored', False): 'invalid_input_unanchored',
}


def outcome_kind(t):
    if is_agg(t, r'core::result::Result$', 'Ok'):
        return 'Ok'
    if is_agg(t, r'core::result::Result$', 'Err'):
        inner = t[3].get('0') if isinstance(t[3], dict) else None
        if is_call(inner, r'util::error::MatchError::\w+$'):
            return short(inner[1]).rsplit('::', 1)[1]
        return 'Err(?)'
    return '?'


def r13_4(cx):
    b = cx.body('ahocorasick::enforce_anchored_consistency')
    # Anchored::is_anchored must be `self is Yes`
    ia = cx.body('util::search::Anchored::is_anchored')
    tb = decision_table(ia)
    yes_idx = None
    for i, v in enumerate(cx.facts.adts['util::search::Anchored']['variants']):
        if v['name'] == 'Yes':
            yes_idx = i
    okia = tb is not None
    if tb:
        for conds, out, path in tb:
            dv = [v for c, v in conds if c[0] == 'discr']
            if len(dv) != 1:
                okia = False
                continue
            want = 1 if dv[0] == yes_idx else 0
            if dv[0] == 'otherwise':
                # otherwise arm: every explicitly listed value is excluded
                listed = [v for v, tg in ia.blocks[path[0]]['term']['arms']] if ia.blocks[path[0]]['term']['k'] == 'switch' else []
                want = 0 if yes_idx in listed else 1
            if out != ('c', want):
                okia = False
    cx.report('R13.4', ia, 'table', okia, 'is_anchored() is true exactly for Anchored::Yes' if okia else 'Anchored::is_anchored is not `self == Yes`')
    tb = decision_table(b)
    if tb is None:
        cx.bad('R13.4', b, 'table', 'function is not loop-free; cannot extract a decision table')
        return
    # parameters by type, not by name
    have_l = [i for i in range(1, b.j['arg_count'] + 1) if 'StartKind' in b.locals[i]['ty']]
    want_l = [i for i in range(1, b.j['arg_count'] + 1) if 'Anchored' in b.locals[i]['ty']]
    if len(have_l) != 1 or len(want_l) != 1:
        cx.bad('R13.4', b, 'params', 'expected one StartKind and one Anchored parameter')
        return
    is_have = lambda x: isinstance(x, tuple) and x[0] == 'v' and x[2] == have_l[0]
    is_want = lambda x: isinstance(x, tuple) and x[0] == 'v' and x[2] == want_l[0]
    rows = {}
    bad = []
    for conds, out, path in tb:
        have = None
        want = None
        for c, v in conds:
            c = expand_vars(b, c)
            if c[0] == 'discr' and is_have(peel(c[1])):
                have = variant_name(cx.facts, 'util::search::StartKind', v) if v != 'otherwise' else 'otherwise'
            elif is_call(c, r'Anchored::is_anchored$') and is_want(peel(c[2][0])):
                want = bool(v)
            elif c[0] == 'discr' and is_want(peel(c[1])):
                want = (v == yes_idx)
            else:
                bad.append('unexpected condition %s' % tstr(c))
        if have == 'otherwise':
            # a catch-all arm: it stands for every variant not tested on this path; resolve against the switch it left
            listed = set()
            for blk in path:
                sc = b.switch_cond(blk)
                if sc and sc[0] == 'int' and sc[1][0] == 'discr' and is_have(peel(expand_vars(b, sc[1][1]))):
                    listed |= {variant_name(cx.facts, 'util::search::StartKind', v0) for v0, tg in sc[2]}
            haves = [n for n in ('Both', 'Unanchored', 'Anchored') if n not in listed]
        else:
            haves = [have]
        for h in haves:
            for w in ([want] if want is not None else [False, True]):
                k = (h, w)
                o = outcome_kind(expand_vars(b, out) if out is not None else out)
                if k in rows and rows[k] != o:
                    bad.append('ambiguous row %s' % (k,))
                rows[k] = o
    for k, exp in SPEC_13_4.items():
        got = rows.get(k)
        cx.report('R13.4', b, 'row:%s/%s' % (k[0], 'anchored' if k[1] else 'unanchored'), got == exp and not bad,
                  'have=%s want_anchored=%s -> %s' % (k[0], k[1], got) if got == exp and not bad else
                  'have=%s want_anchored=%s gives %s, specification says %s %s' % (k[0], k[1], got, exp, '; '.join(bad)))


def r13_5(cx):
    f = cx.facts
    yes_idx = [i for i, v in enumerate(f.adts['util::search::Anchored']['variants']) if v['name'] == 'Yes'][0]
    for imp in ('nfa::noncontiguous::NFA', 'nfa::contiguous::NFA', 'dfa::DFA'):
        b = cx.body('<%s as automaton::Automaton>::start_state' % imp)
        # evaluated on the path summaries: for each mode, with the selected start id equal to DEAD (0) and to a live id (5)
        from acverif.sym import summarize, canon, cstr, teval, row_consistent
        from acverif.rl import param_at as _pa, Unsupported as _U, EvalPanic as _E
        rows = [r for r in summarize(cx.facts, b) if r.end == 'return']
        AN = cstr(_pa(b, 2))
        for mode in ('No', 'Yes'):
            fld = 'start_anchored_id' if mode == 'Yes' else 'start_unanchored_id'
            errname = 'invalid_input_anchored' if mode == 'Yes' else 'invalid_input_unanchored'
            why = []
            for v in ((5,) if imp != 'dfa::DFA' else (0, 5)):
                def at(t, v=v, mode=mode, fld=fld):
                    s0 = cstr(t)
                    if s0 == 'discr(%s)' % AN:
                        return yes_idx if mode == 'Yes' else 1 - yes_idx
                    if s0 in ('self.special.%s' % fld, 'self.special.%s.0' % fld, 'self.special.%s.0.0' % fld):
                        return v
                    if re.match(r'^self\.special\.start_(un)?anchored_id(\.0)*$', s0):
                        return 9          # the other start id: must not matter
                    if s0 == 'util::search::Anchored::is_anchored(%s)' % AN:
                        return 1 if mode == 'Yes' else 0
                    return None
                try:
                    sel = [r for r in rows if row_consistent(r, at)]
                    if len(sel) != 1:
                        why.append('%d paths for Anchored::%s' % (len(sel), mode))
                        continue
                    ret = canon(sel[0].ret)
                    if imp == 'dfa::DFA' and v == 0:
                        good = is_agg(ret, r'Result$', 'Err') and errname in cstr(ret)
                    else:
                        good = is_agg(ret, r'Result$', 'Ok') and teval(ret[3]['0'], at) == v
                    if imp != 'dfa::DFA' and [c for c, vv in sel[0].conds if cstr(canon(c)) not in ('discr(%s)' % AN, 'util::search::Anchored::is_anchored(%s)' % AN)]:
                        good = False
                    if not good:
                        why.append('Anchored::%s with special.%s = %s gives %s' % (mode, fld, 'DEAD' if v == 0 else 'a live id', tstr(ret, 120)))
                except (_U, _E, KeyError, TypeError) as e:
                    why.append('cannot evaluate: %s' % e)
            ok = not why
            cx.report('R13.5', b, 'mode:' + mode, ok,
                      ('Anchored::%s -> %s' % (mode, 'Ok(special.%s), no error path' % fld if imp != 'dfa::DFA' else 'Err(%s) iff special.%s == DEAD else Ok(it)' % (errname, fld))) if ok else '; '.join(why))
    # DFA builder: unsupported start id is DEAD; dispatch on start kind
    from rules.dfabuild import r13_5_one_start
    r13_5_one_start(cx)
    b = cx.body('dfa::Builder::build_from_noncontiguous')
    want = {'Both': ('finish_build_both_starts', None), 'Unanchored': ('finish_build_one_start', 'No'), 'Anchored': ('finish_build_one_start', 'Yes')}
    for blk, t in b.calls(r'finish_build_(one_start|both_starts)$'):
        ct = b.call_term(blk, t)
        fn = short(ct[1]).rsplit('::', 1)[1]
        # which StartKind values reach this call
        kinds = None
        for sb, sc in b.switches():
            if sc[0] == 'int' and sc[1][0] == 'discr' and self_field(sc[1][1], 'start_kind'):
                ks = set()
                arms = 0
                for v, tg in sc[2]:
                    arms += 1
                    if blk in b.reach(tg, cut_blocks=[sb]):
                        ks.add(variant_name(cx.facts, 'util::search::StartKind', v))
                if b.blocks[sc[3]]['term']['k'] != 'unreachable':
                    arms += 1
                    if blk in b.reach(sc[3], cut_blocks=[sb]):
                        ks.add('otherwise')
                if len(ks) < arms:  # this switch decides whether the call runs
                    kinds = ks if kinds is None else (kinds & ks)
        kinds = kinds or set()
        mode = None
        if fn == 'finish_build_one_start':
            a = ct[2][1]
            mode = a[2] if is_agg(a, r'Anchored$') else '?'
        ok = len(kinds) == 1 and list(kinds)[0] in want and want[list(kinds)[0]] == (fn, mode)
        cx.report('R13.5', b, 'dispatch:%s' % '/'.join(sorted(kinds)), ok,
                  ('StartKind::%s -> %s(%s)' % (list(kinds)[0], fn, mode)) if ok else 'start kinds %s reach %s(%s)' % (sorted(kinds), fn, mode), line_of(b, blk))
    cx.floor('R13.5', 'finish_build dispatch sites', len(b.calls(r'finish_build_(one_start|both_starts)$')), 3)


def r13_6(cx):
    b = cx.body("automaton::FindIter::<'a, 'h, A>::new")
    n = 0
    for blk, si, pl, st in b.stores():
        r = st.get('r') if si != 'term' else None
        if r and r.get('k') == 'agg' and r.get('adt') == 'automaton::FindIter':
            n += 1
            agg = b.rvalue_term(r, 0, blk)
            inp = peel_all(expand_vars(b, agg[3]['input']))
            aut = peel_all(expand_vars(b, agg[3]['aut']))

            def probe(x):
                if not (is_call(x, r'Automaton::start_state$') and peel_all(expand_vars(b, x[2][0])) == aut):
                    return False
                w = expand_vars(b, x[2][1])
                return is_call(w, r'Input::get_anchored$') and peel_all(expand_vars(b, w[2][0])) == inp
            g = [e for g in result_gates(b, probe) for e in g[2]]
            ok = bool(g) and not reachable_without(b, [blk], g)
            cx.report('R13.6', b, 'probe', ok, 'FindIter is constructed only after start_state(input.get_anchored())? succeeded for the same automaton and input' if ok else 'FindIter constructed without probing start_state for its own input')
    cx.floor('R13.6', 'FindIter construction sites', n, 1)
    # other construction sites of FindIter anywhere else are violations
    for p, ob in cx.facts.bodies.items():
        if p == b.path:
            continue
        for blk, si, pl, st in ob.stores():
            r = st.get('r') if si != 'term' else None
            if r and r.get('k') == 'agg' and r.get('adt') == 'automaton::FindIter':
                cx.bad('R13.6', ob, 'foreign-construction', 'FindIter constructed outside FindIter::new (no start_state probe)', line_of(ob, blk, si))
    # iterators only use Input::set_start and never rebind aut/input
    its = cx.find(r"^(automaton::FindIter::<'a, 'h, A>::(search|handle_overlapping_empty_match)|<automaton::FindIter<'a, 'h, A> as core::iter::Iterator>::next|<automaton::FindOverlappingIter<'a, 'h, A> as core::iter::Iterator>::next)$", 4)
    for b in its:
        bad = []
        for blk, t in b.calls(r'^util::search::Input::'):
            nm = t['callee']['name']
            mutating = operand_ty(b, t['args'][0]).startswith('&mut') or not operand_ty(b, t['args'][0]).startswith('&')
            if mutating and nm != 'set_start':
                bad.append(nm)
        for blk, si, t, val, st in b.field_stores():
            if t[0] == 'f' and t[2] in ('aut', 'input') and is_var(t[1], 'self'):
                bad.append('store to self.%s' % t[2])
            if t[0] == 'f' and t[1][0] == 'f' and t[1][2] == 'input' and is_var(t[1][1], 'self'):
                bad.append('store to self.input.%s' % t[2])
        cx.report('R13.6', b, 'input-stable', not bad, 'only Input::set_start mutates the iterator input' if not bad else 'iterator changes its input configuration: %s' % bad)


CONFIG_TYPES = ('util::search::StartKind', 'util::search::Anchored', 'util::search::MatchKind')
CONFIG_CALLS = r'(Automaton::match_kind|Automaton::min_pattern_len|MatchKind::is_standard|Input::get_anchored|Anchored::is_anchored|PartialEq::eq|PartialEq::ne|AhoCorasick::match_kind)$'
CONFIG_FIELDS = ('start_unanchored_id', 'start_anchored_id', 'start_kind', 'match_kind', 'special')


def config_only(b, t, top=True):
    """None if term t depends only on configuration, else the offending subterm."""
    if not isinstance(t, tuple):
        return None
    k = t[0]
    if k in ('c', 'k', 's'):
        return None
    if k == 'v':
        ty = b.locals[t[2]]['ty'].lstrip('&').strip()
        if any(ty.startswith(c) for c in CONFIG_TYPES):
            return None
        if len(b.defs().get(t[2], [])) == 1 and not (1 <= t[2] <= b.j['arg_count']):
            return config_only(b, b.local_term(t[2], expand=True), False)
        return t
    if k == 'call':
        if re.search(CONFIG_CALLS, short(t[1])):
            # receiver may be any object (self / aut / input); further args must be config
            for a in t[2][1:]:
                r = config_only(b, a, False)
                if r:
                    return r
            r0 = t[2][0]
            if r0[0] in ('v',):
                return None
            return config_only(b, r0, False)
        return t
    if k == 'f':
        if t[2] in CONFIG_FIELDS:
            base = t[1]
            while base[0] == 'f' and base[2] in CONFIG_FIELDS:
                base = base[1]
            if is_var(base):
                return None
        return t
    if k in ('op',):
        return config_only(b, t[2], False) or config_only(b, t[3], False)
    if k in ('un', 'cast', 'conv'):
        return config_only(b, t[2], False)
    if k in ('discr', 'try', 'dc'):
        return config_only(b, t[1], False)
    return t


def r13_7(cx):
    n = 0
    for p, b in sorted(cx.facts.bodies.items()):
        if b.file.endswith('util/error.rs'):
            continue
        sites = [(blk, short(t['callee']['path'])) for blk, t in b.calls(r'^util::error::MatchError::(new|invalid_input_anchored|invalid_input_unanchored|unsupported_stream|unsupported_overlapping|unsupported_empty)$')]
        for blk, si, pl, st in b.stores():
            r = st.get('r') if si != 'term' else None
            if r and r.get('k') == 'agg' and r.get('adt') in ('util::error::MatchError', 'util::error::MatchErrorKind'):
                sites.append((blk, 'literal ' + r['adt']))
        for blk, what in sites:
            n += 1
            deciding = []
            for sb, sc in b.switches():
                if blk not in b.reach(sb):
                    continue
                if any(blk not in b.reach(s) for s in b.succ(sb) if b.blocks[s]['term']['k'] != 'unreachable'):
                    deciding.append((sb, sc[1]))
            off = [(sb, config_only(b, c)) for sb, c in deciding]
            off = [(sb, o) for sb, o in off if o is not None]
            cx.report('R13.7', b, '%s@%s' % (what.rsplit('::', 1)[-1], len([1 for x in sites[:sites.index((blk, what))] if x[1] == what])), not off,
                      'error source %s is decided only by configuration: %s' % (what, [tstr(c, 80) for _, c in deciding]) if not off else
                      'error source %s depends on non-configuration data: %s' % (what, [tstr(o, 120) for _, o in off]), line_of(b, blk))
    cx.floor('R13.7', 'MatchError construction sites outside util/error.rs', n, 9 if cx.config in ('default', 'std', 'logging') else 7)


from rules.agree import r20_5
from rules.agree import r20_3
from rules.agree import r20_6
from rules.prefilter import r10_1
from rules.utilfn import r10_7
from rules.utilfn import r13_8
RULES = [('R20.1', r20_1), ('R13.1', r13_1), ('R13.2', r13_2), ('R13.3', r13_3), ('R13.4', r13_4), ('R13.5', r13_5), ('R13.6', r13_6), ('R13.7', r13_7), ('R20.5', r20_5), ('R20.3', r20_3), ('R20.6', r20_6), ('R10.1', r10_1), ('R10.7', r10_7), ('R13.8', r13_8)]
THOROUGH_CONFIGS = ['default', 'std', 'perf', 'nodefault', 'logging']

CLAIM = """Static decision of the structural clauses R13.1-R13.7 on the MIR of /repo: every delegation from AhoCorasick into the
automaton is behind the start-kind gate for the very input passed on; infallible methods are try_ twin + panic; overlapping and
stream entry points are behind their match-kind / empty-pattern / anchoring gates on every path; the gate's and the engines'
decision tables equal the specification; every MatchError source is decided by configuration-derived conditions only. These
are statements about all paths, hence all pattern lists, haystacks and engines at once, which the test suite samples."""
NOTE = """Trusted: rustc's MIR construction and the fact extractor. Anchors are def-paths: a renamed function is reported as a missing
anchor. R13.7 is intra-procedural (see coverage.not_decided). Direct low-level use of a DFA with an already-done input is outside
the claim."""
TECHNIQUE = "static analysis: graph-cut / dominance queries, decision-table extraction and path summaries of the DFA start-id assignment over rustc MIR (custom rustc_private driver)"

"""C01 rule set (see DESIGN.md section 5)."""
from rules.builder import r01_1, r01_2, r01_3, r01_4
from rules.prefilter import r05_4
from rules.prefilter import r10_5
from rules.teddy import r06_4
from rules.prefilter import r05_9
from rules.teddy import r15_4
from rules.prefilter import r05_8
from rules.search import r01_5, r01_6, r09_1
from rules.layout import r04_5_dfa
from rules.prefilter import r05_5, r05_3, r05_7

LEVEL = 'other'
from rules.builder import r02_2
from rules.layout import r04_5_reader
from rules.layout import r04_4
from rules.casefold import r11_1
from rules.layout import r04_5_iter
from rules.utilfn import r10_7
from rules.utilfn import r04_7
from rules.utilfn import r04_8
from rules.utilfn import r16_6
from rules.utilfn import r20_7
from rules.utilfn import r04_10
from rules.utilfn import r03_7
from rules.utilfn import r10_8
from rules.utilfn import r04_11
from rules.teddy import r06_6
from rules.prefilter import r05_2
from rules.agree import r11_3
RULES = [('R05.4', r05_4), ('R10.5', r10_5), ('R06.4', r06_4), ('R05.9', r05_9), ('R15.4', r15_4), ('R05.8', r05_8), ('R05.7', r05_7), ('R01.1', r01_1), ('R01.2', r01_2), ('R01.3', r01_3), ('R01.4', r01_4), ('R01.5', r01_5), ('R01.6', r01_6), ('R09.1', r09_1), ('R04.5d', r04_5_dfa), ('R05.5', r05_5), ('R05.3', r05_3), ('R02.2', r02_2), ('R04.5r', r04_5_reader), ('R04.4', r04_4), ('R11.1', r11_1), ('R04.5i', r04_5_iter), ('R10.7', r10_7), ('R04.7', r04_7), ('R04.8', r04_8), ('R16.6', r16_6), ('R20.7', r20_7), ('R04.10', r04_10), ('R03.7', r03_7), ('R10.8', r10_8), ('R04.11', r04_11), ('R06.6', r06_6), ('R05.2', r05_2), ('R11.3', r11_3)]
EXPLANATION = """Mechanism shape only. R01.1 every construction phase of noncontiguous::Compiler::compile runs exactly once on every path to Ok and
the orderings that matter (with their reasons) hold by dominance. R01.2 in both BFS loops of fill_failure_transitions a match state's
failure link is set to DEAD exactly under is_leftmost && is_match, and such a state gets neither a computed link nor inherited
matches. R01.3 under leftmost-first, once a match state lies on a pattern's path no state/transition is added for the rest of that
pattern and the pattern is abandoned. R01.4 the start state's self loop is redirected to DEAD only under is_leftmost && start.is_match(),
only for self-loop transitions, and the dense row is kept coherent. R01.5 the driver's mat has exactly the definitions None and
Some(get_match(aut, sid, 0, pos)) and the dead / end-of-span exits return Ok(mat). R04.5d the DFA construction follows failure links unless state.fail() is DEAD (no match-based short cut). R05.5/R05.3 the
prefilter that may confirm matches keeps its pattern ids aligned and its candidates inside the span. R01.6 FindIter::next restarts at m.end(), records
last_match_end, and the empty-match rule (guard, +1, re-search) has the specified shape."""
NOT_DECIDED = """That the trie and failure links built for an arbitrary pattern set make the loop return the leftmost-first/longest occurrence.
Known behavioural defect NOT visible to these rules (D5): MatchKind::LeftmostFirst, patterns ["abc", ""], haystack "abx" returns (1, 2..2)
instead of (1, 0..0). A passing check means the decided clauses hold, not that the property holds on this tree."""
CLAIM = """Static decision of the shape of the mechanisms the leftmost semantics rest on (phase order, failure-link cut, pruning, start-loop
closing, mat discipline, iterator restart and empty-match rule). The input-quantified behaviour is not decided by this family."""
NOTE = """Trusted: rustc MIR construction, the fact extractor. Large undecided remainder (see coverage.not_decided, including defect D5)."""
TECHNIQUE = "static analysis: dominance-based phase ordering, graph cuts, and path / loop-iteration summaries (path-sensitive value flow over rustc MIR) of the trie and failure-link builders and the search driver"

"""Rules over the automaton builders (noncontiguous Compiler, contiguous / DFA converters)."""
import re

from acverif.mir import short, tstr, subterms, affine_str
from acverif.rl import (is_call, peel, peel_all, is_var, is_agg, is_const, self_field, bool_gates, try_gates, discr_gates,
                        reachable_without, must_pass, line_of, decision_table, rewrite, expand_vars, atom, cmp_norm, eq_cond,
                        var_defs_terms, is_named_const, strip_convs, inline_closures, param_at, param_of_type, unwrapped,
                        enum_gates, arm_edges, other_edges, result_gates, value_roots, Eval, EvalPanic, Unsupported)
from acverif.sym import (Sym, summarize, canon, cstr, TooManyPaths, enum_table, teval, row_holds, by_cstr, loop_rows, innermost_loop, strip_old, row_consistent)

COMP = "nfa::noncontiguous::Compiler::<'a>::"


def states_fail_store(tt):
    """store target `self.nfa.states[X].fail` -> X or None"""
    if tt[0] == 'f' and tt[2] == 'fail':
        base = tt[1]
        if is_call(base, r'IndexMut::index_mut$') and tstr(peel(base[2][0])) == 'self.nfa.states':
            return base[2][1]
        if base[0] == 'idx' and tstr(base[1]) == 'self.nfa.states':
            return base[2]
    return None


def is_match_of(x, who):
    """State::is_match(self.nfa.states[who])"""
    if not is_call(x, r'nfa::noncontiguous::State::is_match$'):
        return False
    a = peel(x[2][0])
    if is_call(a, r'Index::index$|IndexMut::index_mut$'):
        return tstr(peel(a[2][0])) == 'self.nfa.states' and a[2][1] == who
    if a[0] == 'idx':
        return tstr(a[1]) == 'self.nfa.states' and a[2] == who
    return False


# ------------------------------------------------------------------------------------------------- R01.1
PHASES = ['init_unanchored_start_state', 'add_dead_state_loop', 'build_trie', 'byte_classes=', 'set_anchored_start_state',
          'add_unanchored_start_state_loop', 'densify', 'fill_failure_transitions', 'close_start_state_loop_for_leftmost', 'shuffle',
          'prefilter=', 'max_special_id=']
ORDER = [
    ('init_unanchored_start_state', 'build_trie', 'init_full_state requires empty start states'),
    ('add_dead_state_loop', 'build_trie', 'the dead state must absorb before tries are built over it'),
    ('build_trie', 'byte_classes=', 'classes are computed from the bytes of the trie'),
    ('byte_classes=', 'densify', 'dense rows are laid out by the byte classes'),
    ('build_trie', 'set_anchored_start_state', 'the anchored start copies the start state\'s trie edges'),
    ('set_anchored_start_state', 'add_unanchored_start_state_loop', 'the anchored start must be copied before the self loop exists'),
    ('add_unanchored_start_state_loop', 'densify', 'dense rows of the start state must contain the self loop'),
    ('add_unanchored_start_state_loop', 'fill_failure_transitions', 'the failure walk terminates only because the start state has no FAIL edge'),
    ('add_unanchored_start_state_loop', 'close_start_state_loop_for_leftmost', 'there must be a loop to close'),
    ('densify', 'close_start_state_loop_for_leftmost', 'closing the loop updates the dense row, which must exist'),
    ('set_anchored_start_state', 'shuffle', 'shuffle partitions by the final match status of every state'),
    ('fill_failure_transitions', 'shuffle', 'shuffle partitions by the final match status of every state'),
    ('shuffle', 'max_special_id=', 'special ids are read after the shuffle'),
    ('prefilter=', 'max_special_id=', 'start states are special only when a prefilter exists'),
    ('build_trie', 'prefilter=', 'the prefilter is built from all patterns'),
]


def compile_body(cx):
    """compile with the two one-line initialisation helpers spliced in: these two steps are defined by what they do
    (init_full_state calls), so inlining or renaming the helper changes nothing"""
    return cx.body(COMP + 'compile', extra=[COMP + 'add_dead_state_loop', COMP + 'init_unanchored_start_state'])


def _phase_events(r):
    """[(phase name, index in the effect sequence)] of one successful path through compile"""
    out = []
    named = {}
    for i, e in enumerate(r.effects):
        if e[0] == 'store':
            tt = e[1]
            named[repr(e[2])] = cstr(tt)
            if tt[0] == 'f' and tstr(tt[1]) in ('self.nfa', 'self.nfa.special'):
                out.append((tt[2] + '=', i))
        elif e[0] == 'call':
            c = e[1]
            sp = short(c[1])
            m = re.search(r'Compiler::(\w+)$', sp)
            if m:
                out.append((m.group(1), i))
            elif sp.endswith('NFA::init_full_state') and len(c[2]) == 3:
                st, tg = c[2][1], c[2][2]
                stn = cstr(st) if re.search(r'special\.start_(un)?anchored_id$', cstr(st)) else named.get(repr(st))
                if is_named_const(peel(st), r'NFA::DEAD$') and is_named_const(peel(tg), r'NFA::DEAD$'):
                    out.append(('add_dead_state_loop', i))
                elif is_named_const(peel(tg), r'NFA::FAIL$') and stn in ('self.nfa.special.start_unanchored_id', 'self.nfa.special.start_anchored_id'):
                    out.append(('init_unanchored_start_state', i))
                    out.append(('init:' + stn, i))
    return out


def r01_1(cx):
    b = compile_body(cx)
    rows = [r for r in summarize(cx.facts, b) if r.end == 'return' and is_agg(r.ret, r'Result$', 'Ok')]
    evs = [_phase_events(r) for r in rows]
    want = {nm: 1 for nm in PHASES}
    want['init_unanchored_start_state'] = 2
    for nm in PHASES:
        cnt = [len([1 for n_, i in ev if n_ == nm]) for ev in evs]
        ok = bool(rows) and all(c == want[nm] for c in cnt)
        if nm == 'init_unanchored_start_state':
            ok = ok and all(len([1 for n_, i in ev if n_ == 'init:self.nfa.special.start_%sanchored_id' % u]) == 1 for ev in evs for u in ('un', ''))
        cx.report('R01.1', b, 'phase:' + nm.rstrip('='), ok, 'phase %s runs exactly once on every path to Ok (%d successful path(s))' % (nm.rstrip('='), len(rows)) if ok else 'phase %s runs %s time(s) on the paths to Ok (expected %d)' % (nm.rstrip('='), sorted(set(cnt)), want[nm]))
    for a, c, why in ORDER:
        ok = True
        seen = False
        for ev in evs:
            ia = [i for n_, i in ev if n_ == a]
            ic = [i for n_, i in ev if n_ == c]
            if not ia or not ic:
                continue
            seen = True
            if max(ia) >= min(ic):
                ok = False
        if not seen:
            continue
        cx.report('R01.1', b, 'order:%s<%s' % (a.rstrip('='), c.rstrip('=')), ok, '%s precedes %s (%s)' % (a.rstrip('='), c.rstrip('='), why) if ok else '%s does not precede %s: %s' % (a.rstrip('='), c.rstrip('='), why))
    # byte classes come from the compiler's byteset; prefilter from the compiler's prefilter builder
    for bi, si, tt, v, s in b.field_stores():
        if tt[0] == 'f' and tt[2] == 'byte_classes':
            ok = is_call(v, r'ByteClassSet::byte_classes$') and tstr(peel(v[2][0])) == 'self.byteset'
            cx.report('R01.1', b, 'byte_classes-source', ok, 'byte classes = self.byteset.byte_classes()' if ok else 'byte classes = %s' % tstr(v, 100))
        if tt[0] == 'f' and tt[2] == 'prefilter':
            ok = is_call(v, r'prefilter::Builder::build$') and tstr(peel(v[2][0])) == 'self.prefilter'
            cx.report('R01.1', b, 'prefilter-source', ok, 'prefilter = self.prefilter.build()' if ok else 'prefilter = %s' % tstr(v, 100))


# ------------------------------------------------------------------------------------------------- R01.2 / R02.2 / R11.5
def bfs_loops(b):
    """the two BFS loops of fill_failure_transitions: inner `next_link` loops; returns [(header, blocks, link_owner_term)]"""
    out = []
    loops = b.loops()
    for bi, t in b.calls(r'NFA::next_link$'):
        hs = [h for h, blks in loops.items() if bi in blks]
        if not hs:
            continue
        h = min(hs, key=lambda x: len(loops[x]))
        ct = b.call_term(bi, t)
        out.append((h, loops[h], ct[2][1], bi))
    return out


IS_LM = 'util::search::MatchKind::is_leftmost(self.builder.match_kind)'


def c_fail_target(place):
    """canonical store target `self.nfa.states[Y].fail` -> Y"""
    p = canon(place)
    if p[0] == 'f' and p[2] == 'fail':
        base = p[1]
        if is_call(base, r'Index(Mut)?::index(_mut)?$') and cstr(base[2][0]) == 'self.nfa.states':
            return base[2][1]
        if base[0] == 'idx' and cstr(base[1]) == 'self.nfa.states':
            return base[2]
    return None


def c_state(x):
    """canonical `self.nfa.states[Y]` -> Y"""
    x = canon(x)
    if is_call(x, r'Index(Mut)?::index(_mut)?$') and cstr(x[2][0]) == 'self.nfa.states':
        return x[2][1]
    if x[0] == 'idx' and cstr(x[1]) == 'self.nfa.states':
        return x[2]
    return None


def c_eq(c):
    """equality test in canonical form -> (a, b) or None"""
    c = canon(c)
    if c[0] == 'op' and c[1] == 'Eq':
        return c[2], c[3]
    if is_call(c, r'PartialEq::eq$'):
        return c[2][0], c[2][1]
    return None


class FFT:
    """The link loops of fill_failure_transitions as iteration summaries."""

    def __init__(self, cx):
        self.b = b = cx.body(COMP + 'fill_failure_transitions')
        self.loops = []
        seen = set()
        for bi, t in b.calls(r'NFA::next_link$'):
            h = innermost_loop(b, bi)
            if h is None or h in seen:
                continue
            seen.add(h)
            rows = loop_rows(cx.facts, b, h)
            nl = None
            for r in rows:
                for c, v in r.conds:
                    if c[0] == 'discr' and is_call(c[1], r'NFA::next_link$') and v == 1 and c[1][3] == bi:
                        nl = c[1]
            if nl is None:
                continue
            owner = canon(strip_old(nl[2][1]))     # fill_failure_transitions never writes nfa.special (checked by R16.2's writers)
            link = ('f', ('dc', nl, 'Some'), '0')
            T = ('call', 'core::ops::Index::index', [('f', ('f', param_at(b, 1), 'nfa'), 'sparse'), link], None)
            so = cstr(owner)
            tag = 'depth1' if so == 'self.nfa.special.start_unanchored_id' else ('bfs' if re.search(r'pop_front\(.*\) as Some\)\.0$', so) else 'other')
            body_rows = [r for r in rows if r.cond(lambda c: c[0] == 'discr' and is_call(c[1], r'NFA::next_link$') and c[1][3] == bi) == 1]
            self.loops.append({'h': h, 'rows': rows, 'body': body_rows, 'owner': owner, 'X': cstr(('f', T, 'next')), 'Xt': canon(('f', T, 'next')), 'BYTE': cstr(('f', T, 'byte')), 'tag': tag})

    @staticmethod
    def fail_stores(r):
        out = []
        for p, v in r.stores():
            y = c_fail_target(p)
            if y is not None:
                out.append((y, canon(v)))
        return out


def r01_2(cx):
    F = FFT(cx)
    b = F.b
    n = 0
    for L in F.loops:
        tag, X = L['tag'], L['X']
        lm = lambda r: r.cond(IS_LM)
        im = lambda r: r.cond(lambda c: is_call(canon(c), r'nfa::noncontiguous::State::is_match$') and c_state(canon(c)[2][0]) is not None and cstr(c_state(canon(c)[2][0])) == X)
        dead = [r for r in L['body'] if any(is_named_const(v, r'NFA::DEAD$') for y, v in F.fail_stores(r))]
        why = None
        if not dead:
            why = 'no path stores NFA::DEAD into a failure link'
        for r in dead:
            fs = F.fail_stores(r)
            if len(fs) != 1 or cstr(fs[0][0]) != X:
                why = 'the cut writes %s (expected only states[t.next].fail of the transition being visited)' % [tstr(y, 80) for y, v in fs]
            elif lm(r) is not True:
                why = 'the cut is reachable without match_kind.is_leftmost() being true'
            elif im(r) is not True:
                why = 'the cut is reachable without states[t.next].is_match() being true'
            elif r.calls(r'NFA::copy_matches$'):
                why = 'a cut state still inherits matches (copy_matches on the same path)'
        if why is None:
            for r in L['body']:
                if r.calls(r'VecDeque.*::push_back$') and lm(r) is True and im(r) is True and r not in dead:
                    why = 'a leftmost match state is enqueued without its failure link being cut'
        if why is None:
            n += 1
        cx.report('R01.2', b, 'cut:' + tag, why is None, 'states[t.next].fail = DEAD exactly under is_leftmost && states[t.next].is_match(); the cut state gets no computed link and no inherited matches (%d paths of one iteration)' % len(L['body']) if why is None else
                  'failure-link cut in the %s loop: %s' % (tag, why))
    cx.floor('R01.2', 'failure-link cuts', n, 2)


def r02_2(cx):
    F = FFT(cx)
    b = F.b
    n = 0
    for L in F.loops:
        X, BYTE, owner = L['X'], L['BYTE'], L['owner']
        for r in L['body']:
            gen = [(y, v) for y, v in F.fail_stores(r) if not is_named_const(v, r'NFA::DEAD$')]
            if not gen:
                continue
            n += 1
            why = None
            wl = None
            if len(gen) != 1 or cstr(gen[0][0]) != X:
                why = 'a computed link is stored into %s (expected states[t.next].fail)' % [tstr(y, 80) for y, v in gen]
            else:
                V = gen[0][1]
                cm = [canon(c) for c in r.calls(r'NFA::copy_matches$')]
                if not any(cstr(c[2][0]) == 'self.nfa' and cstr(c[2][1]) == cstr(V) and cstr(c[2][2]) == X for c in cm):
                    why = 'the computed link is not followed by copy_matches(link, t.next) (suffix matches are lost or taken from elsewhere)'
                elif not (is_call(V, r'NFA::follow_transition$') and cstr(V[2][0]) == 'self.nfa' and V[2][1][0] == 'phi' and cstr(V[2][2]) == BYTE):
                    why = 'the link is %s, expected follow_transition(f, t.byte) at the end of the failure walk' % tstr(V, 160)
                else:
                    PHI = V[2][1]
                    ent = canon(PHI[3])
                    oke = ent[0] == 'f' and ent[2] == 'fail' and c_state(ent[1]) is not None and cstr(c_state(ent[1])) == cstr(owner)
                    exitc = [v for c, v in r.conds if c_eq(c) is not None and {cstr(x) for x in c_eq(c)} == {cstr(V), 'nfa::noncontiguous::NFA::FAIL'}]
                    if not oke:
                        why = 'the failure walk starts at %s, expected states[id].fail of the state being expanded' % tstr(ent, 120)
                    elif exitc != [False]:
                        why = 'the walk does not end exactly when follow_transition(f, t.byte) != FAIL'
                    else:
                        wl = (PHI[1], PHI[2])
            if why is None and wl is not None:
                # the walk loop itself: f := states[f].fail while follow_transition(f, byte) == FAIL
                cur = Sym(cx.facts, b).default_local(wl[1])
                wr = [x for x in loop_rows(cx.facts, b, wl[0]) if x.end == ('stop', wl[0])]
                if not wr:
                    why = 'the failure walk never iterates'
                for x in wr:
                    nxt = canon(x.env.get(wl[1], cur))
                    good = nxt[0] == 'f' and nxt[2] == 'fail' and c_state(nxt[1]) is not None and cstr(c_state(nxt[1])) == cstr(cur)
                    cc = [v for c, v in x.conds if c_eq(c) is not None and any(is_call(s, r'NFA::follow_transition$') and cstr(s[2][1]) == cstr(cur) for s in c_eq(c)) and any(cstr(s) == 'nfa::noncontiguous::NFA::FAIL' for s in c_eq(c))]
                    if not good or cc != [True]:
                        why = 'a step of the failure walk is not f = states[f].fail under follow_transition(f, byte) == FAIL'
            cx.report('R02.2', b, 'inherit', why is None, 'states[t.next].fail = follow_transition(f, t.byte) after walking f from states[id].fail along failure links, then copy_matches(that link, t.next)' if why is None else
                      'computed failure link: %s' % why)
            if why is not None:
                break
    cx.floor('R02.2', 'computed failure-link stores', n, 1)
    # breadth-first order: states are taken from the front and appended at the back of one queue (a state's failure
    # target is shallower and must be complete before the state copies its matches)
    pops = [short(t0['callee']['path']).rsplit('::', 1)[1] for bi, t0 in b.calls(r'VecDeque.*::pop_(front|back)$')]
    pushes = [short(t0['callee']['path']).rsplit('::', 1)[1] for bi, t0 in b.calls(r'VecDeque.*::push_(front|back)$')]
    okq = pops == ['pop_front'] and len(pushes) >= 2 and set(pushes) == {'push_back'}
    cx.report('R02.2', b, 'fifo', okq, 'the work queue is FIFO (push_back / pop_front): failure links are computed breadth-first' if okq else 'the work queue is not FIFO (pops %s, pushes %s): failure targets may be used before they are complete' % (pops, pushes))
    # standard semantics: every popped state also inherits the start state's matches (empty pattern)
    why = 'no pop_front loop'
    for bi, t0 in b.calls(r'VecDeque.*::pop_front$'):
        h = innermost_loop(b, bi)
        if h is None:
            continue
        why = None
        rows = [r for r in loop_rows(cx.facts, b, h) if r.end == ('stop', h)]
        n2 = 0
        for r in rows:
            pf = [c[1] for c, v in r.conds if c[0] == 'discr' and is_call(c[1], r'pop_front$') and v == 1]
            if not pf:
                continue
            n2 += 1
            ID = cstr(('f', ('dc', pf[0], 'Some'), '0'))
            cm = [canon(c) for c in r.calls(r'NFA::copy_matches$')]
            has = any(cstr(c[2][0]) == 'self.nfa' and cstr(strip_old(c[2][1])) == 'self.nfa.special.start_unanchored_id' and cstr(c[2][2]) == ID for c in cm)
            lm = r.cond(IS_LM)
            if lm is False and not has:
                why = 'under standard semantics a dequeued state does not inherit the start state\'s matches'
            elif lm is True and has:
                why = 'start-state matches are inherited under leftmost semantics'
            elif lm is None:
                why = 'start-state inheritance does not depend on the match kind'
        if n2 == 0:
            why = 'no iteration path of the pop_front loop found'
    cx.report('R02.2', b, 'start-matches', why is None, 'under standard semantics (only) each dequeued state inherits the start state\'s matches' if why is None else why)


def r11_5(cx):
    F = FFT(cx)
    b = F.b
    recv = set()
    n = 0
    for L in F.loops:
        X = L['X']
        why = None
        k = 0
        for r in L['body']:
            pb = [canon(c) for c in r.calls(r'VecDeque.*::push_back$')]
            if not pb:
                continue
            k += 1
            if len(pb) != 1 or cstr(pb[0][2][1]) != X:
                why = 'enqueues %s (expected the target of the transition being visited, once)' % [tstr(c[2][1], 80) for c in pb]
                break
            co = r.cond(lambda c: is_call(canon(c), r'QueuedSet::contains$') and cstr(canon(c)[2][1]) == X)
            ins = [canon(c) for c in r.calls(r'QueuedSet::insert$') if cstr(canon(c)[2][1]) == X]
            if co is not False:
                why = 'a state is enqueued without !seen.contains(state)'
            elif len(ins) != 1:
                why = 'a state is enqueued without seen.insert(state)'
            else:
                for c in ins + [canon(c0) for c0, v in r.conds if is_call(canon(c0), r'QueuedSet::contains$')]:
                    rc = c[2][0]
                    recv.add(rc[2] if rc[0] == 'v' else cstr(rc))
            if why:
                break
        if k == 0:
            why = 'no enqueue path'
        if why is None:
            n += 1
        cx.report('R11.5', b, 'enqueue-once:' + L['tag'], why is None, 'queue.push_back(t.next) only under !seen.contains(t.next), always with seen.insert(t.next)' if why is None else
                  'a state can be enqueued twice (its failure target\'s matches would be inherited twice): %s' % why)
    cx.floor('R11.5', 'enqueue sites', n, 2)
    okq = len(recv) == 1 and isinstance(list(recv)[0], int)
    if okq:
        d = b.def_term(list(recv)[0])
        okq = d is not None and is_call(d, r'Compiler::queued_set$')
    cx.report('R11.5', b, 'seen-source', okq, 'the visited set is self.queued_set()' if okq else 'the visited set is not (one) queued_set()')
    q = cx.body(COMP + 'queued_set')
    g = bool_gates(q, lambda x: tstr(x) == 'self.builder.ascii_case_insensitive')
    act = [bi for bi, t in q.calls(r'QueuedSet::active$')]
    ok = bool(g) and len(act) == 1 and all(act[0] in q.reach(tg) for x in g for _, tg in x[2])
    cx.report('R11.5', q, 'active-when-folding', ok, 'the visited set is active whenever ASCII case folding is on' if ok else 'queued_set() is not active under ascii_case_insensitive')
    a = cx.body('nfa::noncontiguous::QueuedSet::active')
    t = a.local_term(0, expand=True)
    ok = is_agg(t, r'QueuedSet$') and is_agg(t[3]['set'], r'Option$', 'Some')
    cx.report('R11.5', a, 'active', ok, 'QueuedSet::active() carries a set' if ok else 'QueuedSet::active() = %s' % tstr(t, 80))
    c = cx.body('nfa::noncontiguous::QueuedSet::contains')
    # every path: the set is consulted for exactly the queried id, or there is no set (inert) and the answer is false
    SID = cstr(param_at(c, 2))
    rws = [r for r in summarize(cx.facts, c) if r.end == 'return']
    consult = inert = 0
    ok = bool(rws)
    for r in rws:
        rt = canon(r.ret)
        if is_call(rt, r'BTreeSet.*::contains$') and cstr(rt[2][1]) == SID:
            consult += 1
        elif rt == ('c', 0) and r.cond(lambda x: canon(x)[0] == 'discr' and cstr(canon(x)).endswith('.set)')) == 0:
            inert += 1
        else:
            ok = False
    ok = ok and consult >= 1 and inert >= 1
    cx.report('R11.5', c, 'contains', ok, 'contains() consults the set when active, false when inert' if ok else 'QueuedSet::contains deviates')
    i = cx.body('nfa::noncontiguous::QueuedSet::insert')
    ok = len(i.calls(r'BTreeSet.*::insert$')) == 1
    cx.report('R11.5', i, 'insert', ok, 'insert() records the state when active' if ok else 'QueuedSet::insert does not insert')


from rules.trie import r01_3  # noqa: E402,F401  (build_trie rules live in rules/trie.py)


# ------------------------------------------------------------------------------------------------- R01.4 / R04.3
def r01_4(cx):
    """close_start_state_loop_for_leftmost on summaries: under leftmost semantics with a matching start state, every
    transition of the unanchored start state that points back to it goes to DEAD, in the sparse list and in the dense row."""
    b = cx.body(COMP + 'close_start_state_loop_for_leftmost')
    START = 'self.nfa.special.start_unanchored_id'
    why = dict.fromkeys(('stores', 'guard', 'self', 'dense', 'index'))
    nls = b.calls(r'NFA::next_link$')
    h = innermost_loop(b, nls[0][0]) if len(nls) == 1 else None
    manual = None       # the walk spelled by hand: link = states[start].sparse; while link != ZERO { ..; link = sparse[link].link }
    if h is None and not nls and len(b.loops()) == 1:
        from acverif.sym import live_in
        h0 = list(b.loops())[0]
        lv = [l for l in live_in(cx.facts, b, h0) if b.locals[l]['ty'] == 'util::primitives::StateID']
        if len(lv) == 1:
            h = h0
            manual = lv[0]
            MLINK = Sym(cx.facts, b).default_local(manual)
    if h is None:
        why = dict.fromkeys(why, 'the walk over the start state\'s transitions (one next_link loop) was not found')
    else:
        arr = [r for r in Sym(cx.facts, b, start=0, stop={h}).rows() if r.end == ('stop', h)]
        if manual is not None:
            for r in arr:
                v0 = cstr(canon(strip_old(r.env.get(manual, MLINK))))
                if not re.match(r'core::ops::Index(Mut)?::index(_mut)?\(self\.nfa\.states, %s\)\.sparse$' % re.escape(START), v0):
                    why['stores'] = 'the walk does not start at the head of the start state\'s transition list (%s)' % v0[:120]
        if not arr:
            why['guard'] = 'the walk is never reached'
        for r in arr:
            lm = r.cond(lambda c: is_call(canon(c), r'MatchKind::is_leftmost$') and cstr(canon(c)[2][0]) == 'self.builder.match_kind')
            im = r.cond(lambda c: is_call(canon(c), r'noncontiguous::State::is_match$') and START in cstr(strip_old(c)))
            if lm is not True or im is not True:
                why['guard'] = 'the start loop can be closed without is_leftmost && start.is_match()'
        rows = loop_rows(cx.facts, b, h)
        nsp = 0
        for r in rows:
            nl = [c[1] for c, v in r.conds if c[0] == 'discr' and is_call(c[1], r'NFA::next_link$') and v == 1]
            sts = [(canon(strip_old(p0)), canon(v0)) for p0, v0 in r.stores()]
            if manual is not None:
                # visiting = the cursor is not the end-of-list marker
                vis = None
                for c, v in r.conds:
                    cc = canon(strip_old(c))
                    if cc[0] == 'op' and cc[1] in ('Eq', 'Ne'):
                        e, iseq = (cc[2], cc[3]), cc[1] == 'Eq'
                    elif is_call(cc, r'PartialEq::(eq|ne)$'):
                        e, iseq = (cc[2][0], cc[2][1]), short(cc[1]).endswith('eq')
                    else:
                        continue
                    ks = [cstr(e[0]), cstr(e[1])]
                    if cstr(MLINK) in ks and 'util::primitives::StateID::ZERO' in ks:
                        vis = (v != iseq)
                nl = [MLINK] if vis else []
                if vis and r.end == ('stop', h):
                    nx = cstr(canon(strip_old(r.env.get(manual, MLINK))))
                    if not re.match(r'core::ops::Index(Mut)?::index(_mut)?\(self\.nfa\.sparse, %s\)\.link$' % re.escape(cstr(MLINK)), nx):
                        why['stores'] = 'the walk does not advance to sparse[link].link (%s)' % nx[:120]
                if vis is None and r.end == ('stop', h):
                    why['stores'] = 'the walk repeats without testing the cursor against the end-of-list marker'
            if not nl:
                if sts:
                    why['stores'] = 'stores outside the visit of a transition'
                continue
            LINK = cstr(('f', ('dc', strip_old(nl[0]), 'Some'), '0')) if manual is None else cstr(MLINK)
            SP = r'core::ops::Index(Mut)?::index(_mut)?\(self\.nfa\.sparse, %s\)' % re.escape(LINK)
            sp = [(p0, v0) for p0, v0 in sts if re.match(SP + r'\.next$', cstr(p0))]
            dn = [(p0, v0) for p0, v0 in sts if is_call(p0, r'Index(Mut)?::index(_mut)?$') and cstr(p0[2][0]) == 'self.nfa.dense']
            oth = [cstr(p0) for p0, v0 in sts if (p0, v0) not in sp and (p0, v0) not in dn]
            if oth:
                why['stores'] = 'unexpected store to %s' % oth
            if any(not is_named_const(v0, r'NFA::DEAD$') for p0, v0 in sp + dn) or len(sp) > 1 or len(dn) > 1:
                why['stores'] = 'expected at most one sparse and one dense store, both of NFA::DEAD'
            selfc = None
            densez = None
            DENSE = None
            for c, v in r.conds:
                cc = canon(strip_old(c))
                if cc[0] == 'op' and cc[1] in ('Eq', 'Ne'):
                    e, iseq = (cc[2], cc[3]), cc[1] == 'Eq'
                elif is_call(cc, r'PartialEq::(eq|ne)$'):
                    e, iseq = (cc[2][0], cc[2][1]), short(cc[1]).endswith('eq')
                else:
                    continue
                ks = [cstr(e[0]), cstr(e[1])]
                if START in ks and any(re.match(SP + r'\.next$', k) for k in ks):
                    selfc = (v == iseq)
                if 'util::primitives::StateID::ZERO' in ks:
                    other = [k for k in ks if k != 'util::primitives::StateID::ZERO']
                    if other and other[0].endswith('.dense') and START in other[0]:
                        DENSE = other[0]
                        densez = (v == iseq)
            if sp:
                nsp += 1
                if selfc is not True:
                    why['self'] = 'a transition is redirected to DEAD without being tested to point back to the start state'
                if densez is None:
                    why['dense'] = 'closing the sparse self loop does not look at whether a dense row exists'
                elif densez is False and not dn:
                    why['dense'] = 'the sparse self loop is closed without updating the dense row'
                elif densez is True and dn:
                    why['dense'] = 'a dense entry is written although the start state has no dense row'
                if dn:
                    idx = dn[0][0][2][1]
                    try:
                        byte = SP.replace('\\', '')
                        def at(t0):
                            s0 = cstr(strip_old(t0))
                            if DENSE is not None and s0 == DENSE:
                                return 100
                            if is_call(canon(t0), r'ByteClasses::get$') and cstr(canon(t0)[2][0]) == 'self.nfa.byte_classes' and re.match(SP + r'\.byte$', cstr(strip_old(canon(t0)[2][1]))):
                                return 7
                            return None
                        if teval(strip_old(idx), at) != 107:
                            why['index'] = 'dense index is %s (expected dense + byte_classes.get(sparse[link].byte))' % tstr(idx, 160)
                    except (Unsupported, EvalPanic) as ex0:
                        why['index'] = 'dense index is %s (expected dense + byte_classes.get(sparse[link].byte))' % tstr(idx, 160)
            elif dn:
                why['dense'] = 'a dense entry is written without closing the sparse self loop'
            elif selfc is True:
                why['self'] = 'a transition that points back to the start state is not redirected'
        if nsp == 0:
            why['stores'] = why['stores'] or 'no path redirects a transition'
    cx.report('R01.4', b, 'stores', why['stores'] is None, 'one sparse and one dense store per self-loop transition, both of NFA::DEAD' if why['stores'] is None else why['stores'])
    cx.report('R01.4', b, 'guard', why['guard'] is None, 'the loop is closed only under is_leftmost && start.is_match()' if why['guard'] is None else why['guard'])
    cx.report('R01.4', b, 'self-loop-only', why['self'] is None, 'exactly the transitions that point back to the start state are redirected to DEAD' if why['self'] is None else why['self'])
    cx.report('R04.3', b, 'dense-coherent', why['dense'] is None, 'the dense row entry of the same byte class is set to DEAD whenever a dense row exists' if why['dense'] is None else why['dense'])
    cx.report('R04.3', b, 'dense-index', why['index'] is None, 'dense index = dense + byte_classes.get(sparse[link].byte)' if why['index'] is None else why['index'])


# ------------------------------------------------------------------------------------------------- R03.2 / R16.4
def loops_blocks(b, h):
    return b.loops()[h]


def r03_2(cx):
    n = 0
    most = {}
    for fn in ('finish_build_one_start', 'finish_build_both_starts'):
        b = cx.body('dfa::Builder::' + fn)
        NN = cstr(param_of_type(b, r'noncontiguous::NFA'))
        sites = b.calls(r'dfa::DFA::set_matches$')
        n += len(sites)
        seen_sites = set()
        why = None
        hs = {innermost_loop(b, bi) for bi, t in sites}
        for h in hs:
            if h is None:
                why = 'set_matches outside the state loop'
                continue
            for r in loop_rows(cx.facts, b, h):
                sm = [c for c in r.calls(r'dfa::DFA::set_matches$')]
                nx = [c[1] for c, v in r.conds if c[0] == 'discr' and is_call(c[1], r'Iterator::next$') and v == 1 and c[1][3] in loops_blocks(b, h)]
                if not nx:
                    if sm:
                        why = why or 'set_matches on a path that has no current state'
                    continue
                pay = ('f', ('dc', nx[0], 'Some'), '0')
                OLD, STATE = cstr(('f', pay, '0')), cstr(('f', pay, '1'))
                im = r.cond(lambda c: is_call(canon(c), r'noncontiguous::State::is_match$') and cstr(canon(c)[2][0]) == STATE)
                if sm and im is not True:
                    why = why or 'a match list is transcribed for a state that was not tested to be a match state'
                targets = []
                for c in sm:
                    seen_sites.add(c[3])
                    cc = canon(c)
                    it = cc[2][2]
                    if not (is_call(it, r'nfa::noncontiguous::NFA::iter_matches$') and cstr(it[2][0]) == NN and cstr(it[2][1]) == OLD):
                        why = why or 'set_matches receives %s instead of nnfa.iter_matches(<the state being transcribed>)' % tstr(it, 140)
                    if not cstr(cc[2][0]).endswith('dfa'):
                        why = why or 'set_matches is called on %s' % tstr(cc[2][0], 40)
                    targets.append(cstr(cc[2][1]))
                if len(set(targets)) != len(targets):
                    why = why or 'the same DFA state receives the list twice'
                most[fn] = max(most.get(fn, 0), len(targets))
                if im is True and r.end == ('stop', h) and not sm:
                    why = why or 'a match state is transcribed without its match list'
        if len(seen_sites) != len(sites):
            why = why or 'a set_matches call site is not reached by any iteration path'
        cx.report('R03.2', b, 'set_matches', why is None, 'set_matches(<new id>, nnfa.iter_matches(oldsid)) for the state being transcribed, iff it is a match state (%d sites)' % len(sites) if why is None else 'match list transcription deviates: %s' % why)
    cx.floor('R03.2', 'DFA set_matches call sites', n, 4)
    b = cx.body('dfa::Builder::finish_build_both_starts')
    ok = most.get('finish_build_both_starts') == 2
    cx.report('R03.2', b, 'both-copies', ok, 'the unanchored and the anchored copy of a match state both receive its list' if ok else 'no iteration gives the list to two distinct DFA states (most: %s)' % most.get('finish_build_both_starts'))
    s = cx.body('dfa::DFA::set_matches')
    SID = cstr(param_at(s, 2))
    okp = oki = False
    sl = s.loops()
    if len(sl) == 1:
        h = list(sl)[0]
        for r in loop_rows(cx.facts, s, h):
            for c in r.calls(r'Vec.*::push$'):
                cc = canon(c)
                tgt, val = cc[2][0], cc[2][1]
                nx = [x[1] for x, v in r.conds if x[0] == 'discr' and is_call(x[1], r'Iterator::next$') and v == 1]
                if nx and is_call(tgt, r'IndexMut::index_mut$') and cstr(tgt[2][0]) == 'self.matches' and cstr(val) == cstr(('f', ('dc', nx[0], 'Some'), '0')):
                    okp = True
                    try:
                        oki = teval(strip_old(tgt[2][1]), lambda t0: 40 if cstr(t0) == SID else (3 if cstr(t0) == 'self.stride2' else None)) == (40 >> 3) - 2
                    except (Unsupported, EvalPanic):
                        oki = False
    cx.report('R03.2', s, 'push-in-order', okp and oki, 'pushes every pid in iteration order to matches[(sid >> stride2) - 2]' if okp and oki else 'set_matches body deviates')
    # an empty id list is rejected: decided on the loop's summaries -- the one boolean the loop carries has value F0 on arrival, every
    # iteration that received an id sets it to F1 != F0, and leaving the loop returns only with F1 (F0 panics)
    from acverif.sym import live_in
    oka = False
    hs = list(s.loops())
    if len(hs) == 1:
        h = hs[0]
        fl = [l for l in live_in(cx.facts, s, h) if s.locals[l]['ty'] == 'bool']
        if len(fl) == 1:
            fl = fl[0]
            sym = Sym(cx.facts, s)
            cur = sym.default_local(fl)
            arr = [r for r in Sym(cx.facts, s, start=0, stop={h}).rows() if r.end == ('stop', h)]
            rows = loop_rows(cx.facts, s, h)
            try:
                f0 = {teval(r.env.get(fl), lambda t0: None) for r in arr}
                steps = [r for r in rows if r.end == ('stop', h)]
                f1 = {teval(r.env.get(fl, cur), lambda t0: None) for r in steps}
                if len(f0) == 1 and len(f1) == 1 and f0 != f1 and steps:
                    F0, F1 = list(f0)[0], list(f1)[0]
                    oka = True
                    for val, want in ((F0, 'diverge'), (F1, 'return')):
                        at = lambda t0, val=val: val if repr(t0) == repr(cur) else None
                        ex = [r for r in rows if r.end != ('stop', h) and row_consistent(r, at)]
                        ex = [r for r in ex if not any(c[0] == 'discr' and is_call(c[1], r'Iterator::next$') and v == 1 for c, v in r.conds)]
                        if not ex or any(r.end != want for r in ex):
                            oka = False
            except (Unsupported, EvalPanic, KeyError, TypeError):
                oka = False
    cx.report('R16.4', s, 'non-empty', oka, 'set_matches asserts that a match state has at least one pattern' if oka else 'empty match lists are accepted')
    # contiguous: State::write is called for (oldsid, state) of the same iteration and reads only iter_trans/iter_matches(oldsid)
    w = cx.body('nfa::contiguous::Builder::build_from_noncontiguous')
    calls = [(bi, w.call_term(bi, t)) for bi, t in w.calls(r'nfa::contiguous::State::write$')]
    ok = False
    why = ''
    if len(calls) == 1:
        ct = calls[0][1]
        why = tstr(ct, 300)
        a = ct[2]
        od = expand_vars(w, a[1], keep=('nnfa',))
        sd = expand_vars(w, a[2], keep=('nnfa',))
        same_iter = 'Iterator::next' in tstr(od) and 'Iterator::next' in tstr(sd) and tstr(od, 400).replace('.0.0', '') == tstr(sd, 400).replace('.0.1', '')
        ok = is_var(peel(a[0]), 'nnfa') and same_iter
    cx.report('R03.2', w, 'contiguous-write', ok, 'State::write(nnfa, oldsid, state, ..) receives the id and the state of the same iteration' if ok else 'State::write is fed %s' % why)
    for fn in ('write', 'write_sparse_trans', 'write_dense_trans'):
        sw = cx.body("nfa::contiguous::State::<'a>::" + fn)
        its = [(bi, sw.call_term(bi, t)) for bi, t in sw.calls(r'NFA::(iter_trans|iter_matches)$')]
        ok = bool(its) and all(is_var(peel(ct[2][0]), 'nnfa') and is_var(ct[2][1], 'oldsid') for bi, ct in its)
        cx.report('R03.2', sw, 'reads-own-state', ok, 'State::%s reads transitions/matches of (nnfa, oldsid) only (%d reads)' % (fn, len(its)) if ok else 'State::%s reads another state\'s transitions or matches' % fn)
    sw = cx.body("nfa::contiguous::State::<'a>::write")
    # matches section iff old.is_match()
    g = bool_gates(sw, lambda x: is_call(x, r'noncontiguous::State::is_match$') and is_var(peel(x[2][0]), 'old'))
    ims = [bi for bi, t in sw.calls(r'NFA::iter_matches$')]
    ok = bool(g) and bool(ims) and not reachable_without(sw, ims, [e for x in g for e in x[2]])
    cx.report('R16.4', sw, 'matches-iff-match-state', ok, 'a match section is written iff old.is_match()' if ok else 'the match section is not guarded by old.is_match()')
    ext = [(bi, sw.call_term(bi, t)) for bi, t in sw.calls(r'Extend::extend$|Vec.*::extend')]
    okx = any('iter_matches' in tstr(ct, 300) and 'take' not in tstr(ct, 300) and 'skip' not in tstr(ct, 300) and 'rev' not in tstr(ct, 300) for bi, ct in ext)
    if not okx:
        # the loop spelling (also what `dst.extend(it.map(|pid| ..))` is rewritten to): a loop that draws from exactly
        # nnfa.iter_matches(oldsid) and pushes the id of every item, once, unconditionally
        DSTW, NN, OS = cstr(param_at(sw, 5)), cstr(param_at(sw, 1)), cstr(param_at(sw, 2))
        for h in sw.loops():
            try:
                it_rows = [r for r in loop_rows(cx.facts, sw, h) if r.end != 'diverge']
                symw = Sym(cx.facts, sw)
                mods, _ = symw.loop_mods(h)
                pre = [r for r in Sym(cx.facts, sw, start=0, stop={h}).rows() if r.end == ('stop', h)]
            except Exception:
                continue
            def is_src(t):
                return is_call(t, r'NFA::iter_matches$') and [cstr(a) for a in t[2]] == [NN, OS]
            recv = {cstr(canon(c)[1][2][0]): canon(c)[1][2][0] for r in it_rows for c, v in r.conds if canon(c)[0] == 'discr' and is_call(canon(c)[1], r'Iterator::next$')}
            if len(recv) != 1:
                continue
            IT, rt = list(recv.items())[0]
            if not is_src(rt):
                src = [l for l in mods if cstr(symw.default_local(l)) == IT and pre and all(l in r.env and is_src(canon(r.env[l])) for r in pre)]
                if len(src) != 1:
                    continue
            good = bool(it_rows)
            n_some = 0
            for r in it_rows:
                v = r.cond(lambda c: canon(c)[0] == 'discr' and is_call(canon(c)[1], r'Iterator::next$') and cstr(canon(c)[1][2][0]) == IT)
                if isinstance(v, tuple) and v[0] == 'not':
                    v = 0 if 1 in v[1] else (1 if 0 in v[1] else None)
                pushes = [canon(c) for c in r.calls(r'Vec.*::push$') if cstr(canon(c)[2][0]) == DSTW]
                if v == 1:
                    n_some += 1
                    item = '(core::iter::Iterator::next(%s) as Some).0' % IT
                    if len(pushes) != 1 or not re.match(r'^(util::primitives::PatternID::as_u32\(%s\)|%s\.0\.0)$' % (re.escape(item), re.escape(item)), cstr(pushes[0][2][1])) or r.end != ('stop', h) or len(r.conds) != 1:
                        good = False
                elif v == 0:
                    if pushes:
                        good = False
                else:
                    good = False
            okx = okx or (good and n_some == 1)
    cx.report('R03.2', sw, 'all-matches-in-order', okx, 'all pattern ids of the list are written, in list order' if okx else 'the match list is not written completely / in order')


# ------------------------------------------------------------------------------------------------- R09.5 / R09.6
def r09_5(cx):
    """set_anchored_start_state on summaries: the anchored start gets the unanchored start's transition targets link by
    link, its matches, and DEAD as failure link."""
    b = cx.body(COMP + 'set_anchored_start_state')
    U, A = 'self.nfa.special.start_unanchored_id', 'self.nfa.special.start_anchored_id'
    loops = b.loops()
    why = None
    if len(loops) != 1:
        why = '%d loops (expected the one lock-step walk over both transition lists)' % len(loops)
    else:
        h = list(loops)[0]
        rows = loop_rows(cx.facts, b, h)
        cont = [r for r in rows if r.end == ('stop', h)]
        if not cont:
            why = 'the walk never iterates'
        sym = Sym(cx.facts, b)
        for r in rows:
            nl = {}
            for c in r.calls(r'NFA::next_link$'):
                cc = canon(strip_old(c))
                if cstr(cc[2][0]) == 'self.nfa':
                    nl[cstr(cc[2][1])] = c
            if set(nl) != {U, A}:
                why = why or 'an iteration does not ask next_link for both start states (%s)' % sorted(nl)
                continue
            du = r.cond(lambda c: c[0] == 'discr' and c[1][0] == 'call' and c[1][3] == nl[U][3])
            da = r.cond(lambda c: c[0] == 'discr' and c[1][0] == 'call' and c[1][3] == nl[A][3])
            both_some = du == 1 and da == 1
            both_none = du not in (1, None) and da not in (1, None)
            UL, AL = (cstr(('f', ('dc', nl[k], 'Some'), '0')) for k in (U, A))
            sts = [(cstr(p), cstr(v)) for p, v in r.stores()]
            if r.end == ('stop', h):
                if not both_some:
                    why = why or 'the walk continues although one of the two lists has ended'
                want = ('core::ops::IndexMut::index_mut(self.nfa.sparse, %s).next' % AL, 'core::ops::Index::index(self.nfa.sparse, %s).next' % UL)
                if [s for s in sts if s[0].endswith('.next')] != [want]:
                    why = why or 'a step does not copy sparse[ulink].next into sparse[alink].next (%s)' % [s for s in sts if s[0].endswith('.next')]
                # both cursors advance to the links just visited
                mods, _ = sym.loop_mods(h)
                adv = set()
                for l in mods:
                    if l in r.env and b.locals[l]['names']:
                        for s0 in subterms(canon(r.env[l])):
                            if is_agg(s0, r'Option$', 'Some'):
                                adv.add(cstr(s0))
                if adv != {'core::option::Option::Some{0: %s}' % UL, 'core::option::Option::Some{0: %s}' % AL}:
                    why = why or 'the two link cursors do not both advance to the links just copied'
            elif r.end != 'diverge':
                if not both_none:
                    why = why or 'the walk ends before both transition lists are exhausted (the last transitions are not copied)'
    cx.report('R09.5', b, 'copy-transitions', why is None, 'every transition target of the unanchored start is copied to the anchored start, link by link, until both lists end' if why is None else why)
    frows = [r for r in summarize(cx.facts, b) if r.end == 'return' and is_agg(r.ret, r'Result$', 'Ok')]
    okm = okf = bool(frows)
    for r in frows:
        cm = [canon(strip_old(c)) for c in r.calls(r'NFA::copy_matches$')]
        if not (len(cm) == 1 and [cstr(a) for a in cm[0][2]] == ['self.nfa', U, A]):
            okm = False
        fs = [(cstr(strip_old(p)), canon(v)) for p, v in r.stores() if canon(p)[0] == 'f' and canon(p)[2] == 'fail']
        if not (len(fs) == 1 and fs[0][0] in ('core::ops::IndexMut::index_mut(self.nfa.states, %s).fail' % A, 'self.nfa.states[%s].fail' % A) and is_named_const(fs[0][1], r'NFA::DEAD$')):
            okf = False
    cx.report('R09.5', b, 'copy-matches', okm, 'copy_matches(start_uid, start_aid) on every path to Ok' if okm else 'matches of the anchored start are not copied from the unanchored start (on every path)')
    cx.report('R09.5', b, 'fail-dead', okf, 'the anchored start fails to DEAD on every path to Ok' if okf else 'anchored start failure link is not set to DEAD (on every path)')


def closure_with(cx, prefix, capture):
    for p, b in cx.facts.bodies.items():
        if p.startswith(prefix + '::{closure#') and any(c['name'] == capture for c in b.j.get('captures', [])):
            cx.bodies_seen.add(p)
            return b
    from acverif.core import Missing
    raise Missing('closure of %s capturing %s' % (prefix, capture))


def r09_6(cx):
    from rules.dfabuild import r_one_start_closure
    r_one_start_closure(cx, ids=('R09.6',))
    from rules.dfabuild import both_starts_rules
    both_starts_rules(cx, ids=('R09.6',))


"""ASCII case folding rules (C11)."""
import re

from acverif.mir import short, tstr, subterms
from acverif.rl import (is_call, peel, peel_all, is_var, is_agg, self_field, bool_gates, reachable_without, must_pass, line_of,
                        expand_vars, strip_convs)


def r11_1(cx):
    b = cx.body('util::prefilter::opposite_ascii_case')
    if b.back_edges():
        cx.bad('R11.1', b, 'table', 'opposite_ascii_case is not loop-free')
        return
    B = ('v', 'b', b.locals_named('b')[0])

    def val(t, x):
        t = strip_convs(t)
        if t == B:
            return x
        if t[0] == 'c':
            return t[1]
        if t[0] == 'op':
            a, c = val(t[2], x), val(t[3], x)
            return int({'Le': a <= c, 'Lt': a < c, 'Ge': a >= c, 'Gt': a > c, 'Eq': a == c, 'Ne': a != c, 'BitAnd': a & c, 'BitOr': a | c}[t[1]])
        if t[0] == 'un' and t[1] == 'Not':
            return int(not val(t[2], x))
        if is_call(t, r'(is_ascii_uppercase|is_ascii_lowercase|is_ascii_alphabetic)$') and strip_convs(peel(t[2][0])) == B:
            nm = short(t[1]).rsplit('::', 1)[1]
            return int({'is_ascii_uppercase': 65 <= x <= 90, 'is_ascii_lowercase': 97 <= x <= 122, 'is_ascii_alphabetic': 65 <= x <= 90 or 97 <= x <= 122}[nm])
        raise KeyError(tstr(t))
    bad = []
    try:
        for x in range(256):
            blk = 0
            out = None
            for _ in range(200):
                for st in b.blocks[blk]['stmts']:
                    if st['k'] == 'assign' and st['p']['l'] == 0 and not st['p']['pr']:
                        out = strip_convs(b.rvalue_term(st['r'], 0, blk))
                t = b.term(blk)
                if t['k'] == 'return':
                    break
                if t['k'] == 'call':
                    if t['dest']['l'] == 0 and not t['dest']['pr']:
                        out = b.call_term(blk, t)
                    blk = t['target']
                elif t['k'] == 'switch':
                    sc = b.switch_cond(blk)
                    if sc[0] != 'bool':
                        raise KeyError('non-boolean switch')
                    blk = sc[2][0] if val(sc[1], x) else sc[3][0]
                else:
                    blk = t['target']
            if 65 <= x <= 90:
                good = is_call(out, r'to_ascii_lowercase$') and strip_convs(peel(out[2][0])) == B
            elif 97 <= x <= 122:
                good = is_call(out, r'to_ascii_uppercase$') and strip_convs(peel(out[2][0])) == B
            else:
                good = out == B
            if not good:
                bad.append((x, tstr(out, 60)))
    except KeyError as e:
        bad.append(('unsupported construct', str(e)))
    cx.report('R11.1', b, 'table', not bad, 'for every byte value 0..=255: A-Z -> to_ascii_lowercase, a-z -> to_ascii_uppercase, everything else unchanged (decision table evaluated over the full byte domain)' if not bad else
              'opposite_ascii_case deviates for byte values %s' % bad[:6])


SITES = [
    ("nfa::noncontiguous::Compiler::<'a>::build_trie", r'NFA::add_transition$', 'self.builder.ascii_case_insensitive', 'add_transition(prev, b, next)'),
    ("nfa::noncontiguous::Compiler::<'a>::build_trie", r'ByteClassSet::set_range$', 'self.builder.ascii_case_insensitive', 'byteset.set_range(b, b)'),
    ('util::prefilter::StartBytesBuilder::add', r'StartBytesBuilder::add_one_byte$', 'self.ascii_case_insensitive', 'add_one_byte(byte)'),
    ('util::prefilter::RareBytesBuilder::set_offset', r'RareByteOffsets::set$', 'self.ascii_case_insensitive', 'byte_offsets.set(byte, offset)'),
    ('util::prefilter::RareBytesBuilder::add_rare_byte', r'RareBytesBuilder::add_one_rare_byte$', 'self.ascii_case_insensitive', 'add_one_rare_byte(byte)'),
]


def opp_of(x):
    """opposite_ascii_case(y) -> y"""
    x = peel(x)
    if is_call(x, r'util::prefilter::opposite_ascii_case$'):
        return peel(x[2][0])
    return None


def r11_2(cx):
    n = 0
    HOSTS = {'util::prefilter::RareBytesBuilder::add_rare_byte': 'util::prefilter::RareBytesBuilder::add',
             'util::prefilter::RareBytesBuilder::set_offset': 'util::prefilter::RareBytesBuilder::add'}
    for path, pat, flag, what in SITES:
        if not cx.has(path) and path in HOSTS:
            path = HOSTS[path]      # the one-line helper was merged into its caller: the pair is looked for there
        b = cx.body(path)
        calls = [(bi, b.call_term(bi, t)) for bi, t in b.calls(pat)]
        # expand shadowing `let b = opposite_ascii_case(b)`
        ex = []
        for bi, ct in calls:
            args = [b.def_term(a[2]) if (is_var(a) and b.def_term(a[2]) is not None and opp_of(b.def_term(a[2])) is not None) else a for a in ct[2]]
            ex.append((bi, args))
        plain = [(bi, a) for bi, a in ex if not any(opp_of(x) is not None for x in a)]
        folded = [(bi, a) for bi, a in ex if any(opp_of(x) is not None for x in a)]
        n += 1
        ok = len(plain) == 1 and len(folded) == 1
        why = '%d plain / %d folded registrations' % (len(plain), len(folded))
        if ok:
            pb, pa = plain[0]
            fb, fa = folded[0]
            # same operands with b replaced by opposite_ascii_case(b)
            same = len(pa) == len(fa) and all((opp_of(y) == peel(x)) if opp_of(y) is not None else (peel(x) == peel(y)) for x, y in zip(pa, fa))
            # every occurrence of the byte is folded in the twin (set_range(b, b) / set_range(fold(b), b) is not a twin)
            folded_bytes = [opp_of(y) for y in fa if opp_of(y) is not None]
            same = same and all(opp_of(y) is not None for x, y in zip(pa, fa) if peel(x) in folded_bytes)
            g = bool_gates(b, lambda x: tstr(x) == flag)
            guarded = bool(g) and not reachable_without(b, [fb], [e for gg in g for e in gg[2]])
            # when the flag is set, the folded registration follows the plain one before the next iteration / exit
            loops = b.loops()
            hs = [h for h, blks in loops.items() if pb in blks]
            stop = [min(hs, key=lambda h: len(loops[h]))] if hs else []
            stop += b.return_blocks()
            # early-error exits (`?`) are exempt: cut blocks that assign the error residual
            errs = [bi for bi, t in b.calls(r'FromResidual::from_residual$')]
            r = b.reach(pb, cut_blocks=[fb] + errs, cut_edges=[e for gg in g for e in gg[3]]) - {pb}
            follows = not (set(stop) & (r - {fb}))
            ok = same and guarded and follows
            why = 'same operands=%s, guarded by flag=%s, always follows=%s' % (same, guarded, follows)
        cx.report('R11.2', b, 'pair:' + what.split('(')[0], ok, '%s has a twin for opposite_ascii_case(b) with otherwise identical operands, exactly under %s' % (what, flag) if ok else
                  'case pairing of %s is broken: %s' % (what, why))
    cx.floor('R11.2', 'case-pair registration sites', n, 5)
    # the registered primitives do not fold on their own (no double folding) and nothing else registers bytes
    for path, pat in (('util::prefilter::StartBytesBuilder::add_one_byte', None), ('util::prefilter::RareBytesBuilder::add_one_rare_byte', None)):
        b = cx.body(path)
        c = b.calls(r'opposite_ascii_case$')
        cx.report('R11.2', b, 'no-inner-fold', not c, 'the primitive registers exactly the byte it is given' if not c else 'the primitive folds on its own')

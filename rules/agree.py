"""Agreement / provenance rules: forwarding impls, id predicates, special-id layout, metadata chains, kind pairing (C04, C16, C20)."""
import itertools
import re

from acverif.mir import short, tstr, subterms, affine_str
from acverif.rl import (is_call, peel, peel_all, is_var, is_agg, is_const, self_field, bool_gates, try_gates, discr_gates,
                        reachable_without, must_pass, line_of, decision_table, rewrite, expand_vars, atom, cmp_norm, eq_cond,
                        var_defs_terms, is_named_const, strip_convs, inline_closures, variant_name, enum_paths, path_conditions, path_value, unwrapped, param_at, enum_gates, arm_edges, other_edges, result_gates, value_roots, param_of_type)

AUTOS = ('nfa::noncontiguous::NFA', 'nfa::contiguous::NFA', 'dfa::DFA')
FWD_SELF = ("&'a A", "alloc::sync::Arc<(dyn ahocorasick::AcAutomaton + 'static)>")


# ------------------------------------------------------------------------------------------------- R04.1
def r04_1(cx):
    n = 0
    per = {}
    for p, b in sorted(cx.facts.bodies.items()):
        j = b.j
        if j.get('impl_trait') != 'automaton::Automaton' or j.get('impl_self') not in FWD_SELF or j['kind'] != 'AssocFn':
            continue
        ti = j.get('trait_item', '')
        name = j['name']
        # on the path summary (helpers that are not vocabulary unfolded): one path, no decision, no store, and the value returned is
        # the namesake called on self with the parameters in order
        from acverif.sym import summarize, canon, cstr
        rows = summarize(cx.facts, b)
        params = [cstr(param_at(b, i)) for i in range(2, j['arg_count'] + 1)]
        ok = False
        t = canon(rows[0].ret) if len(rows) == 1 and rows[0].ret is not None else ('s', '%d paths' % len(rows))
        if len(rows) == 1 and rows[0].end == 'return' and not rows[0].conds and not rows[0].stores():
            if is_call(t, '^' + re.escape(short(ti)) + '$'):
                ok = cstr(t[2][0]) == 'self' and [cstr(a) for a in t[2][1:]] == params
            elif name in ('try_find', 'try_find_overlapping') and is_call(t, r'^automaton::%s_fwd$' % name):
                ok = cstr(t[2][0]) == 'self' and [cstr(a) for a in t[2][1:]] == params
        n += 1
        per[j['impl_self']] = per.get(j['impl_self'], 0) + 1
        info = name == 'memory_usage'
        cx.report('R04.1', b, 'forward', ok, 'forwards to the same trait method on the inner automaton with the parameters in order' if ok else
                  '%s of the %s forwarding impl does not forward to its namesake with unchanged arguments: %s' % (name, j['impl_self'], tstr(t, 200)))
    cx.floor('R04.1', 'forwarding methods', n, 32)
    for s in FWD_SELF:
        cx.floor('R04.1', 'methods of the %s impl' % ('&A' if s.startswith('&') else 'Arc<dyn AcAutomaton>'), per.get(s, 0), 15)


# ------------------------------------------------------------------------------------------------- R04.2
class Interp:
    """Abstract evaluation of a loop-free comparison predicate under an assignment of its symbols."""

    def __init__(self, facts, body, env, depth=0):
        self.f, self.b, self.env, self.depth = facts, body, env, depth

    def val(self, t):
        t = peel(t)
        k = t[0]
        if k == 'c':
            return t[1]
        if k == 'k':
            if t[1].endswith('::DEAD'):
                return self.env['DEAD']
            if t[1].endswith('::FAIL'):
                return self.env.get('FAIL', 1)
            return t[2]
        if k == 'v':
            if t[1] in self.env:
                return self.env[t[1]]
            d = self.b.def_term(t[2])
            if d is not None:
                return self.val(d)
            raise KeyError(t[1])
        if k == 'f':
            if t[2] in self.env and 'special' in tstr(t):
                return self.env[t[2]]
            raise KeyError(tstr(t))
        if k == 'un' and t[1] == 'Not':
            return int(not self.val(t[2]))
        if k == 'op':
            a, c = self.val(t[2]), self.val(t[3])
            return int({'Eq': a == c, 'Ne': a != c, 'Lt': a < c, 'Le': a <= c, 'Gt': a > c, 'Ge': a >= c, 'BitAnd': a & c, 'BitOr': a | c}[t[1]])
        if k == 'call':
            nm = short(t[1])
            m = re.search(r'Partial(Eq|Ord)::(eq|ne|lt|le|gt|ge)$', nm)
            if m:
                a, c = self.val(t[2][0]), self.val(t[2][1])
                return int({'eq': a == c, 'ne': a != c, 'lt': a < c, 'le': a <= c, 'gt': a > c, 'ge': a >= c}[m.group(2)])
            m = re.search(r'Automaton::(is_dead|is_match|is_special|is_start)$', nm)
            if m and self.depth < 3:
                tgt = '<%s as automaton::Automaton>::%s' % (self.b.j['impl_self'], m.group(1))
                ob = self.f.bodies.get(tgt)
                if ob is not None:
                    env = dict(self.env)
                    env['sid'] = self.val(t[2][1])
                    return Interp(self.f, ob, env, self.depth + 1).run()
            raise KeyError(nm)
        raise KeyError(tstr(t))

    def run(self):
        b = self.b
        blk = 0
        ret = None
        steps = 0
        while True:
            steps += 1
            if steps > 200:
                raise KeyError('loop')
            for st in b.blocks[blk]['stmts']:
                if st['k'] == 'assign' and st['p']['l'] == 0 and not st['p']['pr']:
                    ret = self.val(b.rvalue_term(st['r'], 0, blk))
            t = b.term(blk)
            if t['k'] == 'return':
                return ret
            if t['k'] == 'call':
                if t['dest']['l'] == 0 and not t['dest']['pr']:
                    ret = self.val(b.call_term(blk, t))
                blk = t['target']
            elif t['k'] == 'switch':
                sc = b.switch_cond(blk)
                if sc[0] == 'bool':
                    v = self.val(sc[1])
                    blk = sc[2][0] if v else sc[3][0]
                else:
                    raise KeyError('int switch')
            elif t['k'] in ('goto', 'drop', 'assert'):
                blk = t['target']
            else:
                raise KeyError(t['k'])


SPEC_PRED = {
    'is_dead': lambda e: e['sid'] == e['DEAD'],
    'is_match': lambda e: e['sid'] != e['DEAD'] and e['sid'] <= e['max_match_id'],
    'is_special': lambda e: e['sid'] <= e['max_special_id'],
    'is_start': lambda e: e['sid'] == e['start_unanchored_id'] or e['sid'] == e['start_anchored_id'],
}


def r04_2(cx):
    n = 0
    for imp in AUTOS:
        for pred, spec in SPEC_PRED.items():
            b = cx.body('<%s as automaton::Automaton>::%s' % (imp, pred))
            n += 1
            syms = ['sid', 'max_match_id', 'max_special_id', 'start_unanchored_id', 'start_anchored_id']
            bad = None
            cnt = 0
            # evaluated on the predicate's path summary (any spelling: comparisons, `match` on the constant, early returns, De
            # Morgan forms, the other predicates called as helpers)
            from acverif.sym import summarize, cstr as _cs, teval as _te, row_consistent as _rc
            from acverif.rl import Unsupported as _U, EvalPanic as _E
            rows = [r for r in summarize(cx.facts, b) if r.end == 'return']
            SID = _cs(param_at(b, 2))
            try:
                for vals in itertools.product(range(0, 5), repeat=len(syms)):
                    env = dict(zip(syms, vals))
                    env['DEAD'] = 0
                    cnt += 1

                    def at(t, env=env):
                        s0 = _cs(t)
                        if s0 in (SID, SID + '.0', SID + '.0.0'):
                            return env['sid']       # the id, or the integer inside the id newtype
                        m0 = re.match(r'^self\.special\.(\w+)$', s0)
                        if m0 and m0.group(1) in env:
                            return env[m0.group(1)]
                        m1 = re.match(r'^automaton::Automaton::(is_dead|is_match|is_special|is_start)\(self, %s\)$' % re.escape(SID), s0)
                        if m1:
                            return int(bool(SPEC_PRED[m1.group(1)](env)))
                        return None
                    sel = [r for r in rows if _rc(r, at)]
                    if len(sel) != 1:
                        bad = dict(env, paths=len(sel))
                        break
                    got = bool(_te(sel[0].ret, at))
                    if got != bool(spec(env)):
                        bad = env
                        break
            except (_U, _E, KeyError, TypeError) as e:
                bad = 'predicate uses something other than comparisons of the id with the special ids: %s' % e
            cx.report('R04.2', b, 'equiv', bad is None, '%s agrees with the specification under all %d relative orderings of (sid, special ids, DEAD=0)' % (pred, cnt) if bad is None else
                      '%s deviates from the specification for %s' % (pred, bad))
    cx.floor('R04.2', 'id predicates', n, 12)
    for imp in AUTOS:
        c = cx.facts.consts.get(imp + '::DEAD')
        ok = c is not None and c['value'] == 0
        cx.report('R04.2', imp + '::DEAD', 'dead-is-zero', ok, 'DEAD evaluates to 0' if ok else 'DEAD = %s' % (c and c['value']))
    for imp in ('nfa::noncontiguous::NFA', 'nfa::contiguous::NFA'):
        c = cx.facts.consts.get(imp + '::FAIL')
        ok = c is not None and c['value'] == 1
        cx.report('R04.2', imp + '::FAIL', 'fail-is-one', ok, 'FAIL evaluates to 1' if ok else 'FAIL = %s' % (c and c['value']))


# ------------------------------------------------------------------------------------------------- R16.2
def r16_2(cx):
    FIELDS = ('max_special_id', 'max_match_id', 'start_unanchored_id', 'start_anchored_id')
    b = cx.body('nfa::contiguous::Builder::build_from_noncontiguous')
    got = {}
    NN = param_of_type(b, r'noncontiguous::NFA')
    maps = [i for i, l in enumerate(b.locals) if l['ty'].startswith('alloc::vec::Vec<util::primitives::StateID') and b.def_term(i) is not None and is_call(expand_vars(b, b.def_term(i)), r'alloc::vec::from_elem$')]
    for bi, si, tt, v, s in b.field_stores():
        if tt[0] == 'f' and tt[2] in FIELDS:
            got.setdefault(tt[2], []).append(v)
    okold = True
    for f in FIELDS:
        vs = got.get(f, [])
        ok = len(vs) == 1 and len(maps) == 1
        if ok:
            v = peel_all(vs[0])
            mp = peel_all(expand_vars(b, v[2][0], keep=lambda x: x[2] in maps)) if is_call(v, r'Index::index$') else ('s', '?')
            ok = is_call(v, r'Index::index$') and mp[0] == 'v' and mp[2] == maps[0]
            if ok:
                src = peel_all(expand_vars(b, v[2][1]))
                ok = src[0] == 'f' and src[2] == f
                if ok:
                    base = peel_all(src[1])
                    okold = okold and is_call(base, r'NFA::special$') and peel_all(base[2][0]) == NN
        cx.report('R16.2', b, 'special:' + f, ok, 'special.%s = remap[old.%s]' % (f, f) if ok else 'contiguous special.%s is assigned %s' % (f, [tstr(v, 80) for v in vs]))
    cx.report('R16.2', b, 'old-source', okold, 'the old special ids are nnfa.special()' if okold else 'old special ids do not come from nnfa.special()')
    from rules.dfabuild import both_starts_rules
    both_starts_rules(cx, ids=('R16.2',))
    from rules.dfabuild import r16_2_one_start, r_one_start_closure
    r16_2_one_start(cx)
    r_one_start_closure(cx, ids=('R16.2',))
    from rules.trie import r16_2_shuffle
    r16_2_shuffle(cx)
    co = cx.body("nfa::noncontiguous::Compiler::<'a>::compile")
    vs = [expand_vars(co, v, keep=('self',)) for bi, si, tt, v, s in co.field_stores() if tt[0] == 'f' and tt[2] == 'max_special_id']
    ok = len(vs) == 1
    if ok:
        srcs = set()
        v = vs[0]
        if v[0] == 't':
            for d in co.defs().get(v[1], []):
                srcs.add(tstr(co.rvalue_term(d[3]['r'], 0, d[0])))
        else:
            srcs.add(tstr(v))
        ok = srcs <= {'self.nfa.special.start_anchored_id', 'self.nfa.special.max_match_id'} and bool(srcs)
    cx.report('R16.2', co, 'max_special', ok, 'max_special_id is the anchored start id or max_match_id (dead and match states are special either way)' if ok else 'max_special_id = %s' % [tstr(v, 100) for v in vs])


# ------------------------------------------------------------------------------------------------- R16.3
def r16_3(cx):
    from rules.builder import compile_body
    b = compile_body(cx)
    cs = [expand_vars(b, b.call_term(bi, t)) for bi, t in b.calls(r'NFA::init_full_state$')]
    cs = [c for c in cs if is_named_const(peel(c[2][1]), r'NFA::DEAD$')]
    ok = len(cs) == 1 and is_named_const(peel(cs[0][2][2]), r'NFA::DEAD$')
    cx.report('R16.3', b, 'dead-loop', ok, 'every transition of DEAD is initialised to DEAD' if ok else 'the DEAD state is initialised by %s' % [tstr(c, 100) for c in cs])
    i = cx.body('nfa::noncontiguous::NFA::init_full_state')
    # a transition for every byte 0..=255 with the given target
    t = ' '.join(tstr(i.call_term(bi, x), 200) for bi, x in i.calls()) + ' '.join(tstr(v, 200) for bi, si, tt, v, s in i.field_stores())
    ok = 'RangeInclusive' in t and '255' in t and 'next' in t
    st = [(tstr(tt, 100), v) for bi, si, tt, v, s in i.field_stores()]
    cx.report('R16.3', i, 'full-state', ok, 'init_full_state links one transition per byte 0..=255 to the given target' if ok else 'init_full_state does not cover 0..=255')
    c = cx.body('nfa::contiguous::Builder::build_from_noncontiguous')
    il = [i for i, l in enumerate(c.locals) if l['ty'].startswith('alloc::vec::Vec<util::primitives::StateID') and c.def_term(i) is not None and is_call(expand_vars(c, c.def_term(i)), r'alloc::vec::from_elem$')]
    d = expand_vars(c, c.def_term(il[0])) if len(il) == 1 else None
    ok = d is not None and is_call(d, r'alloc::vec::from_elem$') and is_named_const(d[2][0], r'contiguous::NFA::DEAD$')
    cx.report('R16.3', c, 'remap-default-dead', ok, 'the contiguous id map defaults to DEAD (DEAD -> DEAD)' if ok else 'index_to_state_id is not initialised with DEAD')
    d2 = cx.body('dfa::Builder::build_from_noncontiguous')
    ok = False
    for bi, si, pl, st in d2.stores():
        r = st.get('r') if si != 'term' else None
        if r and r.get('k') == 'agg' and r.get('adt') == 'dfa::DFA':
            t = expand_vars(d2, d2.rvalue_term(r, 0, bi), keep=('trans_len',))
            tr = t[3]['trans']
            ok = is_call(tr, r'alloc::vec::from_elem$') and is_named_const(tr[2][0], r'DFA::DEAD$')
    cx.report('R16.3', d2, 'trans-default-dead', ok, 'the DFA transition table is initialised to DEAD everywhere (dead state absorbing)' if ok else 'DFA transitions are not initialised to DEAD')
    tr = cx.facts.traits.get('automaton::Automaton')
    ok = tr is not None and any('Sealed' in s for s in tr['supers']) and tr['unsafe']
    cx.report('R16.5', 'automaton::Automaton', 'sealed', ok, 'Automaton is an unsafe trait with the private Sealed supertrait' if ok else 'Automaton is not sealed')
    sealed = sorted(i['self_ty'] for i in cx.facts.impls if i['trait_path'] == 'automaton::private::Sealed')
    ok = sealed == sorted(["&'a T", "alloc::sync::Arc<(dyn ahocorasick::AcAutomaton + 'static)>", 'dfa::DFA', 'nfa::contiguous::NFA', 'nfa::noncontiguous::NFA'])
    cx.report('R16.5', 'automaton::private::Sealed', 'impls', ok, 'Sealed is implemented for the three automata, references and the Arc<dyn AcAutomaton> wrapper only' if ok else 'Sealed impls: %s' % sealed)
    imps = sorted(i['self_ty'] for i in cx.facts.impls if i['trait_path'] == 'automaton::Automaton')
    ok = len(imps) == 5
    cx.report('R16.5', 'automaton::Automaton', 'impls', ok, 'five Automaton impls (3 automata + 2 forwarders)' if ok else 'Automaton impls: %s' % imps)


# ------------------------------------------------------------------------------------------------- R20.1 / R20.2 / R20.3 / R20.5
def r20_1(cx):
    from rules.trie import r20_1_trie
    r20_1_trie(cx)
    # assertion i == pattern_lens.len() keeps ids aligned with the length table
    n = cx.body('nfa::noncontiguous::NFA::add_match')
    pid_st = [v for bi, si, tt, v, s in n.field_stores() if tt[0] == 'f' and tt[2] == 'pid'] + \
             [t for bi, t0 in n.calls(r'Vec.*::push$') for t in [n.call_term(bi, t0)] if 'pid' in tstr(t)]
    ok = bool(pid_st) and all('pid' in tstr(v) for v in pid_st)
    cx.report('R20.1', n, 'stores-pid', ok, 'add_match stores the given pid' if ok else 'add_match does not store its pid argument')


GETTERS = {
    'patterns_len': lambda t: is_call(t, r'Vec.*::len$') and tstr(peel(t[2][0])) == 'self.pattern_lens',
    'min_pattern_len': lambda t: tstr(t) == 'self.min_pattern_len',
    'max_pattern_len': lambda t: tstr(t) == 'self.max_pattern_len',
    'match_kind': lambda t: tstr(t) == 'self.match_kind',
    'pattern_len': lambda t: is_call(t, r'SmallIndex::as_usize$') and is_call(peel(t[2][0]), r'Index::index$') and tstr(peel(peel(t[2][0])[2][0])) == 'self.pattern_lens' and is_var(peel(t[2][0])[2][1], 'pid'),
}


def r20_2(cx):
    n = 0
    for imp in AUTOS:
        for g, pred in GETTERS.items():
            b = cx.body('<%s as automaton::Automaton>::%s' % (imp, g))
            t = strip_convs(b.local_term(0, expand=True)) if g != 'pattern_len' else b.local_term(0, expand=True)
            ok = pred(t) or pred(strip_convs(t))
            n += 1
            cx.report('R20.2', b, 'getter', ok, '%s() returns its namesake field' % g if ok else '%s::%s returns %s' % (imp, g, tstr(t, 120)))
    cx.floor('R20.2', 'metadata getters', n, 15)
    # converters copy each field from the namesake getter of the noncontiguous NFA
    want = {
        'pattern_lens': lambda v: 'pattern_lens_raw(nnfa)' in tstr(v, 300).replace('nfa::noncontiguous::NFA::', ''),
        'match_kind': lambda v: is_call(v, r'Automaton::match_kind$') and is_var(peel(v[2][0]), 'nnfa'),
        'min_pattern_len': lambda v: is_call(v, r'Automaton::min_pattern_len$') and is_var(peel(v[2][0]), 'nnfa'),
        'max_pattern_len': lambda v: is_call(v, r'Automaton::max_pattern_len$') and is_var(peel(v[2][0]), 'nnfa'),
        'prefilter': lambda v: 'Automaton::prefilter(nnfa)' in tstr(v, 400).replace('automaton::', '').replace('Automaton::', 'Automaton::') or 'prefilter(nnfa)' in tstr(v, 400),
    }
    for path, adt in (('nfa::contiguous::Builder::build_from_noncontiguous', 'nfa::contiguous::NFA'), ('dfa::Builder::build_from_noncontiguous', 'dfa::DFA')):
        b = cx.body(path)
        agg = None
        for bi, si, pl, st in b.stores():
            r = st.get('r') if si != 'term' else None
            if r and r.get('k') == 'agg' and r.get('adt') == adt:
                agg = expand_vars(b, b.rvalue_term(r, 0, bi), keep=('nnfa', 'byte_classes', 'self'))
        if agg is None:
            cx.bad('R20.2', b, 'aggregate', '%s literal not found' % adt)
            continue
        for fld, pred in want.items():
            v = agg[3].get(fld)
            ok = v is not None and pred(v)
            cx.report('R20.2', b, 'copy:' + fld, ok, '%s is copied from the noncontiguous NFA\'s %s' % (fld, fld) if ok else '%s.%s is initialised from %s' % (adt, fld, tstr(v, 120) if v else None))
        # byte classes: nnfa.byte_classes() or singletons() under the builder's own flag; alphabet_len / stride2 derived from the same value
        bc = agg[3].get('byte_classes')
        bl = b.locals_named('byte_classes')
        okb = False
        if bl:
            defs = [tstr(expand_vars(b, t, keep=('nnfa', 'self')), 200) for bi, si, t in var_defs_terms(b, bl[0])]
            okb = len(defs) == 2 and any('byte_classes(nnfa)' in d.replace('nfa::noncontiguous::NFA::', '') for d in defs) and any('singletons' in d for d in defs)
            g = bool_gates(b, lambda x: tstr(x) == 'self.byte_classes')
            okb = okb and bool(g)
        cx.report('R04.6', b, 'byte-classes-source', okb, 'byte classes are nnfa.byte_classes() or singletons() under the builder\'s byte_classes flag' if okb else 'byte classes of %s do not come from the noncontiguous NFA / singletons' % adt)
        al = agg[3].get('alphabet_len')
        oka = al is not None and is_call(al, r'ByteClasses::alphabet_len$') and is_var(peel(al[2][0]), 'byte_classes') and is_var(peel(bc), 'byte_classes')
        cx.report('R04.6', b, 'alphabet-len', oka, 'alphabet_len is derived from the same ByteClasses value that is stored' if oka else 'alphabet_len / byte_classes are not derived from one value')
        if adt == 'dfa::DFA':
            s2 = agg[3].get('stride2')
            ok = s2 is not None and is_call(s2, r'ByteClasses::stride2$') and is_var(peel(s2[2][0]), 'byte_classes')
            cx.report('R04.6', b, 'stride2', ok, 'stride2 is derived from the same ByteClasses value' if ok else 'stride2 = %s' % (tstr(s2, 80) if s2 else None))
    # noncontiguous: getters return what build_trie / Compiler::new wrote
    c = cx.body("nfa::noncontiguous::Compiler::<'a>::new")
    agg = None
    for bi, si, pl, st in c.stores():
        r = st.get('r') if si != 'term' else None
        if r and r.get('k') == 'agg' and r.get('adt') == 'nfa::noncontiguous::NFA':
            agg = expand_vars(c, c.rvalue_term(r, 0, bi), keep=('builder',))
    ok = agg is not None and tstr(agg[3].get('match_kind')) == 'builder.match_kind'
    cx.report('R20.2', c, 'match_kind', ok, 'the NFA\'s match kind is the builder\'s' if ok else 'Compiler::new sets match_kind from %s' % (tstr(agg[3].get('match_kind')) if agg else None))
    okmm = agg is not None and 'MAX' in tstr(agg[3].get('min_pattern_len')) and agg[3].get('max_pattern_len') == ('c', 0)
    cx.report('R20.2', c, 'min-max-init', okmm, 'min_pattern_len starts at usize::MAX and max_pattern_len at 0' if okmm else 'min/max pattern length initial values deviate')
    # AhoCorasick forwards to namesakes
    for g in ('patterns_len', 'min_pattern_len', 'max_pattern_len', 'match_kind', 'memory_usage'):
        b = cx.body('ahocorasick::AhoCorasick::' + g)
        t = strip_convs(b.local_term(0, expand=True))
        ok = is_call(t, r'Automaton::%s$' % g) and tstr(peel(t[2][0])) == 'self.aut'
        cx.report('R20.2', b, 'forward', ok, 'AhoCorasick::%s forwards to self.aut.%s' % (g, g) if ok else 'AhoCorasick::%s returns %s' % (g, tstr(t, 100)))
    for g in ('kind', 'start_kind'):
        b = cx.body('ahocorasick::AhoCorasick::' + g)
        t = b.local_term(0, expand=True)
        ok = tstr(t) == 'self.' + g
        cx.report('R20.2', b, 'field', ok, 'AhoCorasick::%s returns the stored field' % g if ok else 'AhoCorasick::%s returns %s' % (g, tstr(t, 80)))


KIND_TYPE = {'NoncontiguousNFA': 'nfa::noncontiguous::NFA', 'ContiguousNFA': 'nfa::contiguous::NFA', 'DFA': 'dfa::DFA'}


def r20_3(cx):
    n = 0
    for fn in ('build', 'build_auto'):
        b = cx.body('ahocorasick::AhoCorasickBuilder::' + fn)
        for bi, si, pl, st in b.stores():
            r = st.get('r') if si != 'term' else None
            if not (r and r.get('k') == 'agg' and r.get('agg') == 'tuple'):
                continue
            t = b.rvalue_term(r, 0, bi)
            if len(t[3]) != 2 or not is_agg(t[3][1], r'AhoCorasickKind$'):
                continue
            n += 1
            variant = t[3][1][2]
            arc = t[3][0]
            ty = None
            if is_call(arc, r'alloc::sync::Arc::new$') and arc[3] is not None:
                ty = b.term(arc[3])['callee']['gargs'][0]
            ok = ty == KIND_TYPE.get(variant)
            cx.report('R20.3', b, 'pair:%s@%d' % (variant, n), ok, 'AhoCorasickKind::%s is paired with an Arc<%s>' % (variant, ty) if ok else 'AhoCorasickKind::%s is paired with an automaton of type %s' % (variant, ty), line_of(b, bi, si))
    cx.floor('R20.3', '(automaton, kind) construction sites', n, 6)
    b = cx.body('ahocorasick::AhoCorasickBuilder::build')
    # requested kind -> kind reported and automaton built, on the path summaries of build (helpers unfolded)
    from acverif.sym import summarize, canon, cstr
    names = [v['name'] for v in cx.facts.adts['ahocorasick::AhoCorasickKind']['variants']]
    BUILT = {'NoncontiguousNFA': r'^\(nfa::noncontiguous::Builder::build\(', 'ContiguousNFA': r'^\(nfa::contiguous::Builder::build_from_noncontiguous\(', 'DFA': r'^\(dfa::Builder::build_from_noncontiguous\('}
    rows = {}
    ok = True
    for r in summarize(cx.facts, b):
        if not (r.end == 'return' and is_agg(r.ret, r'Result$', 'Ok')):
            continue
        req = None
        for c, v in r.conds:
            if cstr(canon(c)) == 'discr((self.kind as Some).0)' and isinstance(v, int):
                req = names[v]
        if req is None:
            continue
        ac = r.ret[3]['0']
        kd = canon(ac[3]['kind']) if ac[0] == 'agg' and isinstance(ac[3], dict) else None
        au = canon(ac[3]['aut']) if ac[0] == 'agg' and isinstance(ac[3], dict) else None
        rows.setdefault(req, []).append(kd[2] if kd is not None and kd[0] == 'agg' else '?')
        inner = au[2][0] if au is not None and is_call(au, r'alloc::sync::Arc::new$') else None
        if not (kd is not None and is_agg(kd, r'AhoCorasickKind$', req) and inner is not None and re.match(BUILT[req], cstr(inner))):
            ok = False
    ok = ok and all(rows.get(k) for k in KIND_TYPE)
    cx.report('R20.3', b, 'requested-kind', ok, 'Some(kind) builds exactly that kind (an arm per variant, no catch-all)' if ok else 'an explicitly requested kind can yield another kind: %s' % (rows if g else None))
    g0 = discr_gates(b, lambda x: self_field(x, 'kind'))
    ok = False
    if g0:
        gb, x, arms, oth = g0[0]
        none_t = arms.get(0, oth)
        ok = any(bi in b.reach(none_t, cut_blocks=[gb]) for bi, t in b.calls(r'AhoCorasickBuilder::build_auto$'))
    cx.report('R20.3', b, 'auto', ok, 'kind = None selects build_auto' if ok else 'None does not go to build_auto')
    # one source NFA for every arm
    srcs = [b.call_term(bi, t) for bi, t in b.calls(r'(contiguous|dfa)::Builder::build_from_noncontiguous$|AhoCorasickBuilder::build_auto$')]
    nb = b.calls(r'noncontiguous::Builder::build$')
    ok = False
    if len(nb) == 1 and len(srcs) == 3:
        nd = b.call_term(*nb[0])
        ok = tstr(peel_all(expand_vars(b, nd[2][0]))) == 'self.nfa_noncontiguous' and peel_all(expand_vars(b, nd[2][1])) == param_at(b, 2)
        for c in srcs:
            u = unwrapped(b, c[2][1])
            ok = ok and is_call(u, r'noncontiguous::Builder::build$') and u[3] == nd[3]
    cx.report('R04.6', b, 'one-source', ok, 'every kind is built from the one noncontiguous NFA built from the patterns' if ok else 'the automaton kinds are not all derived from the same noncontiguous NFA')
    a = cx.body('ahocorasick::AhoCorasickBuilder::build_auto')
    srcs = [a.call_term(bi, t) for bi, t in a.calls(r'(contiguous|dfa)::Builder::build_from_noncontiguous$')]
    ok = len(srcs) == 2 and all(peel_all(expand_vars(a, c[2][1])) == param_at(a, 2) for c in srcs) and {tstr(peel_all(expand_vars(a, c[2][0]))) for c in srcs} == {'self.dfa', 'self.nfa_contiguous'}
    cx.report('R04.6', a, 'one-source', ok, 'build_auto derives DFA and contiguous NFA from the given noncontiguous NFA with the builder\'s own sub-builders' if ok else 'build_auto sources deviate')
    # stored fields
    for bi, si, pl, st in b.stores():
        r = st.get('r') if si != 'term' else None
        if r and r.get('k') == 'agg' and r.get('adt') == 'ahocorasick::AhoCorasick':
            t = expand_vars(b, b.rvalue_term(r, 0, bi), keep=('self',))
            ok = tstr(t[3]['start_kind']) == 'self.start_kind' and tstr(t[3]['kind']).endswith('.1') and tstr(t[3]['aut']).endswith('.0') and tstr(t[3]['kind'])[:-2] == tstr(t[3]['aut'])[:-2]
            cx.report('R20.3', b, 'searcher-fields', ok, 'AhoCorasick { aut, kind } come from the same pair and start_kind is the builder\'s' if ok else 'AhoCorasick literal = %s' % tstr(t, 200))


META_WRITERS = {
    # user-observable metadata of the automata: which functions may assign the field after construction (confirmed on the
    # reference tree). A literal of the type may only appear in its constructor and in the derived Clone.
    ('nfa::noncontiguous::NFA', 'match_kind'): [],
    ('nfa::noncontiguous::NFA', 'min_pattern_len'): ["nfa::noncontiguous::Compiler::<'a>::build_trie"],
    ('nfa::noncontiguous::NFA', 'max_pattern_len'): ["nfa::noncontiguous::Compiler::<'a>::build_trie"],
    ('nfa::noncontiguous::NFA', 'prefilter'): ["nfa::noncontiguous::Compiler::<'a>::compile"],
    ('nfa::noncontiguous::NFA', 'byte_classes'): ["nfa::noncontiguous::Compiler::<'a>::compile"],
    ('nfa::contiguous::NFA', 'match_kind'): [], ('nfa::contiguous::NFA', 'min_pattern_len'): [], ('nfa::contiguous::NFA', 'max_pattern_len'): [],
    ('nfa::contiguous::NFA', 'prefilter'): [], ('nfa::contiguous::NFA', 'pattern_lens'): [], ('nfa::contiguous::NFA', 'byte_classes'): [],
    ('dfa::DFA', 'match_kind'): [], ('dfa::DFA', 'min_pattern_len'): [], ('dfa::DFA', 'max_pattern_len'): [], ('dfa::DFA', 'prefilter'): [],
    ('dfa::DFA', 'pattern_lens'): [], ('dfa::DFA', 'byte_classes'): [],
    ('ahocorasick::AhoCorasick', 'kind'): [], ('ahocorasick::AhoCorasick', 'start_kind'): [], ('ahocorasick::AhoCorasick', 'aut'): [],
}
META_CTORS = {
    'nfa::noncontiguous::NFA': "nfa::noncontiguous::Compiler::<'a>::new",
    'nfa::contiguous::NFA': 'nfa::contiguous::Builder::build_from_noncontiguous',
    'dfa::DFA': 'dfa::Builder::build_from_noncontiguous',
    'ahocorasick::AhoCorasick': 'ahocorasick::AhoCorasickBuilder::build',
}


def r20_6(cx):
    """who may write the metadata a user can observe (match kind, pattern lengths, prefilter, kind, start kind): only the
    designated builder steps; a helper that is not part of the vocabulary counts for its vocabulary callers"""
    from acverif.inline import vocab
    from acverif.rl import CallGraph
    f = cx.facts
    cg = CallGraph(f)
    V = vocab()
    callers = {}
    for p in f.bodies:
        for blk, tg in cg.callees(p):
            callers.setdefault(tg, set()).add(p)

    def owners(p, seen=None):
        # the vocabulary functions on whose behalf p runs
        seen = seen or set()
        if p in V or p in seen:
            return {p}
        seen.add(p)
        out = set()
        for c in callers.get(p, ()):
            out |= owners(c, seen)
        return out or {p}
    got = {}
    lits = {}
    for p, b in f.bodies.items():
        for bi, si, pl, st in b.stores():
            prs = [x for x in pl['pr'] if isinstance(x, dict) and 'f' in x]
            if prs and (prs[-1].get('of'), prs[-1]['f']) in META_WRITERS:
                got.setdefault((prs[-1]['of'], prs[-1]['f']), set()).update(owners(p))
            r = st.get('r') if si != 'term' else None
            if r and r.get('k') == 'agg' and r.get('adt') in META_CTORS:
                lits.setdefault(r['adt'], set()).update(owners(p))
    for key, allowed in sorted(META_WRITERS.items()):
        extra = sorted(got.get(key, set()) - set(allowed))
        cx.report('R20.6', '%s.%s' % key, 'writers', not extra, 'assigned only by %s' % (allowed or 'its constructor') if not extra else
                  'also assigned in %s (metadata reported to the user can drift from what the automaton was built for)' % extra)
    for adt, ctor in sorted(META_CTORS.items()):
        ls = {x for x in lits.get(adt, set()) if not re.search(r' as core::clone::Clone>::clone$', x)}
        ok = ls == {ctor}
        cx.report('R20.6', adt, 'constructed-in', ok, 'built only in %s (and its derived Clone)' % ctor if ok else 'literals of %s in %s' % (adt, sorted(ls)))
    # the noncontiguous NFA's match kind is the builder's
    b = cx.body(META_CTORS['nfa::noncontiguous::NFA'])
    okm = False
    for bi, si, pl, st in b.stores():
        r = st.get('r') if si != 'term' else None
        if r and r.get('k') == 'agg' and r.get('adt') == 'nfa::noncontiguous::NFA':
            t = expand_vars(b, b.rvalue_term(r, 0, bi))
            okm = tstr(strip_convs(t[3].get('match_kind'))) == 'builder.match_kind'
    cx.report('R20.6', b, 'match-kind-source', okm, 'the NFA\'s match kind is the builder\'s' if okm else 'the NFA\'s match kind is not builder.match_kind')


SETTERS = {
    # setter -> (inner builders that must receive the same option through the same-named setter, fields of self that must store it)
    'ahocorasick::AhoCorasickBuilder::ascii_case_insensitive': (['self.nfa_noncontiguous', 'self.nfa_contiguous', 'self.dfa'], []),
    'ahocorasick::AhoCorasickBuilder::byte_classes': (['self.nfa_contiguous', 'self.dfa'], []),
    'ahocorasick::AhoCorasickBuilder::dense_depth': (['self.nfa_noncontiguous', 'self.nfa_contiguous'], []),
    'ahocorasick::AhoCorasickBuilder::kind': ([], ['self.kind']),
    'ahocorasick::AhoCorasickBuilder::match_kind': (['self.nfa_noncontiguous', 'self.nfa_contiguous', 'self.dfa'], []),
    'ahocorasick::AhoCorasickBuilder::prefilter': (['self.nfa_noncontiguous', 'self.nfa_contiguous', 'self.dfa'], []),
    'ahocorasick::AhoCorasickBuilder::start_kind': (['self.dfa'], ['self.start_kind']),
    'dfa::Builder::ascii_case_insensitive': (['self.noncontiguous'], []),
    'dfa::Builder::byte_classes': ([], ['self.byte_classes']),
    'dfa::Builder::match_kind': (['self.noncontiguous'], []),
    'dfa::Builder::prefilter': (['self.noncontiguous'], []),
    'dfa::Builder::start_kind': ([], ['self.start_kind']),
    'nfa::contiguous::Builder::ascii_case_insensitive': (['self.noncontiguous'], []),
    'nfa::contiguous::Builder::byte_classes': ([], ['self.byte_classes']),
    'nfa::contiguous::Builder::dense_depth': ([], ['self.dense_depth']),
    'nfa::contiguous::Builder::match_kind': (['self.noncontiguous'], []),
    'nfa::contiguous::Builder::prefilter': (['self.noncontiguous'], []),
    'nfa::noncontiguous::Builder::ascii_case_insensitive': ([], ['self.ascii_case_insensitive']),
    'nfa::noncontiguous::Builder::dense_depth': ([], ['self.dense_depth']),
    'nfa::noncontiguous::Builder::match_kind': ([], ['self.match_kind']),
    'nfa::noncontiguous::Builder::prefilter': ([], ['self.prefilter']),
}


def r20_5(cx):
    """Builder option plumbing, decided on the setters' path summaries: an option set on a builder reaches every inner
    builder through the setter OF THE SAME NAME and is stored in the field of the same name, unconditionally and unchanged."""
    from acverif.sym import summarize, canon, cstr
    from acverif.rl import param_at
    n = 0
    for path, (inner, fields) in sorted(SETTERS.items()):
        b = cx.body(path)
        n += 1
        opt = path.rsplit('::', 1)[1]
        rows = [r for r in summarize(cx.facts, b) if r.end == 'return']
        P = cstr(param_at(b, 2))
        why = None
        if len(rows) != 1 or rows[0].conds:
            why = 'the option is forwarded conditionally (%d paths)' % len(rows)
        else:
            r = rows[0]
            got_inner, got_fields = [], []
            for c in r.calls(r'Builder::\w+$'):
                cc = canon(c)
                m = short(cc[1]).rsplit('::', 1)[1]
                if len(cc[2]) != 2:
                    continue
                if m != opt:
                    why = why or 'the setter %s calls %s on %s' % (opt, m, cstr(cc[2][0]))
                elif cstr(cc[2][1]) != P:
                    why = why or 'the value forwarded to %s is %s, not the argument' % (cstr(cc[2][0]), cstr(cc[2][1]))
                else:
                    got_inner.append(cstr(cc[2][0]))
            for pl, v in r.stores():
                if cstr(canon(v)) == P:
                    got_fields.append(cstr(canon(pl)))
                elif cstr(canon(pl)) in fields:
                    why = why or '%s is set to %s, not the argument' % (cstr(canon(pl)), cstr(canon(v)))
            if sorted(got_inner) != sorted(inner) or sorted(got_fields) != sorted(fields):
                why = why or 'option %s reaches %s (expected %s)' % (opt, sorted(got_inner + got_fields), sorted(inner + fields))
        cx.report('R20.5', b, 'plumbing', why is None, '%s reaches %s unconditionally and unchanged' % (opt, ', '.join(inner + fields)) if why is None else why)
    cx.floor('R20.5', 'builder option setters', n, 21)


def r11_3(cx):
    """one case-folding flag reaches the trie builder and every prefilter sub-builder"""
    c = cx.body("nfa::noncontiguous::Compiler::<'a>::new")
    pf = [c.call_term(bi, t) for bi, t in c.calls(r'prefilter::Builder::ascii_case_insensitive$')]
    ok = len(pf) == 1 and tstr(pf[0][2][1]) == 'builder.ascii_case_insensitive' and is_call(pf[0][2][0], r'prefilter::Builder::new$') and tstr(pf[0][2][0][2][0]) == 'builder.match_kind'
    cx.report('R11.3', c, 'one-flag', ok, 'the prefilter builder gets the same match kind and case flag as the trie builder' if ok else 'prefilter builder options are %s' % [tstr(x, 160) for x in pf])
    p = cx.body('util::prefilter::Builder::ascii_case_insensitive')
    st = {tstr(tt): tstr(v, 120) for bi, si, tt, v, s in p.field_stores()}
    ok = st.get('self.ascii_case_insensitive') == 'yes' and 'StartBytesBuilder::ascii_case_insensitive' in st.get('self.start_bytes', '') and 'yes' in st.get('self.start_bytes', '') and 'RareBytesBuilder::ascii_case_insensitive' in st.get('self.rare_bytes', '') and 'yes' in st.get('self.rare_bytes', '')
    cx.report('R11.3', p, 'forwards', ok, 'the case flag is forwarded to the start-byte and rare-byte builders' if ok else 'prefilter::Builder::ascii_case_insensitive stores %s' % st)

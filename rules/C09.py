"""C09 rule set (see DESIGN.md section 5)."""
from rules.search import r09_1, r09_2, r09_3, r09_4, r01_6, r03_5
from rules.prefilter import r10_1
from rules.builder import r09_5, r09_6, r01_1, r03_2

LEVEL = 'other'
from rules.agree import r16_2
from rules.utilfn import r10_7
from rules.C13 import r13_5
from rules.agree import r20_5
from rules.layout import r04_4
RULES = [('R10.1', r10_1), ('R09.1', r09_1), ('R09.2', r09_2), ('R09.3', r09_3), ('R09.4', r09_4), ('R09.5', r09_5), ('R09.6', r09_6), ('R03.5', r03_5), ('R03.2', r03_2), ('R01.6', r01_6), ('R16.2', r16_2), ('R10.7', r10_7), ('R13.5', r13_5), ('R20.5', r20_5), ('R04.4', r04_4)]
EXPLANATION = """R09.1 in both search drivers a match obtained for a state that came from next_state or from a saved OverlappingState reaches a
publication (mat = Some(m) / state.mat = Some(m)) only through the unanchored edge or through m.start() <= input.start(); start-state
matches are published at the search start; R09.2 in both NFA next_state loops the failure link is followed only on the unanchored
edge and the anchored edge returns DEAD; R09.3 a prefilter is handed to the drivers only on the unanchored edge; R09.4 start_state and
next_state receive the request's anchoring mode and the iterator searches with its own input; R09.5 the anchored start state copies the
unanchored start's transitions and matches and fails to DEAD; R09.6 the DFA's anchored automaton never follows failure links, the
anchored copy's rows hold trie targets only and are remapped with the anchored table; R03.5 a list entry rejected by the filter is
skipped and the walk continues (no early empty return); R03.2 both DFA copies of a match state receive its complete match list;
R01.6 the iterator restarts at m.end()."""
NOT_DECIDED = """Equality with the unanchored definition restricted to the start offset for arbitrary tries (correctness of the trie and of the match lists)."""
CLAIM = """Static decision that every publication site of both search drivers is behind the anchored-start filter (graph cut on the
MIR CFG), that anchored mode never follows failure links in either NFA or in the DFA construction, that no prefilter runs in anchored
mode, and that the anchoring mode is plumbed unchanged. The stepwise anchored overlapping search is not exercised by the pinned suite;
this rule set reported defect D3 (repaired in /repo commit bc87029)."""
NOTE = """Trusted: rustc MIR construction, the fact extractor. Anchors are def-paths; the drivers' cursor, state id and input are resolved by role (type, data flow)."""
TECHNIQUE = "static analysis: graph-cut / dominance queries and reaching-definition analysis over rustc MIR of the search drivers and automaton builders"

"""DFA construction from the noncontiguous NFA (dfa::Builder::finish_build_*), decided on path summaries: which id every
special field receives, and what a transition closure stores for a FAIL / non-FAIL transition."""
import re

from acverif.mir import short, tstr, subterms
from acverif.rl import is_call, is_agg, is_named_const, param_at, Unsupported, EvalPanic
from acverif.sym import Sym, summarize, canon, cstr, loop_rows, innermost_loop, teval, by_cstr, row_consistent

FIELDS = ('max_special_id', 'max_match_id', 'start_unanchored_id', 'start_anchored_id')
ONE = 'dfa::Builder::finish_build_one_start'
BOTH = 'dfa::Builder::finish_build_both_starts'


def _atoms(extra=None):
    base = {'nnfa.special.%s' % f: 10 + i for i, f in enumerate(FIELDS)}
    base['dfa.stride2'] = 3
    if extra:
        base.update(extra)
    return by_cstr(base)


def one_start_special(cx):
    """{(anchored?, field): evaluated id or 'DEAD'} for finish_build_one_start; raises on unevaluable values"""
    b = cx.body(ONE)
    rows = [r for r in summarize(cx.facts, b) if r.end == 'return']
    out = {}
    why = None
    for r in rows:
        a = r.cond(lambda c: is_call(canon(c), r'Anchored::is_anchored$') and cstr(canon(c)[2][0]) == cstr(param_at(b, 2)))
        if a is None:
            # `match anchored { Anchored::No => .., _ => .. }`
            dv = r.cond(lambda c: c[0] == 'discr' and cstr(c[1]) == cstr(param_at(b, 2)))
            names = [v['name'] for v in cx.facts.adts['util::search::Anchored']['variants']]
            if isinstance(dv, int) and dv < len(names):
                a = names[dv] != 'No'
            elif isinstance(dv, tuple):
                rest = [n for i, n in enumerate(names) if i not in dv[1]]
                if rest and all(n != 'No' for n in rest):
                    a = True
                elif rest == ['No']:
                    a = False
        if a is None:
            why = 'the special ids do not depend on the requested anchor mode'
            continue
        st = {}
        for p, v in r.stores():
            st[cstr(p)] = v
        for i, f in enumerate(FIELDS):
            v = st.get('dfa.special.' + f)
            if v is None:
                out[(a, f)] = None
                continue
            try:
                if is_named_const(canon(v), r'DFA::DEAD$'):
                    out[(a, f)] = 'DEAD'
                else:
                    x = teval(v, _atoms())
                    out[(a, f)] = ('shift', [j for j in range(4) if (10 + j) << 3 == x])
            except (Unsupported, EvalPanic) as e:
                out[(a, f)] = 'unevaluable: %s' % e
    return b, out, why


def r13_5_one_start(cx):
    b, got, why = one_start_special(cx)
    for fld, idx, dead_when_anchored in (('start_unanchored_id', 2, True), ('start_anchored_id', 3, False)):
        bad = why
        for a in (True, False):
            v = got.get((a, fld))
            want = 'DEAD' if a == dead_when_anchored else ('shift', [idx])
            if v != want and bad is None:
                bad = 'with anchored=%s special.%s is %s (expected %s)' % (a, fld, v, 'DFA::DEAD' if want == 'DEAD' else 'the NFA\'s %s shifted by stride2' % fld)
        cx.report('R13.5', b, 'store:' + fld, bad is None, 'one-start DFA: special.%s is DEAD exactly when that start kind is not built, else the NFA\'s own %s << stride2' % (fld, fld) if bad is None else bad)


def r16_2_one_start(cx):
    b, got, why = one_start_special(cx)
    for i, f in enumerate(FIELDS):
        bad = why
        for a in (True, False):
            v = got.get((a, f))
            if bad is None and not (v == ('shift', [i]) or (v == 'DEAD' and f.startswith('start_'))):
                bad = 'with anchored=%s special.%s is %s' % (a, f, v)
        cx.report('R16.2', b, 'special:' + f, bad is None, 'special.%s = old.%s << stride2 (or DEAD for the unsupported start): evaluated on the path summary' % (f, f) if bad is None else 'DFA (one start) ' + bad)


def transition_closures(cx, path):
    """[(closure agg term at the sparse_iter call, rows of the closure body with captures bound, iteration row)]"""
    b = cx.body(path)
    out = []
    seen = set()
    for bi, t in b.calls(r'dfa::sparse_iter$'):
        h = innermost_loop(b, bi)
        if h is None:
            continue
        for r in loop_rows(cx.facts, b, h):
            for c in r.calls(r'dfa::sparse_iter$'):
                if c[3] != bi or bi in seen:
                    continue
                f = c[2][-1]
                if not (f[0] == 'agg' and f[1] == 'closure' and f[2] in cx.facts.bodies):
                    continue
                seen.add(bi)
                cb = cx.facts.bodies[f[2]]
                rows = Sym(cx.facts, cb, env={1: f}).rows()
                out.append((c, cb, rows, r))
    return b, out


def _trans_stores(cb, rows_row):
    """[(row index term, value term)] for stores into dfa.trans[...]"""
    out = []
    for p, v in rows_row.stores():
        pc = canon(p)
        if is_call(pc, r'IndexMut::index_mut$') and cstr(pc[2][0]).endswith('dfa.trans'):
            out.append((pc[2][1], v))
        elif pc[0] == 'idx' and cstr(pc[1]).endswith('dfa.trans'):
            out.append((pc[2], v))
    return out


def r_one_start_closure(cx, ids=('R09.6', 'R04.5', 'R16.2')):
    """R09.6 / R04.5 / R16.2: the transition closure of the one-start DFA"""
    class _F:
        def __init__(self, cx):
            self.cx = cx
            self.facts = cx.facts

        def body(self, p):
            return self.cx.body(p)

        def report(self, rid, *a, **k):
            if rid in ids:
                self.cx.report(rid, *a, **k)

        def bad(self, rid, *a, **k):
            if rid in ids:
                self.cx.bad(rid, *a, **k)
    cx = _F(cx)
    b, cl = transition_closures(cx, ONE)
    if len(cl) != 1:
        cx.bad('R09.6', b, 'one-start-anchored', '%d sparse_iter transition closures in finish_build_one_start (expected 1)' % len(cl))
        return
    call, cb, rows, itrow = cl[0]
    BYTE, CLASS, NEXT = (cstr(param_at(cb, i)) for i in (2, 3, 4))
    ANCH = cstr(param_at(b, 2))
    why_a = why_f = None
    n = 0
    for isfail in (0, 1):
        for anch in (0, 1):
            for faildead in (0, 1):
                def at(t, isfail=isfail, anch=anch, faildead=faildead):
                    c = canon(t)
                    if is_call(c, r'Anchored::is_anchored$') and cstr(c[2][0]) == ANCH:
                        return anch
                    if c[0] == 'op' and c[1] in ('Eq', 'Ne') or is_call(c, r'PartialEq::(eq|ne)$'):
                        a, d = (c[2], c[3]) if c[0] == 'op' else (c[2][0], c[2][1])
                        neg = (c[1] == 'Ne') if c[0] == 'op' else short(c[1]).endswith('ne')
                        ks = {cstr(a), cstr(d)}
                        if ks == {NEXT, 'nfa::noncontiguous::NFA::FAIL'}:
                            return int(bool(isfail) != neg)
                        if 'nfa::noncontiguous::NFA::DEAD' in ks and any(re.search(r'\.fail$', k) for k in ks):
                            return int(bool(faildead) != neg)
                    return None
                sel = [r for r in rows if r.end == 'return' and row_consistent(r, at)]
                n += 1
                if not sel:
                    why_f = 'no path for FAIL=%d anchored=%d fail-is-DEAD=%d' % (isfail, anch, faildead)
                    continue
                for r in sel:
                    ts = _trans_stores(cb, r)
                    if len(ts) != 1:
                        why_f = why_f or '%d stores into dfa.trans on one path' % len(ts)
                        continue
                    idx, v = ts[0]
                    vc = canon(v)
                    inner = vc[2][0] if is_call(vc, r'StateID::new_unchecked$') and vc[2][0][0] == 'op' and vc[2][0][1] == 'Shl' else None
                    src = inner[2] if inner is not None else None
                    while src is not None and is_call(src, r'StateID::as_usize$'):
                        src = src[2][0]
                    if src is None or cstr(inner[3]) not in ('dfa.stride2', 'old(dfa.stride2)'):
                        why_f = why_f or 'the stored target is not an NFA id shifted by the DFA\'s stride2: %s' % tstr(vc, 120)
                        continue
                    s = cstr(src)
                    follows = is_call(src, r'next_state$')
                    if not isfail:
                        if s != NEXT:
                            why_f = why_f or 'a real trie transition is replaced by %s' % tstr(src, 100)
                    elif anch:
                        if follows or not is_named_const(src, r'NFA::DEAD$'):
                            why_a = why_a or 'in an anchored DFA a FAIL transition becomes %s (expected DEAD, failure links never followed)' % tstr(src, 100)
                    elif faildead:
                        if not is_named_const(src, r'NFA::DEAD$'):
                            why_f = why_f or 'a FAIL transition of a state whose failure link is DEAD becomes %s' % tstr(src, 100)
                    else:
                        good = follows and is_agg(src[2][1], r'Anchored$', 'No') and re.search(r'\.fail$', cstr(src[2][2])) and cstr(src[2][3]) == BYTE
                        if not good:
                            why_f = why_f or 'a FAIL transition is resolved as %s (expected nnfa.next_state(Anchored::No, state.fail(), byte))' % tstr(src, 140)
                    # the row written is newsid + class of the state being converted
                    ic = canon(idx)
                    if not (ic[0] == 'op' and ic[1] == 'Add' and CLASS in (cstr(ic[2]), cstr(ic[3]))):
                        why_f = why_f or 'the transition is stored at %s (expected newsid + class)' % tstr(ic, 100)
    cx.report('R09.6', cb, 'one-start-anchored', why_a is None and why_f is None, 'in an anchored DFA a FAIL transition becomes DEAD and failure links are never followed' if why_a is None and why_f is None else (why_a or why_f))
    cx.report('R04.5', cb, 'failure-closure', why_f is None, 'a missing transition is resolved through nnfa.next_state(Anchored::No, state.fail(), byte) unless state.fail() is DEAD (%d input classes tabulated)' % n if why_f is None else why_f)
    # newsid of the row = old2new(oldsid) of the state whose transitions are iterated
    ok = False
    sid_arg = cstr(call[2][1])
    for r in rows:
        for idx, v in _trans_stores(cb, r):
            parts = [cstr(x) for x in (canon(idx)[2], canon(idx)[3])] if canon(idx)[0] == 'op' else []
            ok = ok or any(sid_arg in p and 'Shl(' in p and 'dfa.stride2' in p for p in parts)
    cx.report('R16.2', cb, 'old2new', ok, 'the row written for NFA state s starts at s << stride2 (same map as for the special ids)' if ok else 'the DFA row of a state is not at oldsid << stride2')

"""DFA construction from the noncontiguous NFA (dfa::Builder::finish_build_*), decided on path summaries: which id every
special field receives, and what a transition closure stores for a FAIL / non-FAIL transition."""
import re

from acverif.mir import short, tstr, subterms
from acverif.rl import is_call, is_agg, is_named_const, param_at, param_of_type, Unsupported, EvalPanic
from acverif.sym import Sym, summarize, canon, cstr, loop_rows, innermost_loop, teval, by_cstr, row_consistent

FIELDS = ('max_special_id', 'max_match_id', 'start_unanchored_id', 'start_anchored_id')
ONE = 'dfa::Builder::finish_build_one_start'
BOTH = 'dfa::Builder::finish_build_both_starts'


def _atoms(extra=None):
    base = {'nnfa.special.%s' % f: 10 + i for i, f in enumerate(FIELDS)}
    base['dfa.stride2'] = 3
    if extra:
        base.update(extra)
    return by_cstr(base)


def one_start_special(cx):
    """{(anchored?, field): evaluated id or 'DEAD'} for finish_build_one_start; raises on unevaluable values"""
    b = cx.body(ONE)
    rows = [r for r in summarize(cx.facts, b) if r.end == 'return']
    out = {}
    why = None
    for r in rows:
        a = r.cond(lambda c: is_call(canon(c), r'Anchored::is_anchored$') and cstr(canon(c)[2][0]) == cstr(param_at(b, 2)))
        if a is None:
            # `match anchored { Anchored::No => .., _ => .. }`
            dv = r.cond(lambda c: c[0] == 'discr' and cstr(c[1]) == cstr(param_at(b, 2)))
            names = [v['name'] for v in cx.facts.adts['util::search::Anchored']['variants']]
            if isinstance(dv, int) and dv < len(names):
                a = names[dv] != 'No'
            elif isinstance(dv, tuple):
                rest = [n for i, n in enumerate(names) if i not in dv[1]]
                if rest and all(n != 'No' for n in rest):
                    a = True
                elif rest == ['No']:
                    a = False
        if a is None:
            why = 'the special ids do not depend on the requested anchor mode'
            continue
        st = {}
        for p, v in r.stores():
            st[cstr(p)] = v
        for i, f in enumerate(FIELDS):
            v = st.get('dfa.special.' + f)
            if v is None:
                out[(a, f)] = None
                continue
            try:
                if is_named_const(canon(v), r'DFA::DEAD$'):
                    out[(a, f)] = 'DEAD'
                else:
                    x = teval(v, _atoms())
                    out[(a, f)] = ('shift', [j for j in range(4) if (10 + j) << 3 == x])
            except (Unsupported, EvalPanic) as e:
                out[(a, f)] = 'unevaluable: %s' % e
    return b, out, why


def r13_5_one_start(cx):
    b, got, why = one_start_special(cx)
    for fld, idx, dead_when_anchored in (('start_unanchored_id', 2, True), ('start_anchored_id', 3, False)):
        bad = why
        for a in (True, False):
            v = got.get((a, fld))
            want = 'DEAD' if a == dead_when_anchored else ('shift', [idx])
            if v != want and bad is None:
                bad = 'with anchored=%s special.%s is %s (expected %s)' % (a, fld, v, 'DFA::DEAD' if want == 'DEAD' else 'the NFA\'s %s shifted by stride2' % fld)
        cx.report('R13.5', b, 'store:' + fld, bad is None, 'one-start DFA: special.%s is DEAD exactly when that start kind is not built, else the NFA\'s own %s << stride2' % (fld, fld) if bad is None else bad)


def r16_2_one_start(cx):
    b, got, why = one_start_special(cx)
    for i, f in enumerate(FIELDS):
        bad = why
        for a in (True, False):
            v = got.get((a, f))
            if bad is None and not (v == ('shift', [i]) or (v == 'DEAD' and f.startswith('start_'))):
                bad = 'with anchored=%s special.%s is %s' % (a, f, v)
        cx.report('R16.2', b, 'special:' + f, bad is None, 'special.%s = old.%s << stride2 (or DEAD for the unsupported start): evaluated on the path summary' % (f, f) if bad is None else 'DFA (one start) ' + bad)


def transition_closures(cx, path):
    """[(closure agg term at the sparse_iter call, rows of the closure body with captures bound, iteration row)]"""
    b = cx.body(path)
    out = []
    seen = set()
    for bi, t in b.calls(r'dfa::sparse_iter$'):
        h = innermost_loop(b, bi)
        if h is None:
            continue
        for r in loop_rows(cx.facts, b, h):
            for c in r.calls(r'dfa::sparse_iter$'):
                if c[3] != bi or bi in seen:
                    continue
                f = c[2][-1]
                if not (f[0] == 'agg' and f[1] == 'closure' and f[2] in cx.facts.bodies):
                    continue
                seen.add(bi)
                cb = cx.facts.bodies[f[2]]
                # helpers that did not exist on the reference tree and are called from the closure are part of it
                from acverif.inline import inlined_body
                cb = inlined_body(cx.facts, cb)
                rows = Sym(cx.facts, cb, env={1: f}).rows()
                out.append((c, cb, rows, r))
    return b, out


def _trans_stores(cb, rows_row):
    """[(row index term, value term)] for stores into dfa.trans[...]"""
    out = []
    for p, v in rows_row.stores():
        pc = canon(p)
        if is_call(pc, r'IndexMut::index_mut$') and cstr(pc[2][0]).endswith('dfa.trans'):
            out.append((pc[2][1], v))
        elif pc[0] == 'idx' and cstr(pc[1]).endswith('dfa.trans'):
            out.append((pc[2], v))
    return out


def r_one_start_closure(cx, ids=('R09.6', 'R04.5', 'R16.2')):
    """R09.6 / R04.5 / R16.2: the transition closure of the one-start DFA"""
    class _F:
        def __init__(self, cx):
            self.cx = cx
            self.facts = cx.facts

        def body(self, p):
            return self.cx.body(p)

        def report(self, rid, *a, **k):
            if rid in ids:
                self.cx.report(rid, *a, **k)

        def bad(self, rid, *a, **k):
            if rid in ids:
                self.cx.bad(rid, *a, **k)
    cx = _F(cx)
    b, cl = transition_closures(cx, ONE)
    if len(cl) != 1:
        cx.bad('R09.6', b, 'one-start-anchored', '%d sparse_iter transition closures in finish_build_one_start (expected 1)' % len(cl))
        return
    call, cb, rows, itrow = cl[0]
    BYTE, CLASS, NEXT = (cstr(param_at(cb, i)) for i in (2, 3, 4))
    ANCH = cstr(param_at(b, 2))
    why_a = why_f = None
    n = 0
    for isfail in (0, 1):
        for anch in (0, 1):
            for faildead in (0, 1):
                def at(t, isfail=isfail, anch=anch, faildead=faildead):
                    c = canon(t)
                    if is_call(c, r'Anchored::is_anchored$') and cstr(c[2][0]) == ANCH:
                        return anch
                    if c[0] == 'op' and c[1] in ('Eq', 'Ne') or is_call(c, r'PartialEq::(eq|ne)$'):
                        a, d = (c[2], c[3]) if c[0] == 'op' else (c[2][0], c[2][1])
                        neg = (c[1] == 'Ne') if c[0] == 'op' else short(c[1]).endswith('ne')
                        ks = id_spellings(cx, a, d)
                        if NEXT in ks and 'nfa::noncontiguous::NFA::FAIL' in ks:
                            return int(bool(isfail) != neg)
                        if 'nfa::noncontiguous::NFA::DEAD' in ks and any(re.search(r'\.fail$', k) for k in ks):
                            return int(bool(faildead) != neg)
                    return None
                sel = [r for r in rows if r.end == 'return' and row_consistent(r, at)]
                n += 1
                if not sel:
                    why_f = 'no path for FAIL=%d anchored=%d fail-is-DEAD=%d' % (isfail, anch, faildead)
                    continue
                for r in sel:
                    ts = _trans_stores(cb, r)
                    if len(ts) != 1:
                        why_f = why_f or '%d stores into dfa.trans on one path' % len(ts)
                        continue
                    idx, v = ts[0]
                    vc = canon(v)
                    inner = vc[2][0] if is_call(vc, r'StateID::new_unchecked$') and vc[2][0][0] == 'op' and vc[2][0][1] == 'Shl' else None
                    src = inner[2] if inner is not None else None
                    while src is not None and is_call(src, r'StateID::as_usize$'):
                        src = src[2][0]
                    if src is None or cstr(inner[3]) not in ('dfa.stride2', 'old(dfa.stride2)'):
                        why_f = why_f or 'the stored target is not an NFA id shifted by the DFA\'s stride2: %s' % tstr(vc, 120)
                        continue
                    s = cstr(src)
                    follows = is_call(src, r'next_state$')
                    if not isfail:
                        if s != NEXT:
                            why_f = why_f or 'a real trie transition is replaced by %s' % tstr(src, 100)
                    elif anch:
                        if follows or not is_named_const(src, r'NFA::DEAD$'):
                            why_a = why_a or 'in an anchored DFA a FAIL transition becomes %s (expected DEAD, failure links never followed)' % tstr(src, 100)
                    elif faildead:
                        if not is_named_const(src, r'NFA::DEAD$'):
                            why_f = why_f or 'a FAIL transition of a state whose failure link is DEAD becomes %s' % tstr(src, 100)
                    else:
                        good = follows and is_agg(src[2][1], r'Anchored$', 'No') and re.search(r'\.fail$', cstr(src[2][2])) and cstr(src[2][3]) == BYTE
                        if not good:
                            why_f = why_f or 'a FAIL transition is resolved as %s (expected nnfa.next_state(Anchored::No, state.fail(), byte))' % tstr(src, 140)
                    # the row written is newsid + class of the state being converted
                    ic = canon(idx)
                    if not (ic[0] == 'op' and ic[1] == 'Add' and CLASS in (cstr(ic[2]), cstr(ic[3]))):
                        why_f = why_f or 'the transition is stored at %s (expected newsid + class)' % tstr(ic, 100)
    cx.report('R09.6', cb, 'one-start-anchored', why_a is None and why_f is None, 'in an anchored DFA a FAIL transition becomes DEAD and failure links are never followed' if why_a is None and why_f is None else (why_a or why_f))
    cx.report('R04.5', cb, 'failure-closure', why_f is None, 'a missing transition is resolved through nnfa.next_state(Anchored::No, state.fail(), byte) unless state.fail() is DEAD (%d input classes tabulated)' % n if why_f is None else why_f)
    # newsid of the row = old2new(oldsid) of the state whose transitions are iterated
    ok = False
    sid_arg = cstr(call[2][1])
    for r in rows:
        for idx, v in _trans_stores(cb, r):
            parts = [cstr(x) for x in (canon(idx)[2], canon(idx)[3])] if canon(idx)[0] == 'op' else []
            ok = ok or any(sid_arg in p and 'Shl(' in p and 'dfa.stride2' in p for p in parts)
    cx.report('R16.2', cb, 'old2new', ok, 'the row written for NFA state s starts at s << stride2 (same map as for the special ids)' if ok else 'the DFA row of a state is not at oldsid << stride2')


def id_spellings(cx, a, d):
    """The spellings of the two sides of an (in)equality between state ids.  `match id { NFA::FAIL => .. }` compares the raw
    value with a literal: the literal stands for every named id constant of that value and the raw value for the id itself."""
    out = set()
    sides = [a, d]
    lit = [x for x in sides if isinstance(x, tuple) and x[0] == 'c' and isinstance(x[1], int) and not isinstance(x[1], bool)]
    if len(lit) == 1:
        other = [x for x in sides if x is not lit[0]][0]
        raw = other
        n = 0
        while isinstance(raw, tuple) and raw[0] == 'f' and raw[2] == '0':
            raw = raw[1]
            n += 1
        if n == 2:
            out.add(cstr(raw))
            for c in cx.facts.j.get('consts', []):
                if c.get('ty') == 'util::primitives::StateID' and c.get('value') == lit[0][1]:
                    out.add(c['path'])
            return out
    return {cstr(a), cstr(d)}


class BothStarts:
    """finish_build_both_starts with its locals resolved by type and role (no names)."""

    def __init__(self, cx):
        from acverif.rl import expand_vars, peel_all
        self.cx = cx
        self.b = b = cx.body(BOTH)
        self.why = None
        dv = lambda i: (expand_vars(b, b.def_term(i)) if b.def_term(i) is not None else None)
        self.tables = [i for i, l in enumerate(b.locals) if l['ty'].startswith('alloc::vec::Vec<util::primitives::StateID') and dv(i) is not None and is_call(dv(i), r'alloc::vec::from_elem$') and is_named_const(dv(i)[2][0], r'DFA::DEAD$')]
        self.flags = [i for i, l in enumerate(b.locals) if l['ty'].startswith('alloc::vec::Vec<bool') and dv(i) is not None and is_call(dv(i), r'alloc::vec::from_elem$') and dv(i)[2][0] == ('c', 0)]
        if len(self.tables) != 2 or len(self.flags) != 1:
            self.why = 'expected two id tables initialised to DEAD and one flag vector initialised to false (found %d / %d)' % (len(self.tables), len(self.flags))
            return
        sym = Sym(cx.facts, b)
        self.tname = {cstr(sym.default_local(i)): i for i in self.tables}
        self.fname = cstr(sym.default_local(self.flags[0]))
        sites = b.calls(r'dfa::sparse_iter$')
        self.h1 = innermost_loop(b, sites[0][0]) if sites else None
        if self.h1 is None:
            self.why = 'state loop not found'
            return
        self.rows = loop_rows(cx.facts, b, self.h1)
        role = {}
        self.flag_problem = None
        for r in self.rows:
            if r.end != ('stop', self.h1):
                continue
            flagged = set()
            tst = []
            for p, v in r.stores():
                pc = canon(p)
                if is_call(pc, r'IndexMut::index_mut$'):
                    base = cstr(pc[2][0])
                    if base == self.fname:
                        ix = pc[2][1]
                        # flags[id >> stride2] = true
                        if canon(v) == ('c', 1) and ix[0] == 'op' and ix[1] == 'Shr':
                            x = ix[2]
                            while is_call(x, r'StateID::as_usize$'):
                                x = x[2][0]
                            flagged.add(cstr(x))
                        else:
                            self.flag_problem = 'a flag is written as %s := %s' % (tstr(pc, 80), tstr(canon(v), 20))
                    elif base in self.tname:
                        tst.append((base, cstr(v), canon(v)))
            vals = {}
            for base, vs, vc in tst:
                vals.setdefault(base, []).append((vs, vc))
            if len(vals) == 2:
                (t1, v1), (t2, v2) = [(k, x[-1]) for k, x in vals.items()]
                if v1[0] != v2[0]:
                    for tn, (vs, vc) in ((t1, v1), (t2, v2)):
                        if is_named_const(vc, r'DFA::DEAD$'):
                            continue
                        rl = 'A' if vs in flagged else 'U'
                        if role.setdefault(tn, rl) != rl:
                            self.why = 'an id table receives flagged (anchored) and unflagged ids'
            self._flagged = getattr(self, '_flagged', {})
            self._flagged[id(r)] = flagged
        if sorted(role.values()) != ['A', 'U']:
            self.why = self.why or 'the two id tables cannot be told apart by the flagged ids they receive (%s)' % role
            return
        self.TA = [k for k, v in role.items() if v == 'A'][0]
        self.TU = [k for k, v in role.items() if v == 'U'][0]

    def flagged(self, r):
        return self._flagged.get(id(r), set())


def both_starts_rules(cx, ids=('R09.6', 'R04.5', 'R16.2')):
    from acverif.rl import expand_vars, peel_all, bool_gates
    rep = lambda rid, *a, **k: cx.report(rid, *a, **k) if rid in ids else None
    B = BothStarts(cx)
    b = B.b
    if B.why:
        for rid in ids:
            cx.bad(rid, b, 'both-starts', 'finish_build_both_starts: ' + B.why)
        return
    # flags: every id put into the anchored table (other than the shared DEAD/FAIL ids) is flagged in the same iteration
    whyf = B.flag_problem
    for r in B.rows:
        if r.end != ('stop', B.h1):
            continue
        fl = B.flagged(r)
        per = {}
        for p, v in r.stores():
            pc = canon(p)
            if is_call(pc, r'IndexMut::index_mut$') and cstr(pc[2][0]) in (B.TA, B.TU):
                per.setdefault(cstr(pc[2][0]), []).append(canon(v))
        va = [x for x in per.get(B.TA, []) if not is_named_const(x, r'DFA::DEAD$')]
        vu = [x for x in per.get(B.TU, []) if not is_named_const(x, r'DFA::DEAD$')]
        same = va and vu and cstr(va[-1]) == cstr(vu[-1])
        if not same:
            for x in va:
                if cstr(x) not in fl:
                    whyf = whyf or 'an id entered into the anchored table is not flagged as anchored row'
            for x in vu:
                if cstr(x) in fl:
                    whyf = whyf or 'an id entered into the unanchored table is flagged as anchored row'
    rep('R09.6', b, 'flags', whyf is None, 'the anchored start row and every anchored copy are flagged (and no unanchored row is)' if whyf is None else whyf)
    # the transition closures
    _b, cl = transition_closures(cx, BOTH)
    why_nf = why_t = why_fc = None
    if len(cl) != 2:
        why_nf = why_t = why_fc = '%d sparse_iter transition closures (expected 2: start states, other states)' % len(cl)
    for call, cb, rows, itrow in cl:
        fl = B.flagged(itrow)
        BYTE, CLASS, NEXT = (cstr(param_at(cb, i)) for i in (2, 3, 4))
        bases = set()
        table = {}
        for isfail in (0, 1):
            for faildead in (0, 1):
                def at(t, isfail=isfail, faildead=faildead):
                    c = canon(t)
                    if c[0] == 'op' and c[1] in ('Eq', 'Ne') or is_call(c, r'PartialEq::(eq|ne)$'):
                        a, d = (c[2], c[3]) if c[0] == 'op' else (c[2][0], c[2][1])
                        neg = (c[1] == 'Ne') if c[0] == 'op' else short(c[1]).endswith('ne')
                        ks = id_spellings(cx, a, d)
                        if NEXT in ks and 'nfa::noncontiguous::NFA::FAIL' in ks:
                            return int(bool(isfail) != neg)
                        if 'nfa::noncontiguous::NFA::DEAD' in ks and any(re.search(r'\.fail$', k) for k in ks):
                            return int(bool(faildead) != neg)
                    return None
                sel = [r for r in rows if r.end == 'return' and row_consistent(r, at)]
                if len(sel) != 1:
                    why_fc = why_fc or '%d paths for FAIL=%d fail-is-DEAD=%d' % (len(sel), isfail, faildead)
                    continue
                ts = _trans_stores(cb, sel[0])
                ent = {}
                for idx, v in ts:
                    ic = canon(idx)
                    parts = [ic[2], ic[3]] if ic[0] == 'op' and ic[1] == 'Add' else []
                    rowid = [p for p in parts if cstr(p) != CLASS]
                    if len(rowid) != 1:
                        why_fc = why_fc or 'a transition is stored at %s (expected row id + class)' % tstr(ic, 80)
                        continue
                    x = rowid[0]
                    while is_call(x, r'StateID::as_usize$'):
                        x = x[2][0]
                    ent[cstr(x)] = canon(v)
                    bases.add(cstr(x))
                table[(isfail, faildead)] = ent
        single = len(bases) == 1
        for (isfail, faildead), ent in table.items():
            for bs in bases:
                v = ent.get(bs)
                anchored_row = bs in fl
                if not isfail:
                    if v is None or cstr(v) != NEXT:
                        (why_t if False else None)
                        if anchored_row:
                            why_t = why_t or 'the anchored copy stores %s for a real trie transition (expected the trie target itself)' % (tstr(v, 60) if v else 'nothing')
                        else:
                            why_fc = why_fc or 'a real trie transition is stored as %s' % (tstr(v, 60) if v else 'nothing')
                elif single:
                    if v is None or not is_named_const(v, r'DFA::DEAD$'):
                        why_fc = why_fc or 'a FAIL transition of a start state becomes %s (expected DEAD)' % (tstr(v, 60) if v else 'nothing')
                elif anchored_row:
                    if v is not None:
                        why_nf = why_nf or 'the anchored copy receives %s for a FAIL transition (it must keep DEAD: anchored searches never follow failure links)' % tstr(v, 80)
                else:
                    if faildead:
                        if v is None or not is_named_const(v, r'NFA::DEAD$'):
                            why_fc = why_fc or 'a FAIL transition of a state whose failure link is DEAD becomes %s' % (tstr(v, 60) if v else 'nothing')
                    else:
                        good = v is not None and is_call(v, r'next_state$') and is_agg(v[2][1], r'Anchored$', 'No') and re.search(r'\.fail$', cstr(v[2][2])) and cstr(v[2][3]) == BYTE
                        if not good:
                            why_fc = why_fc or 'a FAIL transition is resolved as %s (expected nnfa.next_state(Anchored::No, state.fail(), byte))' % (tstr(v, 100) if v else 'nothing')
        if not single and not any(bs in fl for bs in bases):
            why_nf = why_nf or 'neither row written by the two-row closure is flagged anchored'
    rep('R09.6', b, 'anchored-copy-no-fail', why_nf is None, 'the anchored copy\'s row is written only for real trie transitions (FAIL keeps the initial DEAD)' if why_nf is None else why_nf)
    rep('R09.6', b, 'anchored-copy-target', why_t is None, 'the anchored copy stores the trie target itself' if why_t is None else why_t)
    rep('R04.5', b, 'failure-closure', why_fc is None, 'both starts: real transitions are copied; a missing one is resolved through nnfa.next_state(Anchored::No, state.fail(), byte) unless state.fail() is DEAD; start states map FAIL to DEAD' if why_fc is None else why_fc)
    # final remap: rows flagged anchored use the anchored table, the others the unanchored table
    whyr = None
    sym = Sym(cx.facts, b)
    loops = b.loops()
    sites = [bi for bi, si, pl, st in b.stores() if si != 'term' and '*' in pl['pr'] and b.locals[pl['l']]['ty'].startswith('&mut util::primitives::StateID')
             and is_call(peel_all(expand_vars(b, b.rvalue_term(st['r'], 0, bi), keep=lambda x: True)), r'Index::index$')]
    inner = sorted({innermost_loop(b, bi) for bi in sites} - {None})
    seen = {True: set(), False: set()}
    if not inner:
        whyr = 'no loop rewrites the transition table through the id tables'
    for hi in inner:
        outs = [h for h, blks in loops.items() if hi in blks and h != hi]
        if not outs:
            whyr = whyr or 'the remap loop is not nested in a loop over the rows'
            continue
        ho = min(outs, key=lambda h: len(loops[h]))
        mods, _ = sym.loop_mods(hi)
        for ar in Sym(cx.facts, b, start=ho, stop={hi, ho}).rows():
            if ar.end != ('stop', hi):
                continue
            fv = ar.cond(lambda c: (is_call(canon(c), r'Index::index$') and cstr(canon(c)[2][0]) == B.fname) or (canon(c)[0] == 'idx' and cstr(canon(c)[1]) == B.fname))
            if fv is None:
                whyr = whyr or 'a remap loop is reached without testing the row\'s anchored flag'
                continue
            env = {l: v for l, v in ar.env.items() if l not in mods and l != 0}
            for r in Sym(cx.facts, b, start=hi, stop={hi, ho}, env=env).rows():
                for p0, v0 in r.stores():
                    vc = canon(v0)
                    if is_call(vc, r'Index::index$') and cstr(vc[2][0]) in (B.TA, B.TU):
                        seen[fv].add(cstr(vc[2][0]))
    if whyr is None:
        if seen[True] != {B.TA} or seen[False] != {B.TU}:
            whyr = 'rows flagged anchored are remapped with %s, the others with %s (expected the anchored / unanchored id table)' % (sorted(seen[True]), sorted(seen[False]))
    rep('R09.6', b, 'remap-by-flag', whyr is None, 'rows flagged anchored are remapped with the anchored id table, all others with the unanchored one' if whyr is None else whyr)
    # special ids
    NN = cstr(param_of_type(b, r'noncontiguous::NFA'))
    got = {}
    for bi, si, tt, v, s in b.field_stores():
        if tt[0] == 'f' and tt[2] in FIELDS:
            got.setdefault(tt[2], []).append(peel_all(expand_vars(b, v, keep=lambda x: x[2] in B.tables)))
    for f in FIELDS:
        vs = got.get(f, [])
        want = B.TU if f == 'start_unanchored_id' else B.TA
        ok = len(vs) == 1 and is_call(vs[0], r'Index::index$')
        if ok:
            tb = peel_all(vs[0][2][0])
            src = peel_all(vs[0][2][1])
            ok = cstr(tb) == want and src[0] == 'f' and src[2] == f and is_call(peel_all(src[1]), r'NFA::special$') and cstr(peel_all(src[1])[2][0]) == NN
        rep('R16.2', b, 'special:' + f, ok, 'special.%s = %s table[nnfa.special().%s]' % (f, 'unanchored' if want == B.TU else 'anchored', f) if ok else 'DFA (both starts) special.%s is assigned %s' % (f, [tstr(v, 80) for v in vs]))

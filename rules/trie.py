"""Rules over noncontiguous::Compiler::build_trie, decided on iteration summaries of its two loops (pattern loop and byte
loop): R01.3 (leftmost-first pruning, walk), R20.1 (pattern ids / lengths / add_match), R05.5 (prefilter sees every pattern)."""
import re

from acverif.mir import short, tstr, subterms
from acverif.rl import is_call, is_agg, is_named_const, param_at, Unsupported, EvalPanic
from acverif.sym import Sym, canon, cstr, loop_rows, innermost_loop, teval, by_cstr

COMP = "nfa::noncontiguous::Compiler::<'a>::"
IS_LF = 'util::search::MatchKind::is_leftmost_first(self.builder.match_kind)'
START = 'self.nfa.special.start_unanchored_id'


def c_state(x):
    x = canon(x)
    if is_call(x, r'Index(Mut)?::index(_mut)?$') and cstr(x[2][0]) == 'self.nfa.states':
        return x[2][1]
    if x[0] == 'idx' and cstr(x[1]) == 'self.nfa.states':
        return x[2]
    return None


def phis(rows, header):
    """{local: entry term} of the loop-carried locals of an abstracted inner loop, as seen by the enclosing summaries"""
    out = {}
    for r in rows:
        terms = [c for c, v in r.conds] + [e[1] for e in r.effects if e[0] in ('call', 'store')] + [e[2] for e in r.effects if e[0] == 'store'] + list(r.env.values())
        for t in terms:
            if not isinstance(t, tuple):
                continue
            for s in subterms(t):
                if s[0] == 'phi' and s[1] == header:
                    out.setdefault(s[2], s[3])
    return out


class BT:
    def __init__(self, cx):
        self.cx = cx
        self.b = b = cx.body(COMP + 'build_trie')
        ft = b.calls(r'NFA::follow_transition$')
        pl = [bi for bi, t in b.calls(r'Vec.*::push$') if 'pattern_lens' in cstr(b.call_term(bi, t))]
        self.inner = innermost_loop(b, ft[0][0]) if ft else None
        self.outer = innermost_loop(b, pl[0]) if pl else None
        self.ok = self.inner is not None and self.outer is not None and self.inner != self.outer and self.inner in b.loops()[self.outer]
        if not self.ok:
            return
        loops = b.loops()
        self.orows = loop_rows(cx.facts, b, self.outer)
        self.irows = loop_rows(cx.facts, b, self.inner)
        sym = Sym(cx.facts, b)
        # pattern payload
        self.next_o = self._next(self.orows, lambda blk: blk in loops[self.outer] and blk not in loops[self.inner])
        self.next_i = self._next(self.irows, lambda blk: blk in loops[self.inner])
        if self.next_o is None or self.next_i is None:
            self.ok = False
            return
        pay = ('f', ('dc', self.next_o, 'Some'), '0')
        self.I, self.PAT = cstr(('f', pay, '0')), cstr(('f', pay, '1'))
        ipay = ('f', ('dc', self.next_i, 'Some'), '0')
        self.DEPTH, self.BYTE = cstr(('f', ipay, '0')), cstr(('f', ipay, '1'))
        self.body = [r for r in self.irows if r.cond(lambda c: c[0] == 'discr' and is_call(c[1], r'Iterator::next$') and c[1][3] == self.next_i[3]) == 1]
        # loop-carried locals of the byte loop: read before written in an iteration
        mods, _ = sym.loop_mods(self.inner)
        carried = {}
        for l in mods:
            d = sym.default_local(l)
            k = repr(d)
            for r in self.body:
                if any(k in repr(c) for c, v in r.conds) or any(k in repr(e[1:]) for e in r.effects):
                    carried[l] = d
                    break
        self.saw = [l for l in carried if b.locals[l]['ty'] == 'bool']
        self.cur = [l for l in carried if b.locals[l]['ty'].endswith('StateID')]
        self.carried = carried
        self.entry = phis(self.orows, self.inner)

    def _next(self, rows, inblk):
        for r in rows:
            for c, v in r.conds:
                if c[0] == 'discr' and is_call(c[1], r'Iterator::next$') and v == 1 and inblk(c[1][3]):
                    return c[1]
        return None


def r01_3(cx):
    T = BT(cx)
    b = T.b
    if T.ok and len(T.saw) == 0 and len(T.cur) == 1:
        cx.bad('R01.3', b, 'saw_match', 'no boolean is carried from one byte of the pattern to the next: "a match state was seen earlier on this path" is not accumulated')
        return
    if not T.ok or len(T.saw) != 1 or len(T.cur) != 1:
        cx.bad('R01.3', b, 'loops', 'pattern loop / byte loop of build_trie not recognised (saw_match candidates %s, state candidates %s)' % (getattr(T, 'saw', None), getattr(T, 'cur', None)))
        return
    S0, P0 = T.carried[T.saw[0]], T.carried[T.cur[0]]
    s0k, p0k = cstr(S0), cstr(P0)

    def is_im(c):
        c = canon(c)
        return is_call(c, r'nfa::noncontiguous::State::is_match$') and c_state(c[2][0]) is not None and cstr(c_state(c[2][0])) == p0k
    GROW = r'NFA::(alloc_state|add_transition)$'
    why_gate = why_skip = why_saw = why_adv = None
    ncont = 0
    for r in T.body:
        lf, s0, im = r.cond(IS_LF), r.cond(s0k), r.cond(is_im)
        ptrue = lf is True and (s0 is True or im is True)
        pfalse = lf is False or (s0 is False and im is False)
        grow = r.calls(GROW)
        if grow and not pfalse:
            why_gate = 'a state or transition is added on a path where leftmost-first && (a match state was seen) is not excluded (lf=%s saw=%s is_match=%s)' % (lf, s0, im)
        if ptrue and (grow or r.calls(r'NFA::add_match$') or r.end != ('stop', T.outer)):
            why_skip = 'a pattern that has an earlier pattern as proper prefix still grows the trie or is recorded as a match under leftmost-first'
        if r.end == ('stop', T.outer) and not ptrue:
            why_skip = 'a pattern is abandoned without leftmost-first && match-seen (lf=%s saw=%s is_match=%s)' % (lf, s0, im)
        if r.end == ('stop', T.inner):
            ncont += 1
            V = r.env.get(T.saw[0], S0)
            vk = cstr(V)
            if V == ('c', 1):
                good = s0 is True or im is True
            elif V == ('c', 0):
                good = s0 is False and im is False
            elif vk == s0k:
                good = im is False or s0 is True
            elif is_im(V):
                good = s0 is False or im is True
            elif canon(V)[0] == 'op' and canon(V)[1] == 'BitOr' and {cstr(canon(V)[2]), cstr(canon(V)[3])} == {s0k, cstr(canon(V)[2]) if is_im(canon(V)[2]) else cstr(canon(V)[3])} and (is_im(canon(V)[2]) or is_im(canon(V)[3])):
                good = True
            else:
                good = False
            if not good:
                why_saw = 'after a byte the flag is %s (expected: flag || states[cur].is_match())' % tstr(canon(V), 100)
            # the walk: cur = follow_transition(cur, byte) if present, else a fresh state linked by add_transition(cur, byte, fresh)
            N = canon(r.env.get(T.cur[0], P0))
            ft = 'nfa::noncontiguous::NFA::follow_transition(self.nfa, %s, %s)' % (p0k, T.BYTE)
            if cstr(N) == ft:
                conds = [(cstr(c), v) for c, v in r.conds]
                _FACTS[0] = cx.facts
                okc = False
                for c0, v0 in r.conds:
                    e0 = _c_eq(c0)
                    if e0 is not None and {cstr(e0[0]), cstr(e0[1])} == {ft, 'nfa::noncontiguous::NFA::FAIL'} and ((e0[2] and v0 is False) or (not e0[2] and v0 is True)):
                        okc = True
                if not okc or grow:
                    why_adv = 'the walk follows an existing transition without it being != FAIL (or still grows the trie)'
            else:
                al = [canon(c) for c in r.calls(r'NFA::alloc_state$')]
                at = [canon(c) for c in r.calls(r'NFA::add_transition$')]
                fresh = ('f', ('dc', al[0], 'Ok'), '0') if len(al) == 1 else None
                if fresh is None or cstr(N) != cstr(fresh) or cstr(al[0][2][1]) != T.DEPTH:
                    why_adv = 'the walk continues in %s (expected the state reached over the byte, or one fresh state allocated at the byte\'s depth)' % tstr(N, 120)
                elif not any(cstr(c[2][0]) == 'self.nfa' and cstr(c[2][1]) == p0k and cstr(c[2][2]) == T.BYTE and cstr(c[2][3]) == cstr(fresh) for c in at):
                    why_adv = 'the fresh state is not linked by add_transition(cur, byte, fresh)'
    ent_s, ent_p = T.entry.get(T.saw[0]), T.entry.get(T.cur[0])
    if ent_s != ('c', 0):
        why_saw = why_saw or 'the match-seen flag is not reset to false for every pattern (entry value %s)' % (tstr(ent_s, 60) if ent_s else None)
    if ent_p is None or cstr(ent_p) != START:
        why_adv = why_adv or 'the walk of a pattern does not start in the unanchored start state (entry value %s)' % (tstr(ent_p, 80) if ent_p else None)
    if ncont == 0:
        why_adv = why_adv or 'no continuing path of the byte loop'
    cx.report('R01.3', b, 'prune-gate', why_gate is None, 'under leftmost-first, once a match state is on the path no state or transition is added for the rest of the pattern (%d paths of one byte step)' % len(T.body) if why_gate is None else why_gate)
    cx.report('R01.3', b, 'prune-skips-pattern', why_skip is None, 'a pattern is abandoned (no add_match, no growth) exactly when leftmost-first && a match state was seen' if why_skip is None else why_skip)
    cx.report('R01.3', b, 'saw_match', why_saw is None, 'flag = flag || states[cur].is_match(), reset per pattern' if why_saw is None else why_saw)
    cx.report('R01.3', b, 'advance', why_adv is None, 'cur starts at the unanchored start state and moves over follow_transition(cur, byte) when present, else to a fresh state linked with add_transition(cur, byte, fresh)' if why_adv is None else why_adv)


def r20_1_trie(cx):
    T = BT(cx)
    b = T.b
    if not T.ok:
        cx.bad('R20.1', b, 'loops', 'pattern loop / byte loop of build_trie not recognised')
        return
    PID = '(util::primitives::PatternID::new(%s) as Ok).0' % T.I
    PLEN = '(util::primitives::SmallIndex::new(core::slice::len(%s)) as Ok).0' % T.PAT
    LEN = 'core::slice::len(%s)' % T.PAT
    # i is the enumeration index of the caller's patterns
    recv = canon(T.next_o[2][0])
    oki = False
    if recv[0] == 'v':
        d = b.def_term(recv[2])
        if d is not None:
            from acverif.rl import expand_vars
            d = canon(expand_vars(b, d))
            en = [s for s in subterms(d) if is_call(s, r'Iterator::enumerate$')]
            oki = len(en) == 1 and cstr(en[0][2][0]) == cstr(param_at(b, 2))
    why_pid = None if oki else 'the pattern loop does not iterate over patterns.into_iter().enumerate()'
    why_am = why_pl = why_min = why_max = None
    done = [r for r in T.orows if r.end == ('stop', T.outer) and r.cond(lambda c: c[0] == 'discr' and is_call(c[1], r'Iterator::next$') and c[1][3] == T.next_o[3]) == 1]
    nfull = 0
    for r in done:
        am = [canon(c) for c in r.calls(r'NFA::add_match$')]
        exhausted = r.cond(lambda c: c[0] == 'discr' and is_call(c[1], r'Iterator::next$') and c[1][3] == T.next_i[3]) not in (1, None)
        if exhausted:
            nfull += 1
            if len(am) != 1:
                why_am = '%d add_match calls for a completely inserted pattern' % len(am)
            else:
                st, pid = am[0][2][1], am[0][2][2]
                if cstr(pid) != PID:
                    why_pid = why_pid or 'add_match records %s, expected PatternID::new(i) of the enumeration index' % tstr(pid, 120)
                if not (st[0] == 'phi' and st[1] == T.inner and cstr(st[3]) == START):
                    why_am = 'add_match is called on %s, expected the state the byte walk ended in' % tstr(st, 100)
        elif am:
            why_am = 'add_match on a path that did not consume the whole pattern'
    if nfull == 0:
        why_am = why_am or 'no path inserts a complete pattern'
    # everything recorded once per pattern, before the byte loop
    entered = [r for r in T.orows if ('loop', T.inner) in r.effects]
    if not entered:
        why_pl = 'no path reaches the byte loop'
    grid = [(a, n) for a in (0, 1, 3, 7) for n in (0, 1, 3, 7)]
    for r in entered:
        idx = r.effects.index(('loop', T.inner))
        before = [e for e in r.effects[:idx]]
        pushes = [canon(e[1]) for e in before if e[0] == 'call' and re.search(r'Vec.*::push$', short(e[1][1])) and cstr(e[1][2][0]) == 'self.nfa.pattern_lens']
        if len(pushes) != 1 or cstr(pushes[0][2][1]) != PLEN:
            why_pl = 'pattern_lens.push(len(pat)) does not happen exactly once per pattern before the pattern is inserted (%s)' % [tstr(p[2][1], 80) for p in pushes]
        stores = {}
        for e in before:
            if e[0] == 'store':
                stores[cstr(e[1])] = e[2]
        for fld, fn in (('min_pattern_len', min), ('max_pattern_len', max)):
            key = 'self.nfa.' + fld
            bad = None
            try:
                for a, n in grid:
                    at = by_cstr({key: a, LEN: n})
                    consistent = True
                    for c, v in r.conds:
                        try:
                            x = teval(c, at)
                        except (Unsupported, EvalPanic, KeyError, TypeError):
                            continue
                        if isinstance(v, bool) and bool(x) != v:
                            consistent = False
                    if not consistent:
                        continue
                    new = teval(stores[key], at) if key in stores else a
                    if new != fn(a, n):
                        bad = '%s becomes %s for old value %d and pattern length %d' % (fld, new, a, n)
            except (Unsupported, EvalPanic) as e:
                bad = 'cannot evaluate the update of %s: %s' % (fld, e)
            if bad:
                if fld.startswith('min'):
                    why_min = bad
                else:
                    why_max = bad
    cx.report('R20.1', b, 'pid', why_pid is None, 'pid = PatternID::new(i) with i the enumerate() index of the caller\'s patterns' if why_pid is None else why_pid)
    cx.report('R20.1', b, 'add_match', why_am is None, 'add_match(end state of the walk, pid) exactly once for every completely inserted pattern' if why_am is None else why_am)
    cx.report('R20.1', b, 'pattern_lens', why_pl is None, 'pattern_lens.push(len(pat)) once per pattern' if why_pl is None else why_pl)
    cx.report('R20.1', b, 'min_pattern_len', why_min is None, 'min_pattern_len = min(min_pattern_len, pat.len()) for every pattern (evaluated on all orderings)' if why_min is None else why_min)
    cx.report('R20.1', b, 'max_pattern_len', why_max is None, 'max_pattern_len = max(max_pattern_len, pat.len()) for every pattern (evaluated on all orderings)' if why_max is None else why_max)


def r05_5(cx):
    T = BT(cx)
    b = T.b
    if not T.ok:
        cx.bad('R05.5', b, 'prefilter-add', 'pattern loop / byte loop of build_trie not recognised')
        return
    why = None
    n = 0
    for r in T.orows:
        pushes = [canon(c) for c in r.calls(r'Vec.*::push$') if cstr(canon(c)[2][0]) == 'self.nfa.pattern_lens']
        if not pushes or r.end == 'diverge':
            continue
        if r.end == 'return' and is_agg(r.ret, r'Result$', 'Err') and ('loop', T.inner) not in r.effects:
            continue
        n += 1
        adds = [canon(c) for c in r.calls(r'util::prefilter::Builder::add$')]
        opt = r.cond('self.builder.prefilter')
        good = len(adds) == 1 and cstr(adds[0][2][0]) == 'self.prefilter' and cstr(adds[0][2][1]) == T.PAT
        if opt is False:
            if adds:
                why = 'the prefilter builder is fed although the prefilter option is off'
        elif not good:
            why = 'a pattern whose length is recorded is not handed to the prefilter builder exactly once (packed pattern ids drift): %s' % [tstr(a, 100) for a in adds]
        else:
            # before the pruning exit: the add precedes the byte loop
            idx = r.effects.index(('loop', T.inner)) if ('loop', T.inner) in r.effects else len(r.effects)
            pos = [i for i, e in enumerate(r.effects) if e[0] == 'call' and re.search(r'util::prefilter::Builder::add$', short(e[1][1]))]
            if pos and pos[0] > idx and r.end == ('stop', T.outer):
                pass
    # pruned patterns: rows of the byte loop that abandon the pattern must not be able to skip the add -> the add happens before the byte loop or on every exit
    for r in T.orows:
        if r.end == ('stop', T.outer) and ('loop', T.inner) in r.effects and r.cond('self.builder.prefilter') is not False:
            if not r.calls(r'util::prefilter::Builder::add$'):
                why = 'an abandoned (pruned) pattern is not handed to the prefilter builder'
    if n == 0:
        why = why or 'no pattern path found'
    cx.report('R05.5', b, 'add-before-pruning', why is None, 'every pattern whose length is recorded is also handed to the prefilter builder, pruned or not (unless the prefilter option is off)' if why is None else why)


def r16_2_shuffle(cx):
    """shuffle: match states are swapped to the front, the start states behind them, special ids read off the final layout"""
    from acverif.sym import summarize
    b = cx.body(COMP + 'shuffle')
    rows = [r for r in summarize(cx.facts, b) if r.end == 'return']
    why = None if rows else 'no path returns'
    H = L = None
    for r in rows:
        st = {}
        for p, v in r.stores():
            st[cstr(p)] = v
        sa, su, mm = (st.get('self.nfa.special.' + f) for f in ('start_anchored_id', 'start_unanchored_id', 'max_match_id'))
        if sa is None or su is None or mm is None:
            why = 'not all of start_anchored_id / start_unanchored_id / max_match_id are assigned'
            break
        ph = {(s[1], s[2]) for s in subterms(sa) if s[0] == 'phi'}
        if len(ph) != 1:
            why = 'start_anchored_id is not derived from the one cursor of the match-state loop'
            break
        (H, L), = ph
        ent = [s[3] for s in subterms(sa) if s[0] == 'phi'][0]
        try:
            if teval(ent, lambda t: None) != 4:
                why = 'the cursor of the match-state loop does not start at state 4 (behind DEAD, FAIL and the two start states)'
                break
            for n in (7, 12):
                at = lambda t, n=n: n if (t[0] == 'phi' and t[1] == H and t[2] == L) else None
                if teval(sa, at) != n - 1 or teval(su, at) != n - 2:
                    why = 'start ids are assigned cursor-%d / cursor-%d (expected cursor-1 for the anchored and cursor-2 for the unanchored start)' % (n - teval(sa, at), n - teval(su, at))
                    break
                im = None
                for c, v in r.conds:
                    cc = canon(c)
                    if is_call(cc, r'nfa::noncontiguous::State::is_match$') and c_state(cc[2][0]) is not None:
                        try:
                            if teval(c_state(cc[2][0]), at) == n - 1:
                                im = v
                        except (Unsupported, EvalPanic):
                            pass
                if im is None:
                    why = 'max_match_id does not depend on whether the (new) anchored start state is a match state'
                    break
                if teval(mm, at) != (n - 1 if im else n - 3):
                    why = 'max_match_id = cursor-%d when the anchored start %s a match state' % (n - teval(mm, at), 'is' if im else 'is not')
                    break
                ev = [e for e in r.effects if e[0] in ('call', 'loop')]
                li = ev.index(('loop', H)) if ('loop', H) in ev else -1
                after = [canon(e[1]) for e in ev[li + 1:] if e[0] == 'call']
                sw = [c for c in after if is_call(c, r'Remapper::swap$')]
                rm = [i for i, c in enumerate(after) if is_call(c, r'Remapper::remap$')]
                si = [i for i, c in enumerate(after) if is_call(c, r'Remapper::swap$')]
                if len(sw) != 2 or cstr(sw[0][2][2]) != 'self.nfa.special.start_anchored_id' or teval(sw[0][2][3], at) != n - 1 or cstr(sw[1][2][2]) != START or teval(sw[1][2][3], at) != n - 2:
                    why = 'the start states are not swapped to cursor-1 (anchored, first) and cursor-2 (unanchored)'
                    break
                if len(rm) != 1 or rm[0] < max(si) or any(is_call(c, r'Remapper::') for c in after[rm[0] + 1:]):
                    why = 'remap() is not the single last remapper operation after all swaps'
                    break
        except (Unsupported, EvalPanic) as e:
            why = 'cannot evaluate: %s' % e
        if why:
            break
    if why is None:
        NA0 = Sym(cx.facts, b).default_local(L)
        body = [r for r in loop_rows(cx.facts, b, H) if r.end == ('stop', H)]
        if not body:
            why = 'the match-state loop never iterates'
        for r in body:
            nx = [c[1] for c, v in r.conds if c[0] == 'discr' and is_call(c[1], r'Iterator::next$') and v == 1]
            if not nx:
                continue
            SID = cstr(('f', ('dc', ('call', 'util::primitives::StateID::new', [('f', ('dc', nx[0], 'Some'), '0')], None), 'Ok'), '0'))
            im = r.cond(lambda c: is_call(canon(c), r'nfa::noncontiguous::State::is_match$') and c_state(canon(c)[2][0]) is not None and cstr(c_state(canon(c)[2][0])) == SID)
            sw = [canon(c) for c in r.calls(r'Remapper::swap$')]
            try:
                new = teval(r.env.get(L, NA0), lambda t: 9 if t == NA0 else None)
            except (Unsupported, EvalPanic) as e:
                why = 'cannot evaluate the cursor update: %s' % e
                break
            if im is True:
                if len(sw) != 1 or cstr(sw[0][2][2]) != SID or cstr(sw[0][2][3]) != cstr(NA0) or new != 10:
                    why = 'a match state is not swapped to the cursor with the cursor advancing by one'
            elif im is False:
                if sw or new != 9:
                    why = 'a non-match state is swapped or moves the cursor'
            else:
                why = 'an iteration does not depend on states[sid].is_match()'
            if why:
                break
    cx.report('R16.2', b, 'layout', why is None, 'match states are swapped to 4.. in order, then start_anchored = cursor-1, start_unanchored = cursor-2, max_match = cursor-3 (or the anchored start if it matches); one remap after all swaps (evaluated symbolically)' if why is None else 'shuffle: ' + why)


_FACTS = [None]


def _named_id(value, prefer=('util::primitives::StateID::ZERO', 'nfa::noncontiguous::NFA::FAIL')):
    """the named id constant a literal stands for when a raw id value is compared with it (`match id { StateID::ZERO => .. }`)"""
    f = _FACTS[0]
    if f is None:
        return None
    vals = {c['path']: c.get('value') for c in f.j.get('consts', []) if c.get('ty') == 'util::primitives::StateID'}
    for n in prefer:
        if vals.get(n) == value:
            return ('k', n)
    return None


def _c_eq(c):
    c = canon(c)
    e = None
    if c[0] == 'op' and c[1] in ('Eq', 'Ne'):
        e = (c[2], c[3], c[1] == 'Eq')
    elif is_call(c, r'PartialEq::(eq|ne)$'):
        e = (c[2][0], c[2][1], short(c[1]).endswith('eq'))
    if e is None:
        return None
    a, d, pol = e
    for x, y in ((a, d), (d, a)):
        if isinstance(x, tuple) and x[0] == 'c' and isinstance(x[1], int) and not isinstance(x[1], bool) and y[0] == 'f' and y[2] == '0' and y[1][0] == 'f' and y[1][2] == '0':
            k = _named_id(x[1])
            if k is not None:
                return (y[1][1], k, pol) if x is d else (k, y[1][1], pol)
    return e


def _tail_walk(cx, b, phi, head_expected, rule, tag):
    """phi must be the cursor of a loop `while matches[cur].link != ZERO { cur = matches[cur].link }` entered at head"""
    _FACTS[0] = cx.facts
    h, l = phi[1], phi[2]
    if cstr(phi[3]) != head_expected:
        return 'the walk to the end of the match list starts at %s (expected the list head %s)' % (tstr(canon(phi[3]), 80), head_expected)
    cur = Sym(cx.facts, b).default_local(l)
    rows = [r for r in loop_rows(cx.facts, b, h) if r.end == ('stop', h)]
    if not rows:
        return 'the tail walk never iterates'
    nxt = 'core::ops::Index::index(self.matches, %s).link' % cstr(cur)
    for r in rows:
        cs = [(e, v) for e, v in ((_c_eq(c), v) for c, v in r.conds) if e is not None and {cstr(e[0]), cstr(e[1])} == {nxt, 'util::primitives::StateID::ZERO'}]
        if len(cs) != 1 or (cs[0][1] == cs[0][0][2]):
            return 'the tail walk does not continue exactly while matches[cur].link != ZERO'
        if cstr(r.env.get(l, cur)) != nxt:
            return 'a step of the tail walk is not cur = matches[cur].link'
    return None


def r03_6(cx):
    """new match entries are appended behind the LAST entry of a state's match list (order = pattern order; nothing dropped)"""
    from acverif.sym import summarize
    _FACTS[0] = cx.facts
    b = cx.body('nfa::noncontiguous::NFA::add_match')
    SID, PID = cstr(param_at(b, 2)), cstr(param_at(b, 3))
    head = 'core::ops::Index::index(self.states, %s).matches' % SID
    rows = [r for r in summarize(cx.facts, b) if r.end == 'return' and is_agg(r.ret, r'Result$', 'Ok')]
    why = None if rows else 'no successful path'
    for r in rows:
        st = [(canon(p), canon(v)) for p, v in r.stores()]
        new = [c for c in r.calls(r'NFA::alloc_match$')]
        if len(new) != 1:
            why = why or 'not exactly one alloc_match on a successful path'
            continue
        NEW = cstr(('f', ('dc', new[0], 'Ok'), '0'))
        pid = [v for p, v in st if cstr(p) == 'core::ops::Index::index_mut(self.matches, %s).pid' % NEW or cstr(p) == 'core::ops::IndexMut::index_mut(self.matches, %s).pid' % NEW]
        if len(pid) != 1 or cstr(pid[0]) != PID:
            why = why or 'the new entry does not record the given pattern id'
        links = [(p, v) for p, v in st if p[0] == 'f' and p[2] in ('link', 'matches') and cstr(v) == NEW]
        if len(links) != 1:
            why = why or 'the new entry is linked %d times' % len(links)
            continue
        p, v = links[0]
        base = p[1]
        tgt = base[2][1] if is_call(base, r'Index(Mut)?::index(_mut)?$') else (base[2] if base[0] == 'idx' else None)
        if p[2] == 'link':
            if tgt is None or tgt[0] != 'phi':
                why = why or 'the new entry is linked behind %s, which is not the end of the list found by the walk (entries in between are dropped)' % (tstr(tgt, 80) if tgt else None)
                continue
            z = [(e, val) for e, val in ((_c_eq(c), val) for c, val in r.conds) if e is not None and {cstr(e[0]), cstr(e[1])} == {cstr(tgt), 'util::primitives::StateID::ZERO'}]
            if not z or any(val == e[2] for e, val in z):
                why = why or 'linking behind the tail is not restricted to a non-empty list'
            why = why or _tail_walk(cx, b, tgt, head, 'R03.6', 'add_match')
        else:
            if tgt is None or cstr(tgt) != SID:
                why = why or 'the list head of another state is written'
            z = [(e, val) for e, val in ((_c_eq(c), val) for c, val in r.conds) if e is not None and 'util::primitives::StateID::ZERO' in (cstr(e[0]), cstr(e[1]))]
            zz = [(e, val) for e, val in z if (e[0][0] == 'phi' or e[1][0] == 'phi')]
            if not zz or any(val != e[2] for e, val in zz):
                why = why or 'the list head is replaced although the list (as found by the walk) is not empty'
    cx.report('R03.6', b, 'append-at-tail', why is None, 'add_match walks to the last entry of states[sid]\'s list and links the new (pid) entry behind it, or installs it as head of an empty list' if why is None else 'NFA::add_match: ' + why)
    # copy_matches: every copied entry is appended behind the running tail
    c = cx.body('nfa::noncontiguous::NFA::copy_matches')
    SRC, DST = cstr(param_at(c, 2)), cstr(param_at(c, 3))
    pushes = c.calls(r'Vec.*::push$')
    why = None
    if len(pushes) != 1:
        why = '%d push sites' % len(pushes)
    else:
        h = innermost_loop(c, pushes[0][0])
        rows = [r for r in loop_rows(cx.facts, c, h) if r.end == ('stop', h)] if h is not None else []
        if not rows:
            why = 'the copy loop never iterates'
        sym = Sym(cx.facts, c)
        mods, _ = sym.loop_mods(h) if h is not None else (set(), False)
        for r in rows:
            ps = [canon(x) for x in r.calls(r'Vec.*::push$')]
            if len(ps) != 1 or cstr(ps[0][2][0]) != 'self.matches' or not is_agg(ps[0][2][1], r'noncontiguous::Match$'):
                why = why or 'an iteration does not push exactly one Match entry'
                continue
            ent = ps[0][2][1][3]
            srcs = [l for l in mods if cstr(sym.default_local(l)) in cstr(ent['pid']) and c.locals[l]['ty'].endswith('StateID')]
            if not (re.match(r'^core::ops::Index::index\(self\.matches, \w+\)\.pid$', cstr(ent['pid'])) and cstr(ent['link']) == 'util::primitives::StateID::ZERO' and len(srcs) == 1):
                why = why or 'the copied entry is %s (expected {pid: matches[src cursor].pid, link: ZERO})' % tstr(ps[0][2][1], 120)
                continue
            sl = srcs[0]
            SC = cstr(sym.default_local(sl))
            if cstr(r.env.get(sl)) != 'core::ops::Index::index(self.matches, %s).link' % SC:
                why = why or 'the source cursor does not advance along the source list'
            news = [x for x in r.calls(r'StateID::new$') if 'len(self.matches)' in cstr(x)]
            NEW = cstr(('f', ('dc', news[0], 'Ok'), '0')) if news else None
            links = [(canon(p), canon(v)) for p, v in r.stores() if canon(p)[0] == 'f' and canon(p)[2] in ('link', 'matches') and NEW is not None and cstr(v) == NEW]
            if len(links) != 1:
                why = why or 'the copied entry is linked %d times' % len(links)
                continue
            p, v = links[0]
            base = p[1]
            tgt = base[2][1] if is_call(base, r'Index(Mut)?::index(_mut)?$') else (base[2] if base[0] == 'idx' else None)
            dls = [l for l in mods if l != sl and c.locals[l]['ty'].endswith('StateID') and r.env.get(l) is not None and cstr(r.env[l]) == NEW]
            if not dls:
                why = why or 'the destination tail does not move to the entry just appended'
                continue
            DC = cstr(sym.default_local(dls[0]))
            # on arrival at the copy loop the destination cursor is the END of the destination's list (tail walk from its head)
            arr = [x for x in Sym(cx.facts, c, start=0, stop={h}).rows() if x.end == ('stop', h)]
            if not arr:
                why = why or 'the copy loop is never reached'
            for x in arr:
                v0 = x.env.get(dls[0])
                while v0 is not None and v0[0] == 'upd':
                    v0 = v0[1]
                if v0 is None or v0[0] != 'phi':
                    why = why or 'the destination cursor starts at %s, not at the end of the destination list (entries already on the list are unlinked)' % (tstr(canon(v0), 80) if v0 else None)
                else:
                    why = why or _tail_walk(cx, c, v0, 'core::ops::Index::index(self.states, %s).matches' % DST, 'R03.6', 'copy')
            if p[2] == 'link' and (tgt is None or cstr(tgt) != DC):
                why = why or 'a copied entry is linked behind %s, not behind the running tail of the destination list' % (tstr(tgt, 60) if tgt else None)
            if p[2] == 'matches' and (tgt is None or cstr(tgt) != DST):
                why = why or 'the head of another state is written'
    cx.report('R03.6', c, 'copy-append', why is None, 'copy_matches appends one entry per source entry behind the running tail of the destination list, in source order' if why is None else 'NFA::copy_matches: ' + why)

"""C14 rule set (see DESIGN.md section 5)."""
from rules.search import r14_1, r02_1, r14_3, r09_1, r19_1, r01_5, r05_6
from rules.layout import r04_5_iter
from rules.prefilter import r10_5
from rules.prefilter import r05_9
from rules.prefilter import r05_8
from rules.prefilter import r05_3, r05_7

LEVEL = 'other'
from rules.prefilter import r05_4
from rules.layout import r04_5_reader
from rules.trie import r05_5
from rules.teddy import r15_4
from rules.prefilter import r05_1
from rules.casefold import r11_1
from rules.utilfn import r10_7
from rules.utilfn import r04_7
from rules.utilfn import r20_7
from rules.utilfn import r03_7
RULES = [('R04.5i', r04_5_iter), ('R10.5', r10_5), ('R05.9', r05_9), ('R05.8', r05_8), ('R05.7', r05_7), ('R14.1', r14_1), ('R02.1', r02_1), ('R14.3', r14_3), ('R09.1', r09_1), ('R19.1', r19_1), ('R01.5', r01_5), ('R05.6', r05_6), ('R05.3', r05_3), ('R05.4', r05_4), ('R04.5r', r04_5_reader), ('R05.5', r05_5), ('R15.4', r15_4), ('R05.1', r05_1), ('R11.1', r11_1), ('R10.7', r10_7), ('R04.7', r04_7), ('R20.7', r20_7), ('R03.7', r03_7)]
EXPLANATION = """R14.1 AhoCorasick::is_match = try_find(input.earliest(true)).expect(..).is_some(); Input::earliest / set_earliest write only the
earliest flag and get_earliest returns it. R02.1 in try_find_fwd earliest = match_kind().is_standard() || input.get_earliest() and each of
the five calls of try_find_fwd_imp receives a flag consistent with the branch it sits on. R14.3 inside try_find_fwd_imp the flag is used
only as a branch condition; each such branch's true edge leads without any call or store to `return Ok(mat)` right after mat was
assigned from get_match (after the anchored filter, R09.1), and its false edge rejoins the normal flow: the earliest run is a prefix
of the normal run, so it can only return a value the normal run held at that moment, and by cursor monotonicity (R19.1) the normal
run's final match cannot end earlier. R14.4 the initial prefilter call is skipped only by the start-state early return. R01.5 mat
discipline of the driver. R05.6 / R05.3 prefilter use sites and candidate arithmetic (a prefilter that starts the walk before the
span or skips a match makes is_match and find disagree with existence)."""
NOT_DECIDED = """That what the normal run holds in mat is a genuine occurrence (C01/C02 remainder)."""
CLAIM = """Static decision that is_match is the earliest search's is_some, that the earliest flag is derived and plumbed consistently, and
that inside the driver the flag only adds side-effect-free early returns of an already accepted match. Earliest mode is not exercised by
the pinned suite."""
NOTE = """Trusted: rustc MIR construction, the fact extractor."""
TECHNIQUE = "static analysis: flag-use inventory, graph cuts and side-effect analysis of early-return edges over rustc MIR"

"""C08 — stream replacement reproduces the stream outside matches (DESIGN.md §5 C08)."""
from rules.stream import RULES_C08 as RULES, STREAM_CONFIGS
from rules.agree import r20_1
from rules.agree import r04_1
RULES = list(RULES) + [('R20.1', r20_1), ('R04.1', r04_1)]

LEVEL = 'other'
THOROUGH_CONFIGS = ['default', 'std', 'logging']
EXPLANATION = """
R08.1 the four chunk helpers compute exactly the specified ranges (as decision tables over canonical affine comparisons):
match chunk [buffer_pos - mat.len(), buffer_pos); non-match chunk [reported, buffer_pos - mat.len()) iff non-empty; pre-roll
chunk [reported, len (-) min) iff non-empty; eof chunk [reported, len) iff non-empty; get_match = get_match(aut, sid, 0,
absolute_pos). R08.2 (one statement on the summaries of one pass through the outer loop of next(), calls and stores in order) every
Some(Ok(chunk)) return takes its range r from the right helper evaluated for the current state, returns buffer()[r], and
buffer_reported_pos += r.len() for the same r happens exactly once after that helper ran, with no roll / fill in between; every non-match range starts at buffer_reported_pos so consecutive
chunks are adjacent; the match chunk is emitted only on the edge where no unreported bytes precede it; buffer_reported_pos has
no other writer than these four and the roll adjustment. R08.3 the driver writes NonMatch bytes unchanged with write_all, hands
(mat, bytes, wtr) of the same Match chunk to the closure, dispatches each chunk kind to its own sink only; the table variant
asserts the table length and writes replace_with[mat.pattern()] with write_all; AhoCorasick's wrappers pass arguments through.
Shared: R07.1 (Buffer), R07.5 (roll adjustment keeps reported aligned).
"""
NOT_DECIDED = """As C07: that a match never starts before bytes already handed out, and the match sequence itself. Behaviour of user Write
implementations and closures."""
CLAIM = """Static decision, for every path and symbolic buffer state, that the chunk iterator's outputs tile the buffered bytes: helper
range contracts, adjacency through the single reported-position counter with a closed writer set, match-after-non-match
ordering, and the replacement driver's wiring. Stream replacement is not exercised by the pinned suite beyond tiny inputs."""
NOTE = """Trusted: rustc MIR construction, the fact extractor, std slice/Write semantics. Requires the std feature. A behaviour-preserving
rewrite of a helper into a different arithmetic shape (e.g. saturating_sub spelled as a branch) is reported; this is accepted."""
TECHNIQUE = "static analysis: decision-table extraction with canonical affine comparisons, term reconstruction and dominance queries over rustc MIR"

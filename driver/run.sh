#!/bin/bash
# usage: run.sh <out.json> [extra cargo args...]   (extracts facts from /repo)
set -e
OUT=$1; shift
T=$(mktemp -d)
trap 'rm -rf "$T"' EXIT
cd /repo
LD_LIBRARY_PATH=$(rustc +nightly --print sysroot)/lib RUSTFLAGS="-Zmir-opt-level=0 -Awarnings" \
RUSTC_WORKSPACE_WRAPPER=/verif/driver/target/release/acverif-driver ACVERIF_OUT=$OUT \
CARGO_NET_OFFLINE=true CARGO_TARGET_DIR=$T/target cargo +nightly check --offline --lib "$@" 2>&1 | tail -30

// Minimal JSON value and writer (no dependencies).
pub enum J {
    Null,
    B(bool),
    I(i128),
    S(String),
    A(Vec<J>),
    O(Vec<(String, J)>),
}

fn esc(s: &str, out: &mut String) {
    out.push('"');
    for c in s.chars() {
        match c {
            '"' => out.push_str("\\\""),
            '\\' => out.push_str("\\\\"),
            '\n' => out.push_str("\\n"),
            '\r' => out.push_str("\\r"),
            '\t' => out.push_str("\\t"),
            c if (c as u32) < 0x20 => out.push_str(&format!("\\u{:04x}", c as u32)),
            c => out.push(c),
        }
    }
    out.push('"');
}

impl J {
    pub fn write(&self, out: &mut String) {
        match self {
            J::Null => out.push_str("null"),
            J::B(b) => out.push_str(if *b { "true" } else { "false" }),
            J::I(i) => out.push_str(&i.to_string()),
            J::S(s) => esc(s, out),
            J::A(v) => {
                out.push('[');
                for (i, x) in v.iter().enumerate() {
                    if i > 0 {
                        out.push(',');
                    }
                    x.write(out);
                }
                out.push(']');
            }
            J::O(v) => {
                out.push('{');
                for (i, (k, x)) in v.iter().enumerate() {
                    if i > 0 {
                        out.push(',');
                    }
                    esc(k, out);
                    out.push(':');
                    x.write(out);
                }
                out.push('}');
            }
        }
    }
}

// acverif-driver: rustc_private fact extractor (engine E1 of /verif/DESIGN.md).
//
// Invoked as RUSTC_WORKSPACE_WRAPPER (argv[1] is the real rustc path) or directly
// with "rustc" as argv[1]. For the crate whose name equals $ACVERIF_CRATE (default
// aho_corasick) it serialises MIR bodies, type information and a type graph to the
// JSON file named by $ACVERIF_OUT. It serialises; it does not judge.
#![feature(rustc_private)]
#![allow(rustc::internal)]

extern crate rustc_abi;
extern crate rustc_data_structures;
extern crate rustc_driver;
extern crate rustc_hir;
extern crate rustc_interface;
extern crate rustc_middle;
extern crate rustc_span;

mod json;

use json::J;
use rustc_driver::Compilation;
use rustc_hir::def::DefKind;
use rustc_hir::def_id::{DefId, LocalDefId, LOCAL_CRATE};
use rustc_middle::mir::{self, *};
use rustc_middle::ty::print::PrintTraitRefExt;
use rustc_middle::ty::{self, Ty, TyCtxt};
use std::collections::{BTreeMap, HashSet};

struct Cb;

impl rustc_driver::Callbacks for Cb {
    fn after_analysis<'tcx>(
        &mut self,
        _c: &rustc_interface::interface::Compiler,
        tcx: TyCtxt<'tcx>,
    ) -> Compilation {
        let want = std::env::var("ACVERIF_CRATE").unwrap_or_else(|_| "aho_corasick".to_string());
        let name = tcx.crate_name(LOCAL_CRATE).to_string();
        if name != want {
            return Compilation::Continue;
        }
        let out = match std::env::var("ACVERIF_OUT") {
            Ok(p) => p,
            Err(_) => return Compilation::Continue,
        };
        let j = dump(tcx, &name);
        let mut s = String::with_capacity(1 << 24);
        j.write(&mut s);
        std::fs::write(&out, s).expect("acverif-driver: cannot write fact file");
        Compilation::Continue
    }
}

fn main() {
    let args: Vec<String> = std::env::args().skip(1).collect();
    rustc_driver::run_compiler(&args, &mut Cb);
}

fn s(x: impl Into<String>) -> J {
    J::S(x.into())
}
fn o(v: Vec<(&str, J)>) -> J {
    J::O(v.into_iter().map(|(k, v)| (k.to_string(), v)).collect())
}

fn loc<'tcx>(tcx: TyCtxt<'tcx>, sp: rustc_span::Span) -> J {
    let sm = tcx.sess.source_map();
    let lo = sm.lookup_char_pos(sp.lo());
    let file = match &lo.file.name {
        rustc_span::FileName::Real(r) => match r.local_path() {
            Some(p) => p.to_string_lossy().to_string(),
            None => format!("{:?}", r),
        },
        other => format!("{:?}", other),
    };
    J::A(vec![s(file), J::I(lo.line as i128), J::B(sp.from_expansion())])
}

fn dpath<'tcx>(tcx: TyCtxt<'tcx>, d: DefId) -> String {
    ty::print::with_no_trimmed_paths!(tcx.def_path_str(d))
}
fn tystr<'tcx>(t: Ty<'tcx>) -> String {
    ty::print::with_no_trimmed_paths!(format!("{}", t))
}

struct Cx<'tcx> {
    tcx: TyCtxt<'tcx>,
    // type graph: type string -> node
    tynodes: BTreeMap<String, J>,
    tyseen: HashSet<Ty<'tcx>>,
    coercions: Vec<J>,
}

fn dump<'tcx>(tcx: TyCtxt<'tcx>, name: &str) -> J {
    let mut cx = Cx { tcx, tynodes: BTreeMap::new(), tyseen: HashSet::new(), coercions: vec![] };
    let mut bodies = vec![];
    for did in tcx.hir_body_owners() {
        let kind = tcx.def_kind(did);
        match kind {
            DefKind::Fn | DefKind::AssocFn | DefKind::Closure => {}
            _ => continue,
        }
        bodies.push(cx.body(did, kind));
    }
    // ADTs, traits, impls, statics, consts
    let mut adts = vec![];
    let mut traits = vec![];
    let mut impls = vec![];
    let mut statics = vec![];
    let mut consts = vec![];
    let items = tcx.hir_crate_items(());
    for ld in items.definitions() {
        let did = ld.to_def_id();
        match tcx.def_kind(did) {
            DefKind::Struct | DefKind::Enum | DefKind::Union => {
                let adt = tcx.adt_def(did);
                let mut variants = vec![];
                for v in adt.variants() {
                    let mut fields = vec![];
                    for f in &v.fields {
                        let fty = tcx.type_of(f.did).instantiate_identity().skip_norm_wip();
                        cx.walk_ty(fty);
                        fields.push(o(vec![
                            ("name", s(f.name.to_string())),
                            ("ty", s(tystr(fty))),
                            ("vis", s(format!("{:?}", f.vis))),
                            ("public", J::B(f.vis.is_public())),
                        ]));
                    }
                    variants.push(o(vec![("name", s(v.name.to_string())), ("explicit_discr", J::B(matches!(v.discr, ty::VariantDiscr::Explicit(_)))), ("fields", J::A(fields))]));
                }
                let selfty = tcx.type_of(did).instantiate_identity().skip_norm_wip();
                cx.walk_ty(selfty);
                adts.push(o(vec![
                    ("path", s(dpath(tcx, did))),
                    ("ty", s(tystr(selfty))),
                    ("kind", s(format!("{:?}", tcx.def_kind(did)))),
                    ("public", J::B(tcx.visibility(did).is_public())),
                    ("variants", J::A(variants)),
                    ("loc", loc(tcx, tcx.def_span(did))),
                ]));
            }
            DefKind::Trait => {
                let sups: Vec<J> = tcx
                    .explicit_super_predicates_of(did)
                    .iter_identity_copied()
                    .map(|u| u.skip_norm_wip())
                    .map(|(p, _)| s(ty::print::with_no_trimmed_paths!(format!("{}", p))))
                    .collect();
                let td = tcx.trait_def(did);
                traits.push(o(vec![
                    ("path", s(dpath(tcx, did))),
                    ("supers", J::A(sups)),
                    ("unsafe", J::B(td.safety.is_unsafe())),
                    ("public", J::B(tcx.visibility(did).is_public())),
                    (
                        "items",
                        J::A(tcx
                            .associated_items(did)
                            .in_definition_order()
                            .map(|it| {
                                o(vec![
                                    ("name", s(it.name().to_string())),
                                    ("kind", s(format!("{:?}", it.tag()))),
                                    ("has_default", J::B(it.defaultness(tcx).has_value())),
                                ])
                            })
                            .collect()),
                    ),
                ]));
            }
            DefKind::Impl { of_trait } => {
                let selfty = tcx.type_of(did).instantiate_identity().skip_norm_wip();
                let (tr, trpath, uns, neg) = if of_trait {
                    let h = tcx.impl_trait_header(did);
                    let tref = h.trait_ref.instantiate_identity().skip_norm_wip();
                    (
                        ty::print::with_no_trimmed_paths!(format!("{}", tref.print_only_trait_path())),
                        dpath(tcx, tref.def_id),
                        h.safety.is_unsafe(),
                        format!("{:?}", h.polarity),
                    )
                } else {
                    (String::new(), String::new(), false, String::new())
                };
                let its: Vec<J> = tcx
                    .associated_items(did)
                    .in_definition_order()
                    .map(|it| s(dpath(tcx, it.def_id)))
                    .collect();
                impls.push(o(vec![
                    ("path", s(dpath(tcx, did))),
                    ("self_ty", s(tystr(selfty))),
                    ("trait", s(tr)),
                    ("trait_path", s(trpath)),
                    ("unsafe", J::B(uns)),
                    ("polarity", s(neg)),
                    ("items", J::A(its)),
                    ("derived", J::B(tcx.is_automatically_derived(did))),
                    ("loc", loc(tcx, tcx.def_span(did))),
                ]));
            }
            DefKind::Static { mutability, nested, .. } => {
                let t = tcx.type_of(did).instantiate_identity().skip_norm_wip();
                cx.walk_ty(t);
                let freeze = t.is_freeze(tcx, ty::TypingEnv::fully_monomorphized());
                let tl = tcx.is_thread_local_static(did);
                statics.push(o(vec![
                    ("path", s(dpath(tcx, did))),
                    ("ty", s(tystr(t))),
                    ("mutable", J::B(mutability.is_mut())),
                    ("nested", J::B(nested)),
                    ("freeze", J::B(freeze)),
                    ("thread_local", J::B(tl)),
                    ("loc", loc(tcx, tcx.def_span(did))),
                ]));
            }
            DefKind::Const { .. } | DefKind::AssocConst { .. } => {
                let t = tcx.type_of(did).instantiate_identity().skip_norm_wip();
                let mut val = J::Null;
                if !tcx.generics_of(did).requires_monomorphization(tcx) && !matches!(tcx.def_kind(tcx.parent(did)), DefKind::Trait) {
                    if let Ok(v) = tcx.const_eval_poly(did) {
                        if let Some(si) = v.try_to_scalar_int() {
                            val = J::I(si.to_bits_unchecked() as i128);
                        }
                    }
                }
                consts.push(o(vec![
                    ("path", s(dpath(tcx, did))),
                    ("ty", s(tystr(t))),
                    ("value", val),
                ]));
            }
            _ => {}
        }
    }
    let Cx { tynodes, coercions, .. } = cx;
    o(vec![
        ("crate", s(name)),
        ("bodies", J::A(bodies)),
        ("adts", J::A(adts)),
        ("traits", J::A(traits)),
        ("impls", J::A(impls)),
        ("statics", J::A(statics)),
        ("consts", J::A(consts)),
        ("coercions", J::A(coercions)),
        ("tygraph", J::O(tynodes.into_iter().collect())),
    ])
}

impl<'tcx> Cx<'tcx> {
    // ---- type graph -------------------------------------------------------
    fn walk_ty(&mut self, t: Ty<'tcx>) {
        if !self.tyseen.insert(t) {
            return;
        }
        let tcx = self.tcx;
        let key = tystr(t);
        let mut children: Vec<(String, Ty<'tcx>)> = vec![];
        let kind;
        let mut extra: Vec<(&str, J)> = vec![];
        match t.kind() {
            ty::Adt(adt, args) => {
                kind = "adt";
                extra.push(("adt", s(dpath(tcx, adt.did()))));
                extra.push(("unsafe_cell", J::B(adt.is_unsafe_cell())));
                extra.push(("local", J::B(adt.did().is_local())));
                for v in adt.variants() {
                    for f in &v.fields {
                        let fty = f.ty(tcx, args);
                        let fty = tcx
                            .try_normalize_erasing_regions(ty::TypingEnv::fully_monomorphized(), ty::Unnormalized::new_wip(fty))
                            .unwrap_or(fty);
                        children.push((format!("{}.{}", v.name, f.name), fty));
                    }
                }
            }
            ty::Ref(_, inner, m) => {
                kind = if m.is_mut() { "refmut" } else { "ref" };
                children.push(("*".into(), *inner));
            }
            ty::RawPtr(inner, m) => {
                kind = if m.is_mut() { "ptrmut" } else { "ptrconst" };
                children.push(("*".into(), *inner));
            }
            ty::Slice(inner) => {
                kind = "slice";
                children.push(("[]".into(), *inner));
            }
            ty::Array(inner, _) => {
                kind = "array";
                children.push(("[]".into(), *inner));
            }
            ty::Tuple(ts) => {
                kind = "tuple";
                for (i, x) in ts.iter().enumerate() {
                    children.push((format!("{}", i), x));
                }
            }
            ty::Dynamic(preds, _) => {
                kind = "dyn";
                if let Some(p) = preds.principal_def_id() {
                    extra.push(("trait", s(dpath(tcx, p))));
                }
            }
            ty::Pat(inner, _) => {
                kind = "pat";
                children.push(("pat".into(), *inner));
            }
            ty::Param(_) => kind = "param",
            ty::FnPtr(..) => kind = "fnptr",
            ty::FnDef(..) => kind = "fndef",
            ty::Closure(..) => kind = "closure",
            ty::Alias(..) => kind = "alias",
            ty::Bool | ty::Char | ty::Int(_) | ty::Uint(_) | ty::Float(_) | ty::Str | ty::Never => kind = "prim",
            _ => kind = "other",
        }
        let ch: Vec<J> = children.iter().map(|(l, c)| J::A(vec![s(l.clone()), s(tystr(*c))])).collect();
        let mut v = vec![("kind", s(kind)), ("children", J::A(ch))];
        v.extend(extra);
        self.tynodes.insert(key, o(v));
        for (_, c) in children {
            self.walk_ty(c);
        }
    }

    // ---- bodies -----------------------------------------------------------
    fn body(&mut self, did: LocalDefId, kind: DefKind) -> J {
        let tcx = self.tcx;
        let def = did.to_def_id();
        let body: &Body<'tcx> = tcx.optimized_mir(def);
        let mut v: Vec<(&str, J)> = vec![];
        v.push(("path", s(dpath(tcx, def))));
        v.push(("kind", s(format!("{:?}", kind))));
        v.push(("loc", loc(tcx, tcx.def_span(def))));
        v.push(("name", s(tcx.item_name(if matches!(kind, DefKind::Closure) { tcx.typeck_root_def_id(def) } else { def }).to_string())));
        let mut is_unsafe = false;
        let mut public = false;
        let mut vis = String::new();
        if matches!(kind, DefKind::Fn | DefKind::AssocFn) {
            let sig = tcx.fn_sig(def).instantiate_identity().skip_norm_wip().skip_binder();
            is_unsafe = sig.safety().is_unsafe();
            let viz = tcx.visibility(def);
            public = viz.is_public();
            vis = format!("{:?}", viz);
            v.push(("inputs", J::A(sig.inputs().iter().map(|t| s(tystr(*t))).collect())));
            v.push(("output", s(tystr(sig.output()))));
            let attrs = tcx.codegen_fn_attrs(def);
            let tf: Vec<J> = attrs.target_features.iter().map(|f| s(f.name.to_string())).collect();
            v.push(("target_features", J::A(tf)));
            v.push(("inline", s(format!("{:?}", attrs.inline))));
        }
        v.push(("unsafe", J::B(is_unsafe)));
        v.push(("public", J::B(public)));
        v.push(("vis", s(vis)));
        // parent impl / trait
        let parent = tcx.parent(def);
        match tcx.def_kind(parent) {
            DefKind::Impl { of_trait } => {
                let selfty = tcx.type_of(parent).instantiate_identity().skip_norm_wip();
                v.push(("impl_self", s(tystr(selfty))));
                v.push(("impl_path", s(dpath(tcx, parent))));
                if of_trait {
                    let tref = tcx.impl_trait_header(parent).trait_ref.instantiate_identity().skip_norm_wip();
                    v.push(("impl_trait", s(dpath(tcx, tref.def_id))));
                    v.push(("impl_trait_full", s(ty::print::with_no_trimmed_paths!(format!("{}", tref.print_only_trait_path())))));
                    v.push(("derived", J::B(tcx.is_automatically_derived(parent))));
                    if let Some(ti) = tcx.associated_item(def).trait_item_def_id() {
                        v.push(("trait_item", s(dpath(tcx, ti))));
                    }
                }
            }
            DefKind::Trait => {
                v.push(("in_trait", s(dpath(tcx, parent))));
            }
            _ => {}
        }
        v.push(("arg_count", J::I(body.arg_count as i128)));
        // locals
        let mut names: BTreeMap<usize, Vec<String>> = BTreeMap::new();
        let mut dbg = vec![];
        for vdi in &body.var_debug_info {
            match &vdi.value {
                VarDebugInfoContents::Place(p) => {
                    if p.projection.is_empty() {
                        names.entry(p.local.as_usize()).or_default().push(vdi.name.to_string());
                    }
                    dbg.push(o(vec![("name", s(vdi.name.to_string())), ("place", self.place(body, *p))]));
                }
                VarDebugInfoContents::Const(c) => {
                    dbg.push(o(vec![("name", s(vdi.name.to_string())), ("const", self.constant(c))]));
                }
            }
        }
        let mut locals = vec![];
        for (l, d) in body.local_decls.iter_enumerated() {
            let nm = names.get(&l.as_usize()).cloned().unwrap_or_default();
            locals.push(o(vec![
                ("ty", s(tystr(d.ty))),
                ("names", J::A(nm.into_iter().map(s).collect())),
                ("mut", J::B(d.mutability.is_mut())),
            ]));
        }
        v.push(("locals", J::A(locals)));
        v.push(("debug", J::A(dbg)));
        // blocks
        let mut blocks = vec![];
        for (_bb, data) in body.basic_blocks.iter_enumerated() {
            let mut stmts = vec![];
            for st in &data.statements {
                match &st.kind {
                    StatementKind::Assign(b) => {
                        let (pl, rv) = &**b;
                        stmts.push(o(vec![
                            ("k", s("assign")),
                            ("p", self.place(body, *pl)),
                            ("r", self.rvalue(body, def, rv, st.source_info.span)),
                            ("loc", loc(tcx, st.source_info.span)),
                        ]));
                    }
                    StatementKind::SetDiscriminant { place, variant_index } => {
                        stmts.push(o(vec![
                            ("k", s("setdiscr")),
                            ("p", self.place(body, **place)),
                            ("variant", J::I(variant_index.as_usize() as i128)),
                            ("loc", loc(tcx, st.source_info.span)),
                        ]));
                    }
                    StatementKind::Intrinsic(i) => {
                        stmts.push(o(vec![
                            ("k", s("intrinsic")),
                            ("text", s(format!("{:?}", i))),
                            ("loc", loc(tcx, st.source_info.span)),
                        ]));
                    }
                    _ => {}
                }
            }
            let term = data.terminator();
            let t = self.terminator(body, def, term);
            blocks.push(o(vec![("cleanup", J::B(data.is_cleanup)), ("stmts", J::A(stmts)), ("term", t)]));
        }
        v.push(("blocks", J::A(blocks)));
        // promoted constants: list the constant operands each promoted body is made of
        let mut proms = vec![];
        for pb in tcx.promoted_mir(def).iter() {
            let mut cs = vec![];
            for data in pb.basic_blocks.iter() {
                for st in &data.statements {
                    if let StatementKind::Assign(b) = &st.kind {
                        let (_, rv) = &**b;
                        let mut ops: Vec<&Operand<'tcx>> = vec![];
                        match rv {
                            Rvalue::Use(op, ..) | Rvalue::Cast(_, op, _) | Rvalue::UnaryOp(_, op) | Rvalue::Repeat(op, _) => ops.push(op),
                            Rvalue::BinaryOp(_, b) => { ops.push(&b.0); ops.push(&b.1); }
                            Rvalue::Aggregate(_, xs) => { for x in xs.iter() { ops.push(x); } }
                            _ => {}
                        }
                        for op in ops {
                            if let Operand::Constant(c) = op {
                                cs.push(self.constant(c));
                            }
                        }
                    }
                }
            }
            proms.push(J::A(cs));
        }
        v.push(("promoted", J::A(proms)));
        // closure captures
        if matches!(kind, DefKind::Closure) {
            let caps: Vec<J> = tcx
                .closure_captures(did)
                .iter()
                .map(|c| o(vec![("name", s(c.to_symbol().to_string())), ("by", s(format!("{:?}", c.info.capture_kind)))]))
                .collect();
            v.push(("captures", J::A(caps)));
        }
        o(v)
    }

    fn place(&mut self, body: &Body<'tcx>, p: Place<'tcx>) -> J {
        let tcx = self.tcx;
        let mut pr = vec![];
        for (base, elem) in p.iter_projections() {
            match elem {
                ProjectionElem::Deref => pr.push(s("*")),
                ProjectionElem::Field(f, fty) => {
                    let pt = base.ty(&body.local_decls, tcx);
                    let (nm, owner) = match pt.ty.kind() {
                        ty::Adt(adt, _) => {
                            let vi = pt.variant_index.unwrap_or(rustc_abi::FIRST_VARIANT);
                            (adt.variant(vi).fields[f].name.to_string(), dpath(tcx, adt.did()))
                        }
                        ty::Closure(cd, _) => {
                            let nm = cd
                                .as_local()
                                .and_then(|l| tcx.closure_captures(l).get(f.as_usize()).map(|c| c.to_symbol().to_string()))
                                .unwrap_or_else(|| format!("{}", f.as_usize()));
                            (nm, "{closure}".to_string())
                        }
                        ty::Tuple(_) => (format!("{}", f.as_usize()), "{tuple}".to_string()),
                        _ => (format!("{}", f.as_usize()), "{?}".to_string()),
                    };
                    pr.push(o(vec![
                        ("f", s(nm)),
                        ("i", J::I(f.as_usize() as i128)),
                        ("of", s(owner)),
                        ("ty", s(tystr(fty))),
                    ]));
                }
                ProjectionElem::Index(l) => pr.push(o(vec![("idx", J::I(l.as_usize() as i128))])),
                ProjectionElem::ConstantIndex { offset, min_length, from_end } => pr.push(o(vec![
                    ("cidx", J::I(offset as i128)),
                    ("min", J::I(min_length as i128)),
                    ("from_end", J::B(from_end)),
                ])),
                ProjectionElem::Subslice { from, to, from_end } => pr.push(o(vec![
                    ("sub", J::A(vec![J::I(from as i128), J::I(to as i128)])),
                    ("from_end", J::B(from_end)),
                ])),
                ProjectionElem::Downcast(name, vi) => pr.push(o(vec![
                    ("dc", s(name.map(|n| n.to_string()).unwrap_or_default())),
                    ("vi", J::I(vi.as_usize() as i128)),
                ])),
                ProjectionElem::OpaqueCast(t) => pr.push(o(vec![("cast", s(tystr(t)))])),
                ProjectionElem::UnwrapUnsafeBinder(t) => pr.push(o(vec![("cast", s(tystr(t)))])),
            }
        }
        o(vec![("l", J::I(p.local.as_usize() as i128)), ("pr", J::A(pr))])
    }

    fn constant(&mut self, c: &ConstOperand<'tcx>) -> J {
        let tcx = self.tcx;
        let t = c.const_.ty();
        let mut v = vec![("k", s("const")), ("ty", s(tystr(t)))];
        let mut defp = J::Null;
        let mut promoted = false;
        match c.const_ {
            mir::Const::Unevaluated(u, _) => {
                if let Some(pi) = u.promoted {
                    promoted = true;
                    v.push(("promoted_idx", J::I(pi.as_usize() as i128)));
                } else {
                    defp = s(ty::print::with_no_trimmed_paths!(tcx.def_path_str_with_args(u.def, u.args)));
                }
            }
            mir::Const::Ty(_, ct) => {
                if let ty::ConstKind::Unevaluated(u) = ct.kind() {
                    defp = s(ty::print::with_no_trimmed_paths!(tcx.def_path_str_with_args(u.def, u.args)));
                } else if let ty::ConstKind::Param(p) = ct.kind() {
                    defp = s(format!("param:{}", p.name));
                }
            }
            mir::Const::Val(..) => {}
        }
        v.push(("def", defp));
        v.push(("promoted", J::B(promoted)));
        let mut val = J::Null;
        if !promoted {
            use rustc_middle::ty::TypeVisitableExt;
            let generic = match c.const_ {
                mir::Const::Unevaluated(u, t) => u.args.has_non_region_param() || t.has_non_region_param(),
                mir::Const::Ty(t, ct) => ct.has_non_region_param() || t.has_non_region_param(),
                mir::Const::Val(..) => false,
            };
            if !generic {
                if let Some(si) = c.const_.try_eval_scalar_int(tcx, ty::TypingEnv::fully_monomorphized()) {
                    val = J::I(si.to_bits_unchecked() as i128);
                }
            }
        }
        v.push(("val", val));
        if let ty::FnDef(d, args) = t.kind() {
            v.push(("fn", s(dpath(tcx, *d))));
            v.push(("fn_args", s(format!("{:?}", args))));
        }
        v.push(("text", s(ty::print::with_no_trimmed_paths!(format!("{}", c.const_)))));
        o(v)
    }

    fn operand(&mut self, body: &Body<'tcx>, op: &Operand<'tcx>) -> J {
        match op {
            Operand::Copy(p) => o(vec![("k", s("copy")), ("p", self.place(body, *p))]),
            Operand::Move(p) => o(vec![("k", s("move")), ("p", self.place(body, *p))]),
            Operand::Constant(c) => self.constant(c),
            #[allow(unreachable_patterns)]
            _ => o(vec![("k", s("other")), ("text", s(format!("{:?}", op)))]),
        }
    }

    fn rvalue(&mut self, body: &Body<'tcx>, owner: DefId, rv: &Rvalue<'tcx>, sp: rustc_span::Span) -> J {
        let tcx = self.tcx;
        match rv {
            Rvalue::Use(op, ..) => o(vec![("k", s("use")), ("a", self.operand(body, op))]),
            Rvalue::Repeat(op, n) => o(vec![("k", s("repeat")), ("a", self.operand(body, op)), ("n", s(format!("{}", n)))]),
            Rvalue::Ref(_, bk, p) => o(vec![
                ("k", s("ref")),
                ("mut", J::B(matches!(bk, BorrowKind::Mut { .. }))),
                ("p", self.place(body, *p)),
            ]),
            Rvalue::RawPtr(m, p) => o(vec![
                ("k", s("rawptr")),
                ("mut", J::B(format!("{:?}", m).contains("Mut"))),
                ("p", self.place(body, *p)),
            ]),
            Rvalue::ThreadLocalRef(d) => o(vec![("k", s("tlsref")), ("def", s(dpath(tcx, *d)))]),
            Rvalue::Cast(ck, op, t) => {
                let from = op.ty(&body.local_decls, tcx);
                let cks = format!("{:?}", ck);
                if cks.contains("Unsize") {
                    // record coercion sites T -> dyn Trait
                    let a = peel(from);
                    let b = peel(*t);
                    if let ty::Dynamic(preds, _) = b.kind() {
                        self.walk_ty(a);
                        self.walk_ty(b);
                        self.coercions.push(o(vec![
                            ("in_fn", s(dpath(tcx, owner))),
                            ("from", s(tystr(a))),
                            ("to", s(tystr(b))),
                            ("trait", s(preds.principal_def_id().map(|d| dpath(tcx, d)).unwrap_or_default())),
                            ("loc", loc(tcx, sp)),
                        ]));
                    }
                }
                o(vec![
                    ("k", s("cast")),
                    ("ck", s(cks)),
                    ("a", self.operand(body, op)),
                    ("from", s(tystr(from))),
                    ("ty", s(tystr(*t))),
                ])
            }
            Rvalue::BinaryOp(op, b) => {
                let (x, y) = &**b;
                o(vec![
                    ("k", s("bin")),
                    ("op", s(format!("{:?}", op))),
                    ("a", self.operand(body, x)),
                    ("b", self.operand(body, y)),
                ])
            }
            Rvalue::UnaryOp(op, x) => o(vec![("k", s("un")), ("op", s(format!("{:?}", op))), ("a", self.operand(body, x))]),
            Rvalue::Discriminant(p) => {
                let pt = p.ty(&body.local_decls, tcx).ty;
                o(vec![("k", s("discr")), ("p", self.place(body, *p)), ("of", s(tystr(pt)))])
            }
            Rvalue::Aggregate(ak, ops) => {
                let mut v = vec![("k", s("agg"))];
                match &**ak {
                    AggregateKind::Adt(d, vi, _, _, _) => {
                        let adt = tcx.adt_def(*d);
                        let var = adt.variant(*vi);
                        v.push(("agg", s("adt")));
                        v.push(("adt", s(dpath(tcx, *d))));
                        v.push(("variant", s(var.name.to_string())));
                        v.push(("fields", J::A(var.fields.iter().map(|f| s(f.name.to_string())).collect())));
                    }
                    AggregateKind::Tuple => v.push(("agg", s("tuple"))),
                    AggregateKind::Array(_) => v.push(("agg", s("array"))),
                    AggregateKind::Closure(d, _) => {
                        v.push(("agg", s("closure")));
                        v.push(("closure", s(dpath(tcx, *d))));
                    }
                    AggregateKind::RawPtr(_, m) => {
                        v.push(("agg", s("rawptr")));
                        v.push(("mut", J::B(m.is_mut())));
                    }
                    other => v.push(("agg", s(format!("{:?}", other)))),
                }
                let ops: Vec<J> = ops.iter().map(|x| self.operand(body, x)).collect();
                v.push(("ops", J::A(ops)));
                o(v)
            }
            Rvalue::CopyForDeref(p) => o(vec![("k", s("use")), ("a", o(vec![("k", s("copy")), ("p", self.place(body, *p))]))]),
            other => o(vec![("k", s("other")), ("text", s(format!("{:?}", other)))]),
        }
    }

    fn terminator(&mut self, body: &Body<'tcx>, owner: DefId, term: &Terminator<'tcx>) -> J {
        let tcx = self.tcx;
        let sp = term.source_info.span;
        let bbn = |b: BasicBlock| J::I(b.as_usize() as i128);
        let unwind_target = |u: &UnwindAction| match u {
            UnwindAction::Cleanup(b) => J::I(b.as_usize() as i128),
            _ => J::Null,
        };
        let mut v: Vec<(&str, J)> = vec![];
        match &term.kind {
            TerminatorKind::Goto { target } => {
                v.push(("k", s("goto")));
                v.push(("target", bbn(*target)));
            }
            TerminatorKind::SwitchInt { discr, targets } => {
                v.push(("k", s("switch")));
                v.push(("discr", self.operand(body, discr)));
                v.push(("discr_ty", s(tystr(discr.ty(&body.local_decls, tcx)))));
                let arms: Vec<J> = targets.iter().map(|(val, t)| J::A(vec![J::I(val as i128), bbn(t)])).collect();
                v.push(("arms", J::A(arms)));
                v.push(("otherwise", bbn(targets.otherwise())));
            }
            TerminatorKind::Return => v.push(("k", s("return"))),
            TerminatorKind::Unreachable => v.push(("k", s("unreachable"))),
            TerminatorKind::UnwindResume => v.push(("k", s("resume"))),
            TerminatorKind::UnwindTerminate(_) => v.push(("k", s("terminate"))),
            TerminatorKind::Drop { place, target, unwind, .. } => {
                v.push(("k", s("drop")));
                v.push(("p", self.place(body, *place)));
                v.push(("target", bbn(*target)));
                v.push(("unwind", unwind_target(unwind)));
            }
            TerminatorKind::Assert { cond, expected, msg, target, unwind } => {
                v.push(("k", s("assert")));
                v.push(("cond", self.operand(body, cond)));
                v.push(("expected", J::B(*expected)));
                let mk = match &**msg {
                    AssertKind::BoundsCheck { .. } => "bounds".to_string(),
                    AssertKind::Overflow(op, ..) => format!("overflow:{:?}", op),
                    AssertKind::OverflowNeg(_) => "overflow:Neg".to_string(),
                    AssertKind::DivisionByZero(_) => "divzero".to_string(),
                    AssertKind::RemainderByZero(_) => "remzero".to_string(),
                    other => format!("{:?}", std::mem::discriminant(other)),
                };
                v.push(("msg", s(mk)));
                if let AssertKind::BoundsCheck { len, index } = &**msg {
                    v.push(("len", self.operand(body, len)));
                    v.push(("index", self.operand(body, index)));
                }
                v.push(("target", bbn(*target)));
                v.push(("unwind", unwind_target(unwind)));
            }
            TerminatorKind::Call { func, args, destination, target, unwind, .. } => {
                v.push(("k", s("call")));
                let fty = func.ty(&body.local_decls, tcx);
                let mut callee: Vec<(&str, J)> = vec![];
                match fty.kind() {
                    ty::FnDef(d, gargs) => {
                        callee.push(("path", s(dpath(tcx, *d))));
                        callee.push(("full", s(ty::print::with_no_trimmed_paths!(tcx.def_path_str_with_args(*d, gargs)))));
                        callee.push(("gargs", J::A(gargs.iter().map(|a| s(ty::print::with_no_trimmed_paths!(format!("{}", a)))).collect())));
                        callee.push(("local", J::B(d.is_local())));
                        callee.push(("name", s(tcx.item_name(*d).to_string())));
                        if matches!(tcx.def_kind(*d), DefKind::Fn | DefKind::AssocFn) {
                            let sig = tcx.fn_sig(*d).instantiate(tcx, gargs).skip_norm_wip().skip_binder();
                            callee.push(("unsafe", J::B(sig.safety().is_unsafe())));
                            callee.push(("output", s(tystr(sig.output()))));
                            callee.push(("abi", s(format!("{:?}", sig.abi()))));
                        }
                        let par = tcx.parent(*d);
                        if matches!(tcx.def_kind(par), DefKind::Trait) {
                            callee.push(("trait", s(dpath(tcx, par))));
                            if let Some(a0) = gargs.types().next() {
                                callee.push(("self_ty", s(tystr(a0))));
                            }
                        } else if matches!(tcx.def_kind(par), DefKind::Impl { .. }) {
                            let st = tcx.type_of(par).instantiate(tcx, gargs).skip_norm_wip();
                            callee.push(("self_ty", s(tystr(st))));
                        }
                        let env = ty::TypingEnv::post_analysis(tcx, owner);
                        if let Ok(Some(inst)) = ty::Instance::try_resolve(tcx, env, *d, gargs) {
                            let rd = inst.def_id();
                            if rd != *d {
                                callee.push(("resolved", s(dpath(tcx, rd))));
                                callee.push(("resolved_local", J::B(rd.is_local())));
                            }
                            if let ty::InstanceKind::Intrinsic(_) = inst.def {
                                callee.push(("intrinsic", J::B(true)));
                            }
                        }
                    }
                    _ => {
                        callee.push(("indirect", self.operand(body, func)));
                        callee.push(("fn_ty", s(tystr(fty))));
                    }
                }
                v.push(("callee", o(callee)));
                let a: Vec<J> = args.iter().map(|x| self.operand(body, &x.node)).collect();
                v.push(("args", J::A(a)));
                v.push(("dest", self.place(body, *destination)));
                v.push(("target", target.map(|t| bbn(t)).unwrap_or(J::Null)));
                v.push(("unwind", unwind_target(unwind)));
            }
            TerminatorKind::InlineAsm { .. } => v.push(("k", s("asm"))),
            other => {
                v.push(("k", s("other")));
                v.push(("text", s(format!("{:?}", other))));
            }
        }
        v.push(("loc", loc(tcx, sp)));
        o(v)
    }
}

fn peel<'tcx>(t: Ty<'tcx>) -> Ty<'tcx> {
    match t.kind() {
        ty::Ref(_, i, _) => *i,
        ty::RawPtr(i, _) => *i,
        ty::Adt(adt, args) if adt.is_box() || args.len() >= 1 => {
            // Box<T>, Arc<T>, Rc<T>: first type argument
            match args.types().next() {
                Some(a) => a,
                None => t,
            }
        }
        _ => t,
    }
}

// Positive control for the C17 rule set: every construct below must be reported by its rule.
// Compiled with the fact extractor on every C17 run (never executed).
use std::cell::Cell;
use std::sync::atomic::{AtomicUsize, Ordering};
use std::sync::Arc;

pub static COUNTER: AtomicUsize = AtomicUsize::new(0); // R17.3: static that is not Freeze
pub static mut RAW: usize = 0; // R17.3: static mut
thread_local! { static TL: Cell<usize> = Cell::new(0); } // R17.3: thread local

pub trait Engine: Send + Sync {
    fn run(&self, h: &[u8]) -> usize;
}

pub struct Hidden {
    hits: Cell<usize>, // R17.2: interior mutability behind &self
}
unsafe impl Sync for Hidden {} // R17.5
impl Engine for Hidden {
    fn run(&self, h: &[u8]) -> usize {
        self.hits.set(self.hits.get() + 1);
        h.len() + self.hits.get()
    }
}

pub struct Searcher {
    eng: Arc<dyn Engine>,
}

impl Searcher {
    pub fn new() -> Searcher {
        Searcher { eng: Arc::new(Hidden { hits: Cell::new(0) }) }
    }
    pub fn find(&self, h: &[u8]) -> usize {
        COUNTER.fetch_add(1, Ordering::Relaxed);
        TL.with(|c| c.set(c.get() + 1));
        self.eng.run(h)
    }
    pub fn find_mut(&mut self, h: &[u8]) -> usize {
        // R17.1: a search method with a &mut self receiver
        h.len()
    }
    pub fn poke(&self, h: &[u8]) -> usize {
        // R17.4: write through a raw pointer obtained from a shared reference
        let p = h.as_ptr() as *mut u8;
        unsafe {
            *p = 0;
            std::ptr::write(p, 1);
        }
        // R17.7: address-dependent value
        (h.as_ptr() as usize) % 7
    }
}

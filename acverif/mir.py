"""E2/E3: CFG queries and term reconstruction over the JSON fact base.

Terms are nested tuples rebuilt from MIR temporaries (no execution, no solver):
  ('c', int)                      integer / bool literal
  ('k', path, val)                named constant (val may be None)
  ('s', text)                     other literal (strings, fn items)
  ('v', name, local)              user variable or parameter (multi-def or named local)
  ('t', n)                        unnamed temporary with several definitions (phi)
  ('f', base, field)              field projection (refs and derefs are transparent)
  ('idx', base, index)            indexing
  ('dc', base, variant)           enum downcast
  ('call', path, [args], block)   call result
  ('op', Op, a, b) / ('un', Op, a)
  ('cast', kind, a, ty)
  ('agg', what, variant, {field: term} | [terms])
  ('discr', a)
  ('len', a)
  ('try', a)                      payload of `a?`
  ('slice', base, from, to)       subslice pattern
"""
import json
import os
import re

MAXDEPTH = 40


def short(path):
    """Strip generic decorations from a def path: `util::search::Input::<'h>::start` -> `util::search::Input::start`."""
    out = []
    depth = 0
    i = 0
    while i < len(path):
        ch = path[i]
        if ch == '<':
            if depth == 0 and out[-2:] == [':', ':']:
                out = out[:-2]
            depth += 1
        elif ch == '>' and (i == 0 or path[i - 1] != '-'):
            depth -= 1
        elif depth == 0:
            out.append(ch)
        i += 1
    return ''.join(out)


class Edge(tuple):
    """CFG edge (from, to); `cond` = block of the definition of the switched boolean that this edge is conditional on
    (None = unconditional). Compares equal to the plain tuple, unpacks as two values."""
    def __new__(cls, a, b, cond=None):
        e = super().__new__(cls, (a, b))
        e.cond = cond
        return e


class Body:
    def __init__(self, j, facts):
        self.j = j
        self.facts = facts
        self.path = j['path']
        self.blocks = j['blocks']
        self.locals = j['locals']
        self.n = len(self.blocks)
        self.file = j['loc'][0]
        self.line = j['loc'][1]
        self._succ = None
        self._pred = None
        self._dom = None
        self._defs = None
        self._termcache = {}

    def __repr__(self):
        return 'Body(%s)' % self.path

    # ---------------------------------------------------------------- CFG
    def term(self, b):
        return self.blocks[b]['term']

    def edges(self, b):
        """Normal-flow out edges of block b as (label, target). Unwind edges are ignored."""
        t = self.blocks[b]['term']
        k = t['k']
        if k == 'goto':
            return [('goto', t['target'])]
        if k == 'switch':
            d = t['discr']
            if d['k'] in ('copy', 'move') and not d['p']['pr']:
                # `_n = const C; switchInt(move _n)` within the same block
                for st in reversed(self.blocks[b]['stmts']):
                    if st['k'] == 'assign' and st['p']['l'] == d['p']['l'] and not st['p']['pr']:
                        if st['r']['k'] == 'use' and st['r']['a']['k'] == 'const':
                            d = st['r']['a']
                        break
            if d['k'] == 'const' and d.get('val') is not None:
                # a switch on a literal (cfg!(debug_assertions), `&& false`): only the matching edge is feasible
                for v, tg in t['arms']:
                    if v == d['val']:
                        return [(v, tg)]
                return [('otherwise', t['otherwise'])]
            e = [(v, tg) for v, tg in t['arms']]
            e.append(('otherwise', t['otherwise']))
            return e
        if k in ('drop', 'assert'):
            return [(k, t['target'])]
        if k == 'call':
            return [('ret', t['target'])] if t['target'] is not None else []
        if k == 'other':
            m = re.findall(r'bb(\d+)', t.get('text', ''))
            # FalseEdge / FalseUnwind do not survive to optimized MIR; keep first target if any
            return [('other', int(m[0]))] if m else []
        return []

    def succ(self, b):
        if self._succ is None:
            self._succ = [[tg for _, tg in self.edges(i)] for i in range(self.n)]
        return self._succ[b]

    def pred(self, b):
        if self._pred is None:
            p = [[] for _ in range(self.n)]
            for i in range(self.n):
                for s in self.succ(i):
                    p[s].append(i)
            self._pred = p
        return self._pred[b]

    def _bool_locals(self):
        if getattr(self, '_bl', None) is None:
            self._bl = {i for i, l in enumerate(self.locals) if l['ty'] == 'bool'}
        return self._bl

    def _flow_block(self, b, env):
        """Propagate known boolean constants through block b; returns (env_after, feasible successor list)."""
        bl = self._bool_locals()
        env = dict(env)
        blk = self.blocks[b]
        for st in blk['stmts']:
            if st['k'] != 'assign' or st['p']['pr']:
                continue
            l = st['p']['l']
            if l not in bl:
                continue
            r = st['r']
            v = None
            if r['k'] == 'use':
                a = r['a']
                if a['k'] == 'const' and a.get('val') is not None:
                    v = a['val']
                elif a['k'] in ('copy', 'move') and not a['p']['pr'] and a['p']['l'] in env:
                    v = env[a['p']['l']]
            elif r['k'] == 'un' and r['op'] == 'Not' and r['a']['k'] in ('copy', 'move') and not r['a']['p']['pr'] and r['a']['p']['l'] in env:
                v = 0 if env[r['a']['p']['l']] else 1
            if v is None:
                env[l] = ('d', b)
            else:
                env[l] = v
        t = blk['term']
        if t['k'] == 'call' and not t['dest']['pr']:
            if t['dest']['l'] in bl:
                env[t['dest']['l']] = ('d', b)
            else:
                env.pop(t['dest']['l'], None)
        succs = [tg for _, tg in self.edges(b)]
        origin = None
        if t['k'] == 'switch' and t['discr']['k'] in ('copy', 'move') and not t['discr']['p']['pr'] and t['discr']['p']['l'] in env:
            v = env[t['discr']['p']['l']]
            if isinstance(v, tuple):
                origin = v[1]
            else:
                hit = [tg for val, tg in t['arms'] if val == v]
                succs = hit[:1] if hit else [t['otherwise']]
        return env, succs, origin

    def reach(self, src, cut_edges=(), cut_blocks=(), fwd=True):
        """Blocks reachable from src (a block or iterable of blocks). cut_edges: set of (from, to);
        cut_blocks: blocks that may not be *passed through* (they can be reached, not left).
        Forward reachability is path-sensitive for boolean locals that were assigned literals on the path
        (`_r = const true; …; switchInt(_r)`), which only removes infeasible paths."""
        cond_cuts = {}
        plain = set()
        for e in cut_edges:
            c = getattr(e, 'cond', None)
            if c is None:
                plain.add((e[0], e[1]))
            else:
                cond_cuts.setdefault((e[0], e[1]), set()).add(c)
        cut_edges = plain
        cut_blocks = set(cut_blocks)
        if isinstance(src, int):
            src = [src]
        if fwd:
            seen_states = set()
            seen = set(src)
            st = [(b, ()) for b in src]
            while st:
                b, envk = st.pop()
                if (b, envk) in seen_states:
                    continue
                seen_states.add((b, envk))
                if b in cut_blocks:
                    continue
                env, succs, origin = self._flow_block(b, dict(envk))
                ek = tuple(sorted(env.items(), key=lambda kv: kv[0]))
                for s in succs:
                    if (b, s) in cut_edges:
                        continue
                    if origin is not None and origin in cond_cuts.get((b, s), ()):
                        continue
                    seen.add(s)
                    if (s, ek) not in seen_states:
                        st.append((s, ek))
            return seen
        seen = set(src)
        st = list(src)
        while st:
            b = st.pop()
            if b in cut_blocks:
                continue
            nxt = self.succ(b) if fwd else self.pred(b)
            for s in nxt:
                e = (b, s) if fwd else (s, b)
                if e in cut_edges:
                    continue
                if not fwd and s in cut_blocks:
                    # going backward: cannot pass through s, but s is a predecessor reached
                    seen.add(s)
                    continue
                if s not in seen:
                    seen.add(s)
                    st.append(s)
        return seen

    def reach_after(self, b, cut_edges=(), cut_blocks=()):
        """Blocks reachable by leaving block b (b itself only if on a cycle)."""
        out = set()
        ce = set(cut_edges)
        for s in self.succ(b):
            if (b, s) in ce:
                continue
            out |= self.reach(s, cut_edges, cut_blocks)
        return out

    def dominators(self):
        if self._dom is None:
            # iterative set-based dominators over normal-flow CFG from block 0
            reach = self.reach(0)
            allb = set(reach)
            dom = {b: set(allb) for b in reach}
            dom[0] = {0}
            order = sorted(reach)
            changed = True
            while changed:
                changed = False
                for b in order:
                    if b == 0:
                        continue
                    ps = [p for p in self.pred(b) if p in reach]
                    new = set(allb)
                    for p in ps:
                        new &= dom[p]
                    new.add(b)
                    if new != dom[b]:
                        dom[b] = new
                        changed = True
            self._dom = dom
        return self._dom

    def dominates(self, a, b):
        d = self.dominators()
        return b in d and a in d[b]

    def back_edges(self):
        d = self.dominators()
        out = []
        for b in d:
            for s in self.succ(b):
                if s in d[b]:
                    out.append((b, s))
        return out

    def loops(self):
        """Natural loops: {header: set(blocks)}"""
        res = {}
        for (t, h) in self.back_edges():
            body = {h, t}
            st = [t]
            while st:
                x = st.pop()
                if x == h:
                    continue
                for p in self.pred(x):
                    if p not in body and p in self.dominators():
                        body.add(p)
                        st.append(p)
            res.setdefault(h, set()).update(body)
        return res

    def return_blocks(self):
        return [i for i in range(self.n) if self.blocks[i]['term']['k'] == 'return' and not self.blocks[i]['cleanup']]

    def live_blocks(self):
        return self.reach(0)

    # ------------------------------------------------------------ queries
    def calls(self, pat=None, name=None):
        """[(block, term)] for call terminators whose callee path (or resolved path) matches regex pat / name."""
        out = []
        live = self.live_blocks()
        for i in range(self.n):
            if i not in live:
                continue
            t = self.blocks[i]['term']
            if t['k'] != 'call':
                continue
            c = t['callee']
            p = c.get('path', '')
            if name is not None and c.get('name') != name:
                continue
            if pat is not None and not (re.search(pat, p) or re.search(pat, short(p)) or re.search(pat, c.get('resolved', ''))
                                        or re.search(pat, short(c.get('resolved', ''))) or re.search(pat, c.get('full', ''))):
                continue
            out.append((i, t))
        return out

    def local_names(self, l):
        return self.locals[l]['names']

    def locals_named(self, name):
        return [i for i, l in enumerate(self.locals) if name in l['names']]

    def defs(self):
        """local -> list of (block, stmt_index|'term', kind, payload) for whole-local definitions;
        partial (projected) writes are recorded under key ('proj', local)."""
        if self._defs is None:
            d = {}
            live = self.live_blocks()
            for bi in range(self.n):
                if bi not in live:
                    continue
                blk = self.blocks[bi]
                for si, st in enumerate(blk['stmts']):
                    if st['k'] == 'assign':
                        p = st['p']
                        key = p['l'] if not p['pr'] else ('proj', p['l'])
                        d.setdefault(key, []).append((bi, si, 'assign', st))
                    elif st['k'] == 'setdiscr':
                        d.setdefault(('proj', st['p']['l']), []).append((bi, si, 'setdiscr', st))
                t = blk['term']
                if t['k'] == 'call':
                    p = t['dest']
                    key = p['l'] if not p['pr'] else ('proj', p['l'])
                    d.setdefault(key, []).append((bi, 'term', 'call', t))
            self._defs = d
        return self._defs

    def stores(self, pred=None):
        """All assignments (including call destinations) as (block, idx, place, stmt_or_term)."""
        out = []
        live = self.live_blocks()
        for bi in range(self.n):
            if bi not in live:
                continue
            blk = self.blocks[bi]
            for si, st in enumerate(blk['stmts']):
                if st['k'] == 'assign':
                    if pred is None or pred(st['p']):
                        out.append((bi, si, st['p'], st))
            t = blk['term']
            if t['k'] == 'call':
                if pred is None or pred(t['dest']):
                    out.append((bi, 'term', t['dest'], t))
        return out

    def store_term(self, p):
        """Term naming the memory written by an assignment to place p: None for a plain local definition,
        otherwise the projected term (pointer bases are expanded through their definitions)."""
        if not p['pr']:
            return None
        l = p['l']
        names = self.locals[l]['names']
        if p['pr'][0] == '*':
            base = self._referent(l)
        else:
            base = ('v', names[0], l) if names else ('t', l)
        return self.project(base, p['pr'], resolve_refs=True)

    def _referent(self, l, depth=0):
        """the memory a reference-typed local points to: a named `let r = &mut self.x;` is the place self.x when it is the only
        definition of r (a store through *r is a store to self.x)"""
        base = self.local_term(l)
        if depth > 4 or not (isinstance(base, tuple) and base[0] == 'v' and base[2] == l and not (1 <= l <= self.j['arg_count'])):
            return base
        if not str(self.locals[l]['ty']).startswith('&'):
            return base
        ds = self.defs().get(l, [])
        if len(ds) != 1:
            return base
        st = ds[0][3] if len(ds[0]) > 3 else None
        if not isinstance(st, dict) or st.get('k') != 'assign':
            return base
        r = st['r']
        if r.get('k') == 'ref':
            q = r['p']
            if q['pr'] and q['pr'][0] == '*':
                return self.project(self._referent(q['l'], depth + 1), q['pr'])
            return self.place_term(q)
        if r.get('k') == 'use' and r['a'].get('k') in ('copy', 'move'):
            if not r['a']['p']['pr']:
                return self._referent(r['a']['p']['l'], depth + 1)
            # e.g. `let (a, b) = (&mut self.x, &mut self.y);`: the component of a locally built tuple
            t = self.place_term(r['a']['p'])
            if isinstance(t, tuple) and t[0] == 'v' and isinstance(t[2], int) and t[2] != l:
                return self._referent(t[2], depth + 1)
            if isinstance(t, tuple) and t[0] in ('f', 'idx', 'v'):
                return t
        return base

    def field_stores(self):
        """[(block, idx, target_term, value_term_or_None, stmt)] for every store through a projection."""
        out = []
        for bi, si, pl, st in self.stores():
            tt = self.store_term(pl)
            if tt is None:
                continue
            if si == 'term':
                val = self.call_term(bi, st)
            else:
                val = self.rvalue_term(st['r'], 0, bi)
            out.append((bi, si, tt, val, st))
        return out

    # ------------------------------------------------------------- terms
    def place_term(self, p, depth=0, at=None, expand=False):
        base = self.local_term(p['l'], depth, at, expand)
        return self.project(base, p['pr'], depth, at, expand)

    def project(self, base, prs, depth=0, at=None, expand=False, resolve_refs=False):
        t = base
        for pr in prs:
            if pr == '*':
                if isinstance(t, tuple) and t[0] == 'v' and isinstance(t[2], int):
                    t = self._referent(t[2])
                continue
            if 'f' in pr:
                f = pr['f']
                # checked arithmetic tuples: (.0) is the value
                if t[0] == 'op' and t[1].endswith('WithOverflow'):
                    if f == '0':
                        t = ('op', t[1][:-len('WithOverflow')], t[2], t[3])
                    else:
                        t = ('ovf', t)
                    continue
                if t[0] == 'dc' and t[1][0] == 'call' and short(t[1][1]).endswith('Try::branch') and t[2] == 'Continue':
                    t = ('try', t[1][2][0])
                    continue
                if t[0] == 'agg' and isinstance(t[3], dict) and f in t[3]:
                    t = t[3][f]
                    continue
                if t[0] == 'agg' and isinstance(t[3], list) and f.isdigit() and int(f) < len(t[3]) and t[1] == 'tuple':
                    t = t[3][int(f)]
                    continue
                if t[0] == 'agg' and t[1] == 'closure' and isinstance(t[3], list) and pr.get('i') is not None and pr['i'] < len(t[3]):
                    t = t[3][pr['i']]
                    continue
                t = ('f', t, f)
            elif 'idx' in pr:
                t = ('idx', t, self.local_term(pr['idx'], depth + 1, at, expand))
            elif 'cidx' in pr:
                t = ('idx', t, ('c', pr['cidx']) if not pr['from_end'] else ('fromend', pr['cidx']))
            elif 'sub' in pr:
                t = ('slice', t, ('c', pr['sub'][0]), ('c', pr['sub'][1]) if not pr['from_end'] else ('fromend', pr['sub'][1]))
            elif 'dc' in pr:
                t = ('dc', t, pr['dc'])
            elif 'cast' in pr:
                pass
        return t

    def local_term(self, l, depth=0, at=None, expand=False):
        names = self.locals[l]['names']
        defs = self.defs().get(l, [])
        isparam = 1 <= l <= self.j['arg_count']
        if isparam:
            return ('v', names[0] if names else '_%d' % l, l)
        if names and not (expand and len(defs) == 1 and not self.defs().get(('proj', l))):
            return ('v', names[0], l)
        if depth > MAXDEPTH:
            return ('t', l)
        if len(defs) == 1:
            key = (l, expand)
            if key in self._termcache:
                return self._termcache[key]
            bi, si, kind, obj = defs[0]
            if kind == 'call':
                t = self.call_term(bi, obj, depth + 1, expand)
            else:
                t = self.rvalue_term(obj['r'], depth + 1, bi, expand)
            self._termcache[key] = t
            return t
        if len(defs) == 0:
            if l == 0:
                return ('v', '_0', 0)
            return ('t', l)
        # several definitions: if all reconstruct to the same term, use it
        ts = []
        for bi, si, kind, obj in defs:
            if kind == 'call':
                ts.append(self.call_term(bi, obj, depth + 1, expand, noblock=True))
            else:
                ts.append(self.rvalue_term(obj['r'], depth + 1, bi, expand))
        if all(x == ts[0] for x in ts) and ts[0][0] != 'call':
            return ts[0]
        return ('t', l)

    def def_term(self, l):
        """Term of the single whole definition of local l (names of other locals preserved), or None."""
        ds = self.defs().get(l, [])
        if len(ds) != 1 or self.defs().get(('proj', l)):
            return None
        bi, si, kind, obj = ds[0]
        if kind == 'call':
            return self.call_term(bi, obj)
        return self.rvalue_term(obj['r'], 0, bi)

    def call_term(self, bi, t, depth=0, expand=False, noblock=False):
        c = t['callee']
        path = c.get('resolved') or c.get('path') or 'indirect'
        args = [self.operand_term(a, depth + 1, bi, expand) for a in t['args']]
        if 'indirect' in c:
            path = 'indirect'
            args = [self.operand_term(c['indirect'], depth + 1, bi, expand)] + args
        sp = short(c.get('path', ''))
        # transparent conversions
        if sp in ('core::convert::Into::into', 'core::convert::From::from', 'core::convert::AsRef::as_ref',
                  'core::ops::Deref::deref', 'core::ops::DerefMut::deref_mut', 'core::borrow::Borrow::borrow',
                  'core::clone::Clone::clone', 'core::iter::IntoIterator::into_iter') and len(args) == 1:
            return ('conv', sp.rsplit('::', 1)[1], args[0])
        return ('call', c.get('path', 'indirect'), args, None if noblock else bi)

    def op_ty(self, op):
        if op['k'] in ('copy', 'move'):
            p = op['p']
            if not p['pr']:
                return self.locals[p['l']]['ty']
            last = p['pr'][-1]
            if isinstance(last, dict) and 'ty' in last:
                return last['ty']
            return '?'
        return op.get('ty', '?')

    def operand_term(self, op, depth=0, at=None, expand=False):
        k = op['k']
        if k in ('copy', 'move'):
            return self.place_term(op['p'], depth, at, expand)
        if k == 'const':
            if op.get('fn'):
                return ('s', 'fn:' + op['fn'])
            if op.get('promoted') and 'promoted_idx' in op:
                cs = self.j.get('promoted', [])
                pi = op['promoted_idx']
                if pi < len(cs) and len(cs[pi]) == 1:
                    return self.operand_term(cs[pi][0], depth + 1, at, expand)
                if pi < len(cs) and len(cs[pi]) > 1:
                    return ('agg', 'promoted', '', [self.operand_term(c, depth + 1, at, expand) for c in cs[pi]])
            if op.get('def'):
                return ('k', op['def'], op.get('val'))
            if op.get('val') is not None and not op['ty'].startswith('&'):
                return ('c', op['val'])
            return ('s', op.get('text', ''))
        return ('s', op.get('text', '?'))

    def rvalue_term(self, r, depth=0, at=None, expand=False):
        k = r['k']
        if k == 'use':
            return self.operand_term(r['a'], depth, at, expand)
        if k in ('ref', 'rawptr'):
            return self.place_term(r['p'], depth, at, expand)
        if k == 'bin':
            return ('op', r['op'], self.operand_term(r['a'], depth, at, expand), self.operand_term(r['b'], depth, at, expand))
        if k == 'un':
            a = self.operand_term(r['a'], depth, at, expand)
            if r['op'] == 'PtrMetadata':
                return ('len', a)
            if r['op'] == 'Not' and self.op_ty(r['a']) not in ('bool', '?'):
                return ('un', 'BitNot', a)
            return ('un', r['op'], a)
        if k == 'cast':
            a = self.operand_term(r['a'], depth, at, expand)
            ck = r['ck']
            if 'Unsize' in ck or 'Transmute' in ck and r['from'] == r['ty']:
                return a
            if 'PtrToPtr' in ck or 'ReifyFnPointer' in ck or 'ClosureFnPointer' in ck or 'MutToConstPointer' in ck:
                return a
            return ('cast', ck, a, r['ty'])
        if k == 'discr':
            return ('discr', self.place_term(r['p'], depth, at, expand))
        if k == 'agg':
            ops = [self.operand_term(x, depth, at, expand) for x in r['ops']]
            if r['agg'] == 'adt':
                fields = r['fields']
                if len(fields) == len(ops):
                    return ('agg', r['adt'], r['variant'], dict(zip(fields, ops)))
                return ('agg', r['adt'], r['variant'], ops)
            if r['agg'] == 'closure':
                return ('agg', 'closure', r['closure'], ops)
            return ('agg', r['agg'], '', ops)
        if k == 'repeat':
            return ('repeat', self.operand_term(r['a'], depth, at, expand), r['n'])
        if k == 'tlsref':
            return ('tls', r['def'])
        return ('s', r.get('text', k))

    # --------------------------------------------------------- conditions
    def switch_cond(self, b):
        """For a switch block: (term, true_targets, false_targets) with boolean normalisation, or
        (term, arms) for integer / discriminant switches (kind 'int')."""
        t = self.blocks[b]['term']
        if t['k'] != 'switch':
            return None
        term = self.operand_term(t['discr'], 0, b)
        if t['discr_ty'] == 'bool':
            f = [tg for v, tg in t['arms'] if v == 0]
            tr = [tg for v, tg in t['arms'] if v != 0]
            if f:
                tr.append(t['otherwise'])
            else:
                f.append(t['otherwise'])
            neg = False
            while term[0] == 'un' and term[1] == 'Not':
                term = term[2]
                neg = not neg
            if neg:
                tr, f = f, tr
            return ('bool', term, tr, f)
        return ('int', term, list(t['arms']), t['otherwise'])

    def switch_discr_type(self, b):
        """Type of the place whose discriminant a switch tests (None if the switch is not on a discriminant)."""
        t = self.blocks[b]['term']
        if t['k'] != 'switch' or t['discr']['k'] not in ('copy', 'move') or t['discr']['p']['pr']:
            return None
        ds = self.defs().get(t['discr']['p']['l'], [])
        for db, si, kind, obj in ds:
            if kind == 'assign' and obj['r']['k'] == 'discr':
                return obj['r']['of']
        return None

    def switch_root(self, b):
        """For a switch on a boolean local: follow single-definition copies back to the local that carries the value.
        Returns (root_local, negated) or None."""
        t = self.blocks[b]['term']
        if t['k'] != 'switch' or t['discr']['k'] not in ('copy', 'move') or t['discr']['p']['pr']:
            return None
        l = t['discr']['p']['l']
        neg = False
        for _ in range(20):
            ds = self.defs().get(l, [])
            if len(ds) != 1 or ds[0][2] != 'assign':
                break
            r = ds[0][3]['r']
            if r['k'] == 'use' and r['a']['k'] in ('copy', 'move') and not r['a']['p']['pr']:
                l = r['a']['p']['l']
                continue
            if r['k'] == 'un' and r['op'] == 'Not' and r['a']['k'] in ('copy', 'move') and not r['a']['p']['pr']:
                l = r['a']['p']['l']
                neg = not neg
                continue
            break
        return l, neg

    def virtual_conds(self, b):
        """For a switch on a boolean local with several definitions: [(def_block, cond_term, true_edges, false_edges)] —
        one entry per non-literal definition; the edges are conditional on that definition reaching the switch."""
        t = self.blocks[b]['term']
        if t['k'] != 'switch' or t.get('discr_ty') != 'bool':
            return []
        rt = self.switch_root(b)
        if rt is None:
            return []
        l, neg = rt
        ds = self.defs().get(l, [])
        if len(ds) < 2:
            return []
        f = [tg for v, tg in t['arms'] if v == 0]
        tr = [tg for v, tg in t['arms'] if v != 0]
        if f:
            tr.append(t['otherwise'])
        else:
            f.append(t['otherwise'])
        out = []
        for db, si, kind, obj in ds:
            if kind == 'call':
                term = self.call_term(db, obj)
            else:
                r = obj['r']
                if r['k'] == 'use' and r['a']['k'] == 'const':
                    continue
                term = self.rvalue_term(r, 0, db)
            n2 = neg
            while term[0] == 'un' and term[1] == 'Not':
                term = term[2]
                n2 = not n2
            te = [Edge(b, x, db) for x in (f if n2 else tr)]
            fe = [Edge(b, x, db) for x in (tr if n2 else f)]
            out.append((db, term, te, fe))
        return out

    def switches(self):
        live = self.live_blocks()
        out = []
        for b in range(self.n):
            if b in live and self.blocks[b]['term']['k'] == 'switch':
                out.append((b, self.switch_cond(b)))
        return out


def tstr(t, maxlen=400):
    """Human-readable rendering of a term."""
    s = _tstr(t)
    return s if len(s) <= maxlen else s[:maxlen] + '…'


def _tstr(t):
    if not isinstance(t, tuple):
        return repr(t)
    k = t[0]
    if k == 'c':
        return str(t[1])
    if k == 'k':
        return t[1]
    if k == 's':
        return t[1]
    if k == 'v':
        return t[1]
    if k == 't':
        return '_%d' % t[1]
    if k == 'f':
        return '%s.%s' % (_tstr(t[1]), t[2])
    if k == 'idx':
        return '%s[%s]' % (_tstr(t[1]), _tstr(t[2]))
    if k == 'dc':
        return '(%s as %s)' % (_tstr(t[1]), t[2])
    if k == 'call':
        return '%s(%s)' % (short(t[1]).split('::')[-1] if False else short(t[1]), ', '.join(_tstr(a) for a in t[2]))
    if k == 'conv':
        return '%s(%s)' % (t[1], _tstr(t[2]))
    if k == 'op':
        return '%s(%s, %s)' % (t[1], _tstr(t[2]), _tstr(t[3]))
    if k == 'un':
        return '%s(%s)' % (t[1], _tstr(t[2]))
    if k == 'cast':
        return '(%s as %s)' % (_tstr(t[2]), t[3])
    if k == 'agg':
        if isinstance(t[3], dict):
            return '%s::%s{%s}' % (t[1], t[2], ', '.join('%s: %s' % (a, _tstr(b)) for a, b in t[3].items()))
        return '%s::%s(%s)' % (t[1], t[2], ', '.join(_tstr(a) for a in t[3]))
    if k in ('discr', 'len', 'try', 'ovf'):
        return '%s(%s)' % (k, _tstr(t[1]))
    if k == 'slice':
        return '%s[%s..%s]' % (_tstr(t[1]), _tstr(t[2]), _tstr(t[3]))
    if k == 'fromend':
        return '-%s' % t[1]
    if k == 'repeat':
        return '[%s; %s]' % (_tstr(t[1]), t[2])
    if k == 'lam':
        return '|%s| %s' % (', '.join(t[2]), _tstr(t[3]))
    if k == 'old':
        return 'old(%s)' % _tstr(t[1])
    if k == 'v0':
        return '%s@entry' % t[1]
    if k == 'phi':
        return 'phi%d_%d' % (t[1], t[2])
    if k == 'resid':
        return 'residual(%s)' % _tstr(t[1])
    if k == 'upd':
        return '%s\'' % _tstr(t[1])
    if k in ('satsub', 'rlen'):
        return '%s(%s)' % (k, ', '.join(_tstr(x) for x in t[1:]))
    return str(t)


def subterms(t):
    """All subterms of t, preorder."""
    yield t
    if not isinstance(t, tuple):
        return
    for x in t[1:]:
        if isinstance(x, tuple):
            yield from subterms(x)
        elif isinstance(x, list):
            for y in x:
                if isinstance(y, tuple):
                    yield from subterms(y)
        elif isinstance(x, dict):
            for y in x.values():
                if isinstance(y, tuple):
                    yield from subterms(y)


def has_call(t, pat):
    for s in subterms(t):
        if s[0] == 'call' and re.search(pat, s[1]):
            return s
    return None


def strip_conv(t):
    while isinstance(t, tuple) and t[0] in ('conv', 'try') or (isinstance(t, tuple) and t[0] == 'cast'):
        t = t[2]
    return t


def affine(t):
    """Normal form c0 + sum ci*atom of an integer term. Returns (c0, {atom_str: (coeff, atom)})"""
    t = strip_casts(t)
    if t[0] == 'c':
        return (t[1], {})
    if t[0] == 'k' and t[2] is not None:
        # keep named constants symbolic but remember value
        return (0, {_tstr(t): (1, t)})
    if t[0] == 'op' and t[1] in ('Add', 'AddUnchecked', 'AddWithOverflow', 'Sub', 'SubUnchecked', 'SubWithOverflow'):
        a = affine(t[2])
        b = affine(t[3])
        sign = 1 if t[1].startswith('Add') else -1
        c = a[0] + sign * b[0]
        m = dict(a[1])
        for k, (co, at) in b[1].items():
            if k in m:
                nc = m[k][0] + sign * co
                if nc == 0:
                    del m[k]
                else:
                    m[k] = (nc, at)
            else:
                m[k] = (sign * co, at)
        return (c, m)
    if t[0] == 'op' and t[1] in ('Mul', 'MulWithOverflow', 'MulUnchecked'):
        a = affine(t[2])
        b = affine(t[3])
        if not a[1]:
            a, b = b, a
        if not b[1]:
            k = b[0]
            return (a[0] * k, {s: (co * k, at) for s, (co, at) in a[1].items() if co * k != 0})
    return (0, {_tstr(t): (1, t)})


def strip_casts(t):
    while isinstance(t, tuple) and t[0] == 'cast' and ('IntToInt' in t[1]):
        t = t[2]
    return t


def affine_str(t):
    c, m = affine(t)
    parts = []
    for k in sorted(m):
        co = m[k][0]
        parts.append(('%+d*' % co if co not in (1, -1) else ('+' if co == 1 else '-')) + k)
    if c or not parts:
        parts.append('%+d' % c)
    return ' '.join(parts)


def _rename_map(j):
    """Private functions that were renamed (or moved inside their module) relative to the reference vocabulary: a vocabulary
    path that no longer exists is matched with the ONE new path that has the same parent, argument types and return type.
    Returns {new path: vocabulary path}. Ambiguous or unmatched paths are left alone (the rules then report anchor-missing)."""
    vp = os.path.join(os.path.dirname(os.path.dirname(os.path.abspath(__file__))), 'rules', 'vocab.txt')
    if not os.path.exists(vp):
        return {}
    vocab = set(l.rstrip('\n') for l in open(vp))
    have = {b['path']: b for b in j['bodies']}
    gone = [p for p in vocab if p not in have and '{closure' not in p]
    new = [p for p in have if p not in vocab and '{closure' not in p and have[p].get('kind') != 'Closure']
    if not gone or not new:
        return {}

    def parent(p):
        return p.rsplit('::', 1)[0] if '::' in p else ''

    def module(p):
        return p.split('::')[0]
    # signatures of the vanished functions are not in the new facts; use the reference signature table if present
    sp = os.path.join(os.path.dirname(vp), 'vocab_sigs.json')
    sigs = json.load(open(sp)) if os.path.exists(sp) else {}
    out = {}
    import itertools

    def key(inputs, output):
        return (tuple(sorted(inputs or [])), output)

    def relax(ty):
        # by-value versus by-reference parameters, lifetimes: not part of a function's identity
        ty = re.sub(r"'\w+\s*,?\s*", '', ty or '')
        ty = re.sub(r'&\s*(mut\s+)?', '', ty)
        return ty.replace('<>', '').strip()

    def rkey(inputs, output):
        return (tuple(sorted(relax(x) for x in (inputs or []))), relax(output))
    fpp = os.path.join(os.path.dirname(vp), 'vocab_fp.json')
    reffp = json.load(open(fpp)) if os.path.exists(fpp) else {}

    def fp_new(n, names):
        cs = []
        for blk in have[n]['blocks']:
            tt = blk['term']
            if tt['k'] == 'call':
                nm = short(tt['callee'].get('resolved') or tt['callee'].get('path', 'indirect'))
                if nm not in names:
                    cs.append(nm)
        return set(cs)

    def sim(sa, sb):
        if not sa and not sb:
            return 1.0
        return len(sa & sb) / float(len(sa | sb))

    def match_pass(scope, keyf):
        left_g = [g for g in gone if g not in out.values() and g in sigs]
        left_n = [n for n in new if n not in out]
        gk, nk = {}, {}
        for g in left_g:
            gk.setdefault((scope(g), keyf(sigs[g][0], sigs[g][1])), []).append(g)
        for n in left_n:
            nk.setdefault((scope(n), keyf(have[n].get('inputs'), have[n].get('output'))), []).append(n)
        for k, gs in gk.items():
            ns = nk.get(k, [])
            if len(gs) == 1 and len(ns) == 1:
                # the ONLY vanished / new function of its scope with that (order-insensitive) signature
                out[ns[0]] = gs[0]
            elif 2 <= len(gs) == len(ns) <= 5 and reffp:
                # several with one signature: the assignment that maximises the overlap of the functions they call
                names = set(short(x) for x in gs) | set(short(x) for x in ns)
                fg = {g: set(x for x in reffp.get(g, []) if x not in names) for g in gs}
                fn = {n: fp_new(n, names) for n in ns}
                sc = []
                for pm in itertools.permutations(ns):
                    sc.append((sum(sim(fg[g], fn[n]) for g, n in zip(gs, pm)), pm))
                sc.sort(key=lambda x: -x[0])
                if sc[0][0] - sc[1][0] >= 0.25 and all(sim(fg[g], fn[n]) >= 0.3 for g, n in zip(gs, sc[0][1])):
                    for g, n in zip(gs, sc[0][1]):
                        out[n] = g
    match_pass(parent, key)
    if len(out) < len(gone):
        match_pass(parent, rkey)
    if len(out) < len(gone):
        # across parents of one module (a function moved to another impl block / became a free function)
        match_pass(module, key)
    return out


def _apply_renames(j, ren):
    if not ren:
        return
    items = sorted(ren.items(), key=lambda kv: -len(kv[0]))

    def fix(p):
        if not isinstance(p, str):
            return p
        for n, g in items:
            if p == n:
                return g
            if p.startswith(n + '::'):
                return g + p[len(n):]
        return p
    for b in j['bodies']:
        b['path'] = fix(b['path'])
        for blk in b['blocks']:
            t = blk['term']
            if t['k'] == 'call':
                c = t['callee']
                for k in ('path', 'resolved'):
                    if k in c:
                        c[k] = fix(c[k])
            for st in blk['stmts']:
                if st['k'] == 'assign' and st['r'].get('k') == 'agg' and st['r'].get('agg') == 'closure':
                    st['r']['closure'] = fix(st['r']['closure'])
    j['renamed'] = dict(ren)


def _canonical_param_order(j):
    """A vocabulary function whose parameters were reordered (together with its callers) is put back into the reference
    order: parameter locals are renumbered inside the body and the arguments of every call are permuted. Only done when the
    permutation is unambiguous (all parameter types distinct, or the reference names are still in use)."""
    pp = os.path.join(os.path.dirname(os.path.dirname(os.path.abspath(__file__))), 'rules', 'vocab_params.json')
    if not os.path.exists(pp):
        return
    ref = json.load(open(pp))
    perms = {}
    for b in j['bodies']:
        r = ref.get(b['path'])
        n = b['arg_count']
        if r is None or len(r) != n or n < 2:
            continue
        cur_t = [b['locals'][i + 1]['ty'] for i in range(n)]
        ref_t = [ty for nm, ty in r]
        if cur_t == ref_t or sorted(cur_t) != sorted(ref_t):
            continue
        perm = None
        if len(set(ref_t)) == n:
            perm = [ref_t.index(ty) for ty in cur_t]                  # current position i -> reference position
        else:
            cur_n = [(b['locals'][i + 1]['names'] or [None])[0] for i in range(n)]
            ref_n = [nm for nm, ty in r]
            if None not in cur_n and sorted(cur_n) == sorted(ref_n) and len(set(ref_n)) == n:
                perm = [ref_n.index(nm) for nm in cur_n]
                if any(cur_t[i] != ref_t[perm[i]] for i in range(n)):
                    perm = None
            if perm is None:
                # equally typed parameters keep their relative order (the summary fingerprint, where available, overrides
                # this later)
                slots = {}
                for k, ty in enumerate(ref_t):
                    slots.setdefault(ty, []).append(k)
                perm = []
                for ty in cur_t:
                    perm.append(slots[ty].pop(0))
        if perm is None or perm == list(range(n)):
            continue
        perms[b['path']] = perm
        m = {i + 1: perm[i] + 1 for i in range(n)}

        def fl(l):
            return m.get(l, l)

        def fix_place(p):
            p['l'] = fl(p['l'])
            for pr in p.get('pr', []):
                if isinstance(pr, dict) and 'idx' in pr:
                    pr['idx'] = fl(pr['idx'])

        def fix_op(o):
            if isinstance(o, dict) and o.get('k') in ('copy', 'move'):
                fix_place(o['p'])
        newl = list(b['locals'])
        for i in range(n):
            newl[perm[i] + 1] = b['locals'][i + 1]
        b['locals'] = newl
        if b.get('inputs') and len(b['inputs']) == n:
            ni = list(b['inputs'])
            for i in range(n):
                ni[perm[i]] = b['inputs'][i]
            b['inputs'] = ni
        for blk in b['blocks']:
            for st in blk['stmts']:
                if st['k'] == 'assign':
                    fix_place(st['p'])
                    r0 = st['r']
                    for key in ('a', 'b'):
                        if isinstance(r0.get(key), dict):
                            fix_op(r0[key])
                    if isinstance(r0.get('p'), dict):
                        fix_place(r0['p'])
                    for o in r0.get('ops', []) or []:
                        fix_op(o)
                elif st['k'] == 'setdiscr':
                    fix_place(st['p'])
            t = blk['term']
            if t['k'] == 'call':
                for a in t['args']:
                    fix_op(a)
                fix_place(t['dest'])
                if 'indirect' in t['callee']:
                    fix_op(t['callee']['indirect'])
            elif t['k'] == 'switch':
                fix_op(t['discr'])
            elif t['k'] == 'drop':
                fix_place(t['p'])
            elif t['k'] == 'assert':
                fix_op(t['cond'])
                for key in ('len', 'index'):
                    if key in t:
                        fix_op(t[key])
    if not perms:
        return
    for b in j['bodies']:
        for blk in b['blocks']:
            t = blk['term']
            if t['k'] != 'call':
                continue
            c = t['callee']
            tgt = c.get('resolved') if c.get('resolved') in perms else (c.get('path') if c.get('path') in perms and not c.get('trait') else None)
            if tgt is None or len(t['args']) != len(perms[tgt]):
                continue
            perm = perms[tgt]
            na = list(t['args'])
            for i in range(len(perm)):
                na[perm[i]] = t['args'][i]
            t['args'] = na
    j['params_reordered'] = sorted(perms)


def _canonical_params(j):
    """Parameters of vocabulary functions carry their reference names (matched by position and type): a renamed parameter
    is the same parameter."""
    pp = os.path.join(os.path.dirname(os.path.dirname(os.path.abspath(__file__))), 'rules', 'vocab_params.json')
    if not os.path.exists(pp):
        return
    ref = json.load(open(pp))
    n = 0
    for b in j['bodies']:
        r = ref.get(b['path'])
        if r is None or len(r) != b['arg_count']:
            continue
        if any(b['locals'][i + 1]['ty'] != ty for i, (nm, ty) in enumerate(r)):
            continue
        for i, (nm, ty) in enumerate(r):
            l = b['locals'][i + 1]
            if nm is not None and l['names'] != [nm]:
                # keep other locals that happen to use the reference name distinct
                for k, other in enumerate(b['locals']):
                    if k != i + 1 and nm in other['names']:
                        other['names'] = [x + '_' for x in other['names']]
                l['names'] = [nm]
                n += 1
    j['params_renamed'] = n


def _canonical_fields(j):
    """Fields of the crate's own structs carry their reference names (matched by ADT, position and type): a renamed private
    field is the same field. Only structs (one variant) whose field count and types are unchanged are treated."""
    fp = os.path.join(os.path.dirname(os.path.dirname(os.path.abspath(__file__))), 'rules', 'vocab_fields.json')
    if not os.path.exists(fp):
        return
    ref = json.load(open(fp))
    ren = {}
    for a in j['adts']:
        r = ref.get(a['path'])
        if r is None or a.get('kind') not in ('Struct', 'Enum') or len(a['variants']) != len(r):
            continue
        for vi, v in enumerate(a['variants']):
            fs = v['fields']
            if len(fs) != len(r[vi]) or any(fs[i]['ty'] != r[vi][i][1] for i in range(len(fs))):
                continue
            have = [x['name'] for x in fs]
            want = [x[0] for x in r[vi]]
            if have == want or sorted(have) == sorted(want):
                continue
            for i, (h, w) in enumerate(zip(have, want)):
                if h != w:
                    ren[(a['path'], v['name'] if a['kind'] == 'Enum' else None, i)] = w
                    fs[i]['name'] = w
    if not ren:
        return

    def fix_place(p):
        var = None
        for pr in p.get('pr', []):
            if isinstance(pr, dict) and 'dc' in pr:
                var = pr['dc']
                continue
            if isinstance(pr, dict) and 'f' in pr:
                k1 = (pr.get('of'), None, pr.get('i'))
                k2 = (pr.get('of'), var, pr.get('i'))
                if k1 in ren:
                    pr['f'] = ren[k1]
                elif k2 in ren:
                    pr['f'] = ren[k2]
            var = None

    def fix_op(o):
        if isinstance(o, dict) and o.get('k') in ('copy', 'move'):
            fix_place(o['p'])
    for b in j['bodies']:
        for blk in b['blocks']:
            for st in blk['stmts']:
                if st['k'] != 'assign':
                    continue
                fix_place(st['p'])
                r = st['r']
                for key in ('a', 'b'):
                    if isinstance(r.get(key), dict):
                        fix_op(r[key])
                if isinstance(r.get('p'), dict):
                    fix_place(r['p'])
                for o in r.get('ops', []) or []:
                    fix_op(o)
                if r.get('k') == 'agg' and r.get('agg') == 'adt' and r.get('fields'):
                    r['fields'] = [ren.get((r['adt'], None, i), ren.get((r['adt'], r.get('variant'), i), fn)) for i, fn in enumerate(r['fields'])]
            t = blk['term']
            if t['k'] == 'call':
                for a in t['args']:
                    fix_op(a)
                fix_place(t['dest'])
                if 'indirect' in t['callee']:
                    fix_op(t['callee']['indirect'])
            elif t['k'] == 'switch':
                fix_op(t['discr'])
            elif t['k'] == 'drop':
                fix_place(t['p'])
            elif t['k'] == 'assert':
                fix_op(t['cond'])
    j['fields_renamed'] = len(ren)


def _second_chance(facts):
    """Vocabulary functions still missing after the cheap rename matching, and vocabulary functions whose parameter types
    were permuted ambiguously: recognise them by their path-summary fingerprint (rules/vocab_sums.json). Returns
    (renames {new: vocab}, perms {path: [current position -> reference position]})."""
    base = os.path.join(os.path.dirname(os.path.dirname(os.path.abspath(__file__))), 'rules')
    try:
        vocab = set(l.rstrip('\n') for l in open(os.path.join(base, 'vocab.txt')))
        sums = json.load(open(os.path.join(base, 'vocab_sums.json')))
        sigs = json.load(open(os.path.join(base, 'vocab_sigs.json')))
        refp = json.load(open(os.path.join(base, 'vocab_params.json')))
    except Exception:
        return {}, {}
    from .sym import fn_summary_key
    import itertools
    have = facts.bodies
    gone = [p for p in vocab if p not in have and '{closure' not in p and p in sums]
    new = [p for p in have if p not in vocab and '{closure' not in p and have[p].j.get('kind') != 'Closure']
    renames, perms = {}, {}

    def perms_for(cur_t, ref_t):
        if sorted(cur_t) != sorted(ref_t) or len(cur_t) > 5:
            return []
        out = []
        for pm in itertools.permutations(range(len(cur_t))):
            if all(cur_t[i] == ref_t[pm[i]] for i in range(len(cur_t))):
                out.append(list(pm))
        return out
    for g in gone:
        sg = sigs.get(g)
        if sg is None:
            continue
        hits = []
        for n in new:
            b = have[n]
            if n in renames or b.j.get('output') != sg[1] or sorted(b.j.get('inputs') or []) != sorted(sg[0]):
                continue
            if n.split('::')[0] != g.split('::')[0]:
                continue
            cur_t = [b.locals[i + 1]['ty'] for i in range(b.j['arg_count'])]
            for pm in perms_for(cur_t, [ty for nm, ty in refp.get(g, [])]):
                if fn_summary_key(facts, b, pm) == sums[g]:
                    hits.append((n, pm))
        if len(hits) == 1:
            renames[hits[0][0]] = g
            if hits[0][1] != list(range(len(hits[0][1]))):
                perms[g] = hits[0][1]
    # same name, ambiguous permutation of equally typed parameters
    for p, b in have.items():
        r = refp.get(p)
        if r is None or p not in sums or len(r) != b.j['arg_count'] or len(r) < 2:
            continue
        cur_t = [b.locals[i + 1]['ty'] for i in range(len(r))]
        ref_t = [ty for nm, ty in r]
        if len(set(ref_t)) == len(ref_t):
            continue
        cur_n = [(b.locals[i + 1]['names'] or [None])[0] for i in range(len(r))]
        if cur_t == ref_t and cur_n == [nm for nm, ty in r]:
            continue
        cands = [pm for pm in perms_for(cur_t, ref_t) if fn_summary_key(facts, b, pm) == sums[p]]
        if len(cands) == 1 and cands[0] != list(range(len(r))):
            perms[p] = cands[0]
    return renames, perms


def param_roles(body):
    """Per parameter: the set of syntactic contexts it is used in (argument k of callee f, field g of aggregate A, operand of
    op, index / base of an indexing, projected field). A spelling-independent hint used only to tell equally typed parameters
    apart after a reordering."""
    n = body.j['arg_count']
    roles = [set() for _ in range(n)]

    def walk(t, ctx):
        if not isinstance(t, tuple):
            return
        k = t[0]
        if k == 'v' and isinstance(t[2], int) and 1 <= t[2] <= n:
            if ctx is not None:
                roles[t[2] - 1].add(ctx)
            return
        if k == 'call':
            sp = short(t[1])
            for i, a in enumerate(t[2]):
                walk(a, 'call:%s:%d' % (sp, i))
        elif k == 'agg':
            if isinstance(t[3], dict):
                for f, a in t[3].items():
                    walk(a, 'agg:%s:%s' % (t[1], f))
            else:
                for i, a in enumerate(t[3]):
                    walk(a, 'agg:%s:%d' % (t[1], i))
        elif k == 'op':
            walk(t[2], 'op:' + t[1])
            walk(t[3], 'op:' + t[1])
        elif k == 'idx':
            walk(t[1], 'idx-base')
            walk(t[2], 'idx-index')
        elif k == 'f':
            walk(t[1], 'field:%s' % t[2])
        elif k in ('cast', 'un', 'conv', 'discr', 'dc', 'len'):
            for x in t[1:]:
                if isinstance(x, tuple):
                    walk(x, ctx)
        else:
            for x in t[1:]:
                if isinstance(x, tuple):
                    walk(x, k)
    live = body.live_blocks()
    for bi in range(body.n):
        if bi not in live:
            continue
        blk = body.blocks[bi]
        for st in blk['stmts']:
            if st['k'] == 'assign':
                try:
                    walk(body.rvalue_term(st['r'], 0, bi), 'store:%s' % '.'.join(str(pr.get('f', '?')) for pr in st['p']['pr'] if isinstance(pr, dict)) if st['p']['pr'] else None)
                except Exception:
                    pass
        t = blk['term']
        try:
            if t['k'] == 'call':
                walk(body.call_term(bi, t), None)
            elif t['k'] == 'switch':
                walk(body.operand_term(t['discr'], 0, bi), 'switch')
        except Exception:
            pass
    return [sorted(r) for r in roles]


def caller_arg_roles(facts, path, n):
    """Per parameter of `path`: what its call sites pass there, spelled independently of local names (a named constant, a chain
    of field reads, a literal, the result of a call, a parameter of the caller by type)."""
    roles = [set() for _ in range(n)]

    def shape(b, a, depth=0):
        while isinstance(a, tuple) and a[0] in ('ref', 'conv', 'cast', 'deref', 'copy', 'move') and len(a) > 1 and isinstance(a[-1], tuple):
            a = a[-1]
        if not isinstance(a, tuple):
            return 'x'
        if a[0] == 'v' and isinstance(a[2], int):
            if 1 <= a[2] <= b.j['arg_count']:
                return 'p:' + b.locals[a[2]]['ty']
            d = b.def_term(a[2]) if depth < 3 else None
            return shape(b, d, depth + 1) if d is not None else 'v:' + b.locals[a[2]]['ty']
        if a[0] == 't' and depth < 3:
            d = b.def_term(a[1])
            return shape(b, d, depth + 1) if d is not None else 'x'
        if a[0] == 'k':
            return 'k:' + a[1]
        if a[0] == 'c':
            return 'c:%s' % (a[1],)
        if a[0] == 'f':
            fs = []
            while isinstance(a, tuple) and a[0] == 'f':
                fs.append(str(a[2]))
                a = a[1]
            return 'f:' + '.'.join(reversed(fs))
        if a[0] == 'call':
            return 'call:' + short(a[1])
        return str(a[0])
    for p, b in facts.bodies.items():
        for bi, t in b.calls():
            c = t['callee']
            tgt = c.get('resolved') or c.get('path')
            if tgt != path or len(t['args']) != n:
                continue
            try:
                ct = b.call_term(bi, t)
            except Exception:
                continue
            for i, a in enumerate(ct[2]):
                roles[i].add('arg:' + shape(b, a))
    return roles


def _role_perms(facts):
    """Vocabulary functions with equally typed parameters whose order can neither be settled by parameter names nor by an
    exact summary match: choose the assignment that maximises the overlap of usage contexts with the reference
    (rules/vocab_roles.json), if that maximum is unique and better than leaving the order alone."""
    import itertools
    base = os.path.join(os.path.dirname(os.path.dirname(os.path.abspath(__file__))), 'rules')
    try:
        refr = json.load(open(os.path.join(base, 'vocab_roles.json')))
        refp = json.load(open(os.path.join(base, 'vocab_params.json')))
    except Exception:
        return {}
    perms = {}
    for p, b in facts.bodies.items():
        r = refp.get(p)
        rr = refr.get(p)
        if r is None or rr is None or len(r) != b.j['arg_count'] or len(r) < 2 or len(r) > 6:
            continue
        ref_t = [ty for nm, ty in r]
        cur_t = [b.locals[i + 1]['ty'] for i in range(len(r))]
        if cur_t != ref_t or len(set(ref_t)) == len(ref_t):
            continue
        cur_n = [(b.locals[i + 1]['names'] or [None])[0] for i in range(len(r))]
        if cur_n == [nm for nm, ty in r]:
            continue
        cur = [set(x) for x in param_roles(b)]
        for i, x in enumerate(caller_arg_roles(facts, p, len(r))):
            cur[i] |= x
        ref = [set(x) for x in rr]

        def jac(a, b_):
            u = a | b_
            return (len(a & b_) / len(u)) if u else 1.0

        def score(pm):
            # uses inside the function and what the callers pass are two independent pieces of evidence
            tot = 0.0
            for i in range(len(pm)):
                ci, ri = cur[i], ref[pm[i]]
                tot += jac({x for x in ci if not x.startswith('arg:')}, {x for x in ri if not x.startswith('arg:')})
                tot += jac({x for x in ci if x.startswith('arg:')}, {x for x in ri if x.startswith('arg:')})
            return tot
        cands = [list(pm) for pm in itertools.permutations(range(len(r))) if all(cur_t[i] == ref_t[pm[i]] for i in range(len(r)))]
        if len(cands) < 2:
            continue
        sc = sorted(((score(pm), pm) for pm in cands), reverse=True)
        ident = list(range(len(r)))
        if sc[0][1] != ident and sc[0][0] > sc[1][0] + 0.5 and sc[0][0] > score(ident) + 0.5:
            perms[p] = sc[0][1]
    return perms


def _apply_param_perms(j, perms):
    """like _canonical_param_order, for explicitly given permutations"""
    if not perms:
        return
    for b in j['bodies']:
        perm = perms.get(b['path'])
        if perm is None:
            continue
        n = len(perm)
        m = {i + 1: perm[i] + 1 for i in range(n)}

        def fl(l):
            return m.get(l, l)

        def fix_place(p):
            p['l'] = fl(p['l'])
            for pr in p.get('pr', []):
                if isinstance(pr, dict) and 'idx' in pr:
                    pr['idx'] = fl(pr['idx'])

        def fix_op(o):
            if isinstance(o, dict) and o.get('k') in ('copy', 'move'):
                fix_place(o['p'])
        newl = list(b['locals'])
        for i in range(n):
            newl[perm[i] + 1] = b['locals'][i + 1]
        b['locals'] = newl
        if b.get('inputs') and len(b['inputs']) == n:
            ni = list(b['inputs'])
            for i in range(n):
                ni[perm[i]] = b['inputs'][i]
            b['inputs'] = ni
        for blk in b['blocks']:
            for st in blk['stmts']:
                if st['k'] == 'assign':
                    fix_place(st['p'])
                    r0 = st['r']
                    for key in ('a', 'b'):
                        if isinstance(r0.get(key), dict):
                            fix_op(r0[key])
                    if isinstance(r0.get('p'), dict):
                        fix_place(r0['p'])
                    for o in r0.get('ops', []) or []:
                        fix_op(o)
                elif st['k'] == 'setdiscr':
                    fix_place(st['p'])
            t = blk['term']
            if t['k'] == 'call':
                for a in t['args']:
                    fix_op(a)
                fix_place(t['dest'])
                if 'indirect' in t['callee']:
                    fix_op(t['callee']['indirect'])
            elif t['k'] == 'switch':
                fix_op(t['discr'])
            elif t['k'] == 'drop':
                fix_place(t['p'])
            elif t['k'] == 'assert':
                fix_op(t['cond'])
                for key in ('len', 'index'):
                    if key in t:
                        fix_op(t[key])
    for b in j['bodies']:
        for blk in b['blocks']:
            t = blk['term']
            if t['k'] != 'call':
                continue
            c = t['callee']
            tgt = c.get('resolved') if c.get('resolved') in perms else (c.get('path') if c.get('path') in perms and not c.get('trait') else None)
            if tgt is None or len(t['args']) != len(perms[tgt]):
                continue
            perm = perms[tgt]
            na = list(t['args'])
            for i in range(len(perm)):
                na[perm[i]] = t['args'][i]
            t['args'] = na


class Facts:
    def __init__(self, path):
        self.j = json.load(open(path))
        _apply_renames(self.j, _rename_map(self.j))
        _canonical_param_order(self.j)
        self.bodies = {}
        for b in self.j['bodies']:
            self.bodies[b['path']] = Body(b, self)
        self.adts = {a['path']: a for a in self.j['adts']}
        self.traits = {}
        self.consts = {c['path']: c for c in self.j['consts']}
        ren, perms = {}, {}
        try:
            ren, perms = _second_chance(self)
        except Exception:
            ren, perms = {}, {}
        if ren or perms:
            _apply_renames(self.j, ren)
            _apply_param_perms(self.j, perms)
            self.j.setdefault('renamed', {}).update(ren)
        try:
            for b in self.j['bodies']:
                self.bodies[b['path']] = Body(b, self)
            rp = _role_perms(self)
        except Exception:
            rp = {}
        if rp:
            _apply_param_perms(self.j, rp)
            self.j.setdefault('role_perms', {}).update({k: v for k, v in rp.items()})
        self.__dict__.pop('_getters', None)
        _canonical_params(self.j)
        _canonical_fields(self.j)
        from .desugar import desugar_all
        self.desugared = desugar_all(self.j)
        self.bodies = {}
        for b in self.j['bodies']:
            self.bodies[b['path']] = Body(b, self)
        self.adts = {a['path']: a for a in self.j['adts']}
        self.traits = {a['path']: a for a in self.j['traits']}
        self.impls = self.j['impls']
        self.statics = self.j['statics']
        self.consts = {c['path']: c for c in self.j['consts']}
        self.coercions = self.j['coercions']
        self.tygraph = self.j['tygraph']

    def body(self, path):
        return self.bodies.get(path)

    def find(self, pat):
        return [b for p, b in self.bodies.items() if re.search(pat, p)]

    def one(self, pat):
        r = self.find(pat)
        return r[0] if len(r) == 1 else None

"""Path summaries: every path of a loop-free region is folded into (branch decisions, result term, ordered effects).

This is a path-sensitive value-flow analysis over MIR (no solver, no execution): along one CFG path each local has exactly
one definition, so the value of every local is a closed term over the function's inputs (parameters, fields read through
them, results of opaque calls). Local names, `let` temporaries, `if`/`match` assigning one variable on several paths,
early returns, closures passed to Option/Result combinators, `?` versus an explicit match, and helpers that are not part of
the rule vocabulary (spliced in by acverif.inline before) all disappear in this normal form; rules then compare terms,
not spellings.

Row.conds   [(term, value)]   value: True/False for boolean tests, variant name / integer / ('not', (..)) for switches
Row.ret     term of the return place (or None)
Row.effects ordered list of ('call', term) for opaque calls and ('store', place_term, value_term) for stores through
            references / to fields of non-local memory
Row.end     'return' | ('stop', block) | 'diverge'
"""
import re

from .mir import short, tstr, subterms

MAXROWS = 6000

CONV = ('core::convert::Into::into', 'core::convert::From::from', 'core::convert::AsRef::as_ref', 'core::ops::Deref::deref',
        'core::ops::DerefMut::deref_mut', 'core::borrow::Borrow::borrow', 'core::clone::Clone::clone',
        'core::iter::IntoIterator::into_iter', 'core::convert::AsMut::as_mut', 'core::borrow::BorrowMut::borrow_mut',
        'core::option::Option::as_ref', 'core::option::Option::as_mut', 'core::option::Option::as_deref',
        'core::result::Result::as_ref', 'core::result::Result::as_mut', 'core::option::Option::copied', 'core::option::Option::cloned')


class TooManyPaths(Exception):
    pass


class Row:
    __slots__ = ('conds', 'ret', 'effects', 'end', 'env', 'path', 'heap')

    def __init__(self, conds, ret, effects, end, env, path, heap):
        self.conds, self.ret, self.effects, self.end, self.env, self.path, self.heap = conds, ret, effects, end, env, path, heap

    def calls(self, pat):
        return [e[1] for e in self.effects if e[0] == 'call' and re.search(pat, short(e[1][1]))]

    def events(self):
        """effects without loop markers"""
        return [e for e in self.effects if e[0] != 'loop']

    def stores(self):
        return [(e[1], e[2]) for e in self.effects if e[0] == 'store']

    def cond(self, pred):
        """Value of the decision on the first condition term satisfying pred (a predicate or a canonical string); None if the
        path does not depend on it."""
        for c, v in self.conds:
            if (pred(c) if callable(pred) else cstr(c) == pred):
                return v
        return None

    def __repr__(self):
        return 'Row(%s => %s | %s | %s)' % ([(tstr(c, 80), v) for c, v in self.conds], tstr(self.ret, 120) if self.ret else None,
                                            [('%s := %s' % (tstr(e[1], 60), tstr(e[2], 60)) if e[0] == 'store' else tstr(e[1], 60)) for e in self.effects], self.end)


class _State:
    __slots__ = ('env', 'heap', 'conds', 'effects', 'path', 'mutref', 'count', 'dirty')

    def __init__(self):
        self.env, self.heap, self.conds, self.effects, self.path, self.mutref = {}, {}, [], [], [], {}
        self.count = {}
        self.dirty = []

    def fork(self):
        s = _State()
        s.env, s.heap, s.conds, s.effects, s.path, s.mutref = dict(self.env), dict(self.heap), list(self.conds), list(self.effects), list(self.path), dict(self.mutref)
        s.count = dict(self.count)
        s.dirty = list(self.dirty)
        return s


def is_opt_or_res(ty):
    if ty.startswith('core::option::Option<') or ty == 'core::option::Option':
        return 'Option'
    if ty.startswith('core::result::Result<') or ty == 'core::result::Result':
        return 'Result'
    return None


def _lit(x):
    """integer value of a literal or of a named constant with a known value"""
    if x[0] == 'c' and isinstance(x[1], int):
        return x[1]
    if x[0] == 'k' and len(x) > 2 and isinstance(x[2], int) and not isinstance(x[2], bool):
        return x[2]
    return None


def ckey(t):
    """identity of a condition term: call-site block numbers are dropped (a pure call on unchanged arguments is the same
    condition wherever it is made), mutation marks ('upd' with their block) are kept"""
    if not isinstance(t, tuple):
        return repr(t)
    if t[0] == 'call':
        return 'call(%s;%s)' % (t[1], ','.join(ckey(a) for a in t[2]))
    parts = []
    for x in t:
        if isinstance(x, tuple):
            parts.append(ckey(x))
        elif isinstance(x, list):
            parts.append('[' + ','.join(ckey(y) if isinstance(y, tuple) else repr(y) for y in x) + ']')
        elif isinstance(x, dict):
            parts.append('{' + ','.join('%s:%s' % (k, ckey(v) if isinstance(v, tuple) else repr(v)) for k, v in sorted(x.items())) + '}')
        else:
            parts.append(repr(x))
    return '(' + ' '.join(parts) + ')'


def fold(t):
    """Local simplification of a freshly built term."""
    k = t[0]
    if k == 'un' and t[1] == 'Not':
        x = t[2]
        if x[0] == 'c':
            return ('c', 0 if x[1] else 1)
        if x[0] == 'un' and x[1] == 'Not':
            return x[2]
    if k == 'op' and _lit(t[2]) is not None and _lit(t[3]) is not None:
        a, b = _lit(t[2]), _lit(t[3])
        o = t[1].replace('WithOverflow', '').replace('Unchecked', '')
        try:
            f = {'Add': a + b, 'Sub': a - b, 'Mul': a * b, 'Eq': int(a == b), 'Ne': int(a != b), 'Lt': int(a < b), 'Le': int(a <= b),
                 'Gt': int(a > b), 'Ge': int(a >= b), 'BitAnd': a & b, 'BitOr': a | b, 'BitXor': a ^ b}
            if o in ('Shl', 'Shr', 'Div', 'Rem'):
                if o == 'Shl':
                    f[o] = a << b
                elif o == 'Shr':
                    f[o] = a >> b
                elif b != 0:
                    f[o] = a // b if o == 'Div' else a % b
            if o in f and (o != 'Sub' or a >= b) and not t[1].endswith('WithOverflow'):
                return ('c', f[o])
        except Exception:
            pass
    return t


class Sym:
    def __init__(self, facts, body, start=0, stop=(), env=None, depth=0, unfold=None, maxrows=MAXROWS, loop_unroll=0, path_pred=None):
        self.facts, self.b, self.start, self.stop = facts, body, start, set(stop)
        self.env0 = env or {}
        self.depth = depth
        self.unfold = unfold
        self.maxrows = maxrows
        self.loop_unroll = loop_unroll
        self.out = []
        self.loops = body.loops()
        self._mods = {}

    # ------------------------------------------------------------------ loops
    def loop_mods(self, h):
        """(locals assigned inside the loop with header h, does the loop write through references?)"""
        if h in self._mods:
            return self._mods[h]
        b = self.b
        mods, deref = set(), False
        refs = {}
        self._written = getattr(self, '_written', {})
        written = self._written.setdefault(h, [])
        for bi in self.loops[h]:
            for s in b.blocks[bi]['stmts']:
                if s['k'] != 'assign':
                    continue
                p = s['p']
                if '*' in p['pr']:
                    deref = True
                    written.append(p)
                else:
                    mods.add(p['l'])
                r = s['r']
                if r['k'] in ('ref', 'rawptr') and r.get('mut'):
                    if '*' not in r['p']['pr']:
                        mods.add(r['p']['l'])
                    else:
                        written.append(r['p'])
            t = b.blocks[bi]['term']
            if t['k'] == 'call':
                if '*' in t['dest']['pr']:
                    deref = True
                else:
                    mods.add(t['dest']['l'])
                deref = True   # a call may write through any reference it is given
        # an explicit store through a pointer inside the loop (e.g. the spliced body of a closure assigning a captured `&mut local`)
        # may assign any local whose address was taken mutably as a whole
        if any(s0['k'] == 'assign' and s0['p']['pr'] and s0['p']['pr'][0] == '*' and len([x for x in s0['p']['pr'] if x == '*']) >= 1 and s0['p']['pr'][-1] == '*'
               for bi in self.loops[h] for s0 in b.blocks[bi]['stmts']):
            if not hasattr(self, '_mutborrowed'):
                self._mutborrowed = {s0['r']['p']['l'] for blk0 in b.blocks for s0 in blk0['stmts']
                                     if s0['k'] == 'assign' and s0['r'].get('k') == 'ref' and s0['r'].get('mut') and not s0['r']['p']['pr']}
            mods |= self._mutborrowed
        self._mods[h] = (mods, deref)
        return self._mods[h]

    def havoc(self, st, h):
        mods, deref = self.loop_mods(h)
        for l in sorted(mods):
            cur = self.read_local(st, l)
            if cur[0] == 'agg' and cur[1] == 'closure':
                continue        # a closure borrowed mutably is still the same closure (its captured state lives elsewhere)
            st.env[l] = ('phi', h, l, cur)
        if deref:
            st.heap = {}
        # memory the loop writes (or borrows mutably) below an input: later reads of it are new values
        for p in self._written.get(h, []):
            base = self.read_local(st, p['l'])
            while base[0] == 'upd':
                base = base[1]
            root = base
            while root[0] in ('f', 'idx', 'dc', 'upd'):
                root = root[1]
            if root[0] != 'v':
                continue
            prs = []
            for pr in p['pr']:
                if pr == '*':
                    continue
                if isinstance(pr, dict) and 'f' in pr:
                    prs.append(pr)
                else:
                    break
            pt = base
            for pr in prs:
                pt = ('f', pt, pr['f'])
            key = (tstr(pt, 100000), ('loop', h))
            if key not in st.dirty:
                st.dirty.append(key)
        st.effects.append(('loop', h))

    # ------------------------------------------------------------------ values
    def default_local(self, l):
        b = self.b
        names = b.locals[l]['names']
        if 1 <= l <= b.j['arg_count']:
            return ('v', names[0] if names else '_%d' % l, l)
        if names:
            return ('v', names[0], l)
        if l == 0:
            return ('v', '_0', 0)
        return ('t', l)

    def read_local(self, st, l):
        if l in st.env:
            return st.env[l]
        return self.default_local(l)

    def adt_variant_index(self, adt, name):
        a = self.facts.adts.get(adt)
        if a:
            for i, v in enumerate(a['variants']):
                if v['name'] == name:
                    return i
        if adt.endswith('Option'):
            return {'None': 0, 'Some': 1}.get(name)
        if adt.endswith('Result'):
            return {'Ok': 0, 'Err': 1}.get(name)
        if adt.endswith('ControlFlow'):
            return {'Continue': 0, 'Break': 1}.get(name)
        return None

    def project(self, st, t, prs):
        for pr in prs:
            if pr == '*':
                if t[0] == 'mref':
                    t = self.read_local(st, t[1])
                continue
            if 'f' in pr:
                f = pr['f']
                if t[0] == 'op' and t[1].endswith('WithOverflow'):
                    t = fold(('op', t[1][:-len('WithOverflow')], t[2], t[3])) if f == '0' else ('ovf', t)
                    continue
                if t[0] == 'agg' and isinstance(t[3], dict) and f in t[3]:
                    t = t[3][f]
                    continue
                if t[0] == 'agg' and isinstance(t[3], list):
                    i = pr.get('i')
                    if t[1] == 'closure' and i is not None and i < len(t[3]):
                        t = t[3][i]
                        continue
                    if f.isdigit() and int(f) < len(t[3]):
                        t = t[3][int(f)]
                        continue
                if t[0] == 'dc' and t[1][0] == 'branch':
                    # (Try::branch(X) as Continue).0 = success payload of X; (.. as Break).0 = residual of X
                    x, kind = t[1][1], t[1][2]
                    if t[2] == 'Continue':
                        t = ('f', ('dc', x, 'Ok' if kind == 'Result' else 'Some'), '0')
                    else:
                        t = ('resid', x, kind)
                    continue
                key = tstr(('f', t, f), 100000)
                if key in st.heap:
                    t = st.heap[key]
                    continue
                t = ('f', t, f)
            elif 'idx' in pr:
                t = ('idx', t, self.read_local(st, pr['idx']))
                key = tstr(t, 100000)
                if key in st.heap:
                    t = st.heap[key]
            elif 'cidx' in pr:
                t = ('idx', t, ('c', pr['cidx']) if not pr['from_end'] else ('fromend', pr['cidx']))
            elif 'sub' in pr:
                t = ('slice', t, ('c', pr['sub'][0]), ('c', pr['sub'][1]) if not pr['from_end'] else ('fromend', pr['sub'][1]))
            elif 'dc' in pr:
                if t[0] == 'agg' and t[2] == pr['dc']:
                    continue
                t = ('dc', t, pr['dc'])
        return t

    def read_place(self, st, p):
        t = self.project(st, self.read_local(st, p['l']), p['pr'])
        if st.dirty and t[0] in ('f', 'idx', 'v', 'dc') and '*' in p['pr']:
            s = tstr(t, 100000)
            for pfx, blk in st.dirty:
                if s == pfx or (s.startswith(pfx) and s[len(pfx)] in '.['):
                    return ('upd', t, blk)
        return t

    def operand(self, st, op, blk):
        if op['k'] in ('copy', 'move'):
            return self.read_place(st, op['p'])
        return self.b.operand_term(op, 0, blk)

    def rvalue(self, st, r, blk, dest=None):
        k = r['k']
        if k == 'use':
            return self.operand(st, r['a'], blk)
        if k in ('ref', 'rawptr'):
            v = self.read_place(st, r['p'])
            if dest is not None and r.get('mut'):
                st.mutref[dest] = (r['p']['l'], v, not r['p']['pr'])
            return v
        if k == 'bin':
            return fold(('op', r['op'], self.operand(st, r['a'], blk), self.operand(st, r['b'], blk)))
        if k == 'un':
            a = self.operand(st, r['a'], blk)
            if r['op'] == 'PtrMetadata':
                return ('len', a)
            if r['op'] == 'Not' and self.b.op_ty(r['a']) not in ('bool', '?'):
                return ('un', 'BitNot', a)
            return fold(('un', r['op'], a))
        if k == 'cast':
            a = self.operand(st, r['a'], blk)
            ck = r['ck']
            if 'Unsize' in ck or 'Transmute' in ck and r['from'] == r['ty']:
                return a
            if 'PtrToPtr' in ck or 'ReifyFnPointer' in ck or 'ClosureFnPointer' in ck or 'MutToConstPointer' in ck:
                return a
            if a[0] == 'c' and 'IntToInt' in ck:
                return a
            return ('cast', ck, a, r['ty'])
        if k == 'discr':
            x = self.read_place(st, r['p'])
            return self.discr_of(x, r.get('of', ''))
        if k == 'agg':
            ops = [self.operand(st, x, blk) for x in r['ops']]
            if r['agg'] == 'adt':
                fields = r['fields']
                if len(fields) == len(ops):
                    return ('agg', r['adt'], r['variant'], dict(zip(fields, ops)))
                return ('agg', r['adt'], r['variant'], ops)
            if r['agg'] == 'closure':
                # a capture that is `&mut <whole local>` stays a reference to that local (the closure body may assign through it)
                ops2 = []
                for x, v in zip(r['ops'], ops):
                    if x.get('k') in ('copy', 'move') and not x['p']['pr'] and x['p']['l'] in st.mutref and st.mutref[x['p']['l']][2]:
                        ops2.append(('mref', st.mutref[x['p']['l']][0], v))
                    else:
                        ops2.append(v)
                return ('agg', 'closure', r['closure'], ops2)
            return ('agg', r['agg'], '', ops)
        if k == 'repeat':
            return ('repeat', self.operand(st, r['a'], blk), r['n'])
        if k == 'tlsref':
            return ('tls', r['def'])
        return ('s', r.get('text', k))

    def discr_of(self, x, of=''):
        if x[0] == 'agg' and x[1] not in ('tuple', 'closure', 'array', 'promoted') and x[2]:
            i = self.adt_variant_index(x[1], x[2])
            if i is not None:
                return ('c', i)
        if x[0] == 'branch':
            return ('discr', x)
        return ('discr', x)

    # ------------------------------------------------------------------ driver
    def rows(self):
        st = _State()
        st.env = dict(self.env0)
        self.out = []
        self.run(st, self.start, first=True)
        return self.out

    def emit(self, st, end):
        if len(self.out) >= self.maxrows:
            raise TooManyPaths(self.b.path)
        self.out.append(Row(st.conds, st.env.get(0), st.effects, end, st.env, st.path, st.heap))

    def store(self, st, p, val, blk):
        l, prs = p['l'], [x for x in p['pr']]
        if not prs:
            st.env[l] = val
            return
        base = self.read_local(st, l)
        real = [x for x in prs if x != '*']
        if prs and prs[-1] == '*':
            # `*r = v` where r is (a capture of) `&mut <whole local>`: assigns that local
            tgt = self.project(st, base, prs[:-1]) if len(prs) > 1 else base
            if isinstance(tgt, tuple) and tgt[0] == 'mref':
                st.env[tgt[1]] = val
                return
        # functional update of a locally built aggregate
        if '*' not in prs and len(real) == 1 and 'f' in real[0] and base[0] == 'agg' and isinstance(base[3], dict) and real[0]['f'] in base[3]:
            d = dict(base[3])
            d[real[0]['f']] = val
            st.env[l] = ('agg', base[1], base[2], d)
            return
        if '*' not in prs and len(real) == 1 and 'f' in real[0] and base[0] == 'agg' and isinstance(base[3], list) and real[0]['f'].isdigit() and int(real[0]['f']) < len(base[3]):
            ops = list(base[3])
            ops[int(real[0]['f'])] = val
            st.env[l] = ('agg', base[1], base[2], ops)
            return
        if '*' not in prs and len(real) == 1 and 'f' in real[0] and base[0] != 'agg':
            # a field of a by-value local copy (`let mut s = self.span; s.start = x;`): the copy is its own value, not an alias of the
            # place it was copied from -- make the copy explicit (field-wise) and update it functionally
            ty = str(self.b.locals[l]['ty']).split('<')[0]
            adt = self.facts.adts.get(ty)
            if adt is not None and adt.get('kind') == 'Struct' and len(adt['variants']) == 1:
                fields = [f0['name'] for f0 in adt['variants'][0]['fields']]
                if real[0]['f'] in fields:
                    d = {f0: (('f', base, f0) if f0 != real[0]['f'] else val) for f0 in fields}
                    st.env[l] = ('agg', ty, adt['variants'][0]['name'], d)
                    return
        pt = self.project_noheap(st, base, prs)
        st.heap[tstr(pt, 100000)] = val
        st.effects.append(('store', pt, val, blk))

    def project_noheap(self, st, t, prs):
        for pr in prs:
            if pr == '*':
                continue
            if 'f' in pr:
                if t[0] == 'agg' and t[1] == 'closure' and isinstance(t[3], list) and pr.get('i') is not None and pr['i'] < len(t[3]):
                    t = t[3][pr['i']]
                    continue
                t = ('f', t, pr['f'])
            elif 'idx' in pr:
                t = ('idx', t, self.read_local(st, pr['idx']))
            elif 'cidx' in pr:
                t = ('idx', t, ('c', pr['cidx']) if not pr['from_end'] else ('fromend', pr['cidx']))
            elif 'dc' in pr:
                t = ('dc', t, pr['dc'])
        return t

    def run(self, st, blk, first=False):
        b = self.b
        while True:
            if blk in self.stop and not first:
                st.path.append(blk)
                self.emit(st, ('stop', blk))
                return
            n = st.count.get(blk, 0)
            if n > self.loop_unroll:
                if blk in self.loops and not first:
                    # second arrival at an abstracted loop header: this path is an earlier iteration, already covered by the havoc
                    return
                st.path.append(blk)
                self.emit(st, ('stop', blk))
                return
            if blk in self.loops and not first and n == 0:
                self.havoc(st, blk)
            first = False
            st.count[blk] = n + 1
            st.path.append(blk)
            block = b.blocks[blk]
            for st_ in block['stmts']:
                if st_['k'] == 'assign':
                    p = st_['p']
                    v = self.rvalue(st, st_['r'], blk, dest=p['l'] if not p['pr'] else None)
                    self.store(st, p, v, blk)
                elif st_['k'] == 'setdiscr':
                    pass
            t = block['term']
            k = t['k']
            if k == 'return':
                self.emit(st, 'return')
                return
            if k in ('goto', 'drop'):
                blk = t['target']
                continue
            if k == 'assert':
                blk = t['target']
                continue
            if k == 'unreachable':
                return
            if k == 'switch':
                d = self.operand(st, t['discr'], blk)
                self.branch(st, blk, t, d)
                return
            if k == 'call':
                nxt = self.call(st, blk, t)
                if nxt is None:
                    return
                blk = nxt
                continue
            # resume / other: path ends
            self.emit(st, 'diverge')
            return

    def branch(self, st, blk, t, d):
        arms = list(t['arms'])
        oth = t['otherwise']
        isbool = t.get('discr_ty') == 'bool'
        if d[0] == 'c' and isinstance(d[1], int):
            hit = [tg for v, tg in arms if v == d[1]]
            self.run(st, hit[0] if hit else oth)
            return
        neg = False
        while d[0] == 'un' and d[1] == 'Not':
            d = d[2]
            neg = not neg
        if not isbool and d[0] != 'discr' and re.match(r'^[ui](8|16|32|64|128|size)$', str(t.get('discr_ty', ''))) and arms and not neg:
            # `match n { k1 => A, k2 => B, _ => C }` on an integer is the chain `if n == k1 { A } else if n == k2 { B } else { C }`:
            # record the same decisions the chain would (spelling-independent)
            oth_live0 = self.b.blocks[oth]['term']['k'] != 'unreachable' or self.b.blocks[oth]['stmts']
            seq = [(v, tg) for v, tg in arms] + ([(None, oth)] if oth_live0 else [])
            s_cur = st
            for idx_, (v, tg) in enumerate(seq):
                if v is None:
                    self.run(s_cur, tg)
                    break
                c_eq = ('op', 'Eq', d, ('c', v))
                k_eq = ckey(c_eq)
                known_eq = None
                for c0, v0 in s_cur.conds:
                    if ckey(c0) == k_eq and isinstance(v0, bool):
                        known_eq = v0
                if known_eq is not False:
                    s_hit = s_cur.fork()
                    if known_eq is None:
                        s_hit.conds.append((c_eq, True))
                    self.run(s_hit, tg)
                if known_eq is True:
                    break
                s_next = s_cur.fork()
                if known_eq is None:
                    s_next.conds.append((c_eq, False))
                s_cur = s_next
            return
        key = ckey(d)
        known = None
        for c, v in st.conds:
            if ckey(c) == key:
                known = v
        oth_live = self.b.blocks[oth]['term']['k'] != 'unreachable' or self.b.blocks[oth]['stmts']
        targets = []
        if isbool:
            for v, tg in arms:
                targets.append(((v != 0) != neg, tg))
            seen = {bool(v) for v, _ in arms}
            if oth_live:
                # otherwise covers the remaining truth value
                rest = [x for x in (False, True) if x not in seen]
                for x in rest:
                    targets.append((x != neg, oth))
        else:
            for v, tg in arms:
                targets.append((v, tg))
            if oth_live:
                targets.append((('not', tuple(v for v, _ in arms)), oth))
        for val, tg in targets:
            if known is not None:
                if isinstance(val, tuple):
                    if isinstance(known, tuple):
                        if known != val:
                            continue
                    elif known in val[1]:
                        continue
                elif isinstance(known, tuple):
                    if val not in known[1] and known != val:
                        pass
                    if val in known[1]:
                        continue
                elif known != val:
                    continue
            s2 = st.fork()
            if known is None or isinstance(known, tuple) and not isinstance(val, tuple):
                s2.conds.append((d, val))
            self.run(s2, tg)

    # ------------------------------------------------------------------ calls
    def call(self, st, blk, t):
        b = self.b
        c = t['callee']
        path = c.get('path', 'indirect')
        sp = short(path)
        args = [self.operand(st, a, blk) for a in t['args']]
        if 'indirect' in c:
            args = [self.operand(st, c['indirect'], blk)] + args
            path = sp = 'indirect'
        dest, target = t['dest'], t['target']

        def done(v):
            self.store(st, dest, v, blk)
            return target

        if target is None:
            # diverging call (panic): the path ends here
            st.effects.append(('call', ('call', path, args, blk)))
            self.emit(st, 'diverge')
            return None
        if sp in CONV and len(args) == 1:
            return done(('conv', sp.rsplit('::', 1)[1], args[0]) if sp not in CONV[10:] else args[0])
        if sp == 'core::ops::Try::branch' and len(args) == 1:
            kind = is_opt_or_res((c.get('gargs') or [''])[0]) or is_opt_or_res(c.get('self_ty', '') or '') or 'Result'
            x = args[0]
            # decide on discr(X) directly so that `?` and an explicit match produce the same decision
            self.fork_on(st, x, kind, lambda s2, ok: self.after(s2, dest, ('agg', 'core::ops::ControlFlow', 'Continue', {'0': self.payload(x, kind, True)}) if ok else
                                                                 ('agg', 'core::ops::ControlFlow', 'Break', {'0': ('resid', x, kind)}), target, blk))
            return None
        if sp == 'core::ops::FromResidual::from_residual' and len(args) == 1 and args[0][0] == 'resid':
            x, kind = args[0][1], args[0][2]
            if kind == 'Result':
                return done(('agg', 'core::result::Result', 'Err', {'0': ('conv', 'from', ('f', ('dc', x, 'Err'), '0'))}))
            return done(('agg', 'core::option::Option', 'None', {}))
        if sp == 'core::mem::replace' and len(args) == 2 and t['args'][0].get('k') in ('copy', 'move') and not t['args'][0]['p']['pr'] and t['args'][0]['p']['l'] in st.mutref:
            # mem::replace(&mut place, v): yields the old value of place and stores v
            l0, pt0 = st.mutref[t['args'][0]['p']['l']][:2]
            while pt0[0] == 'upd':
                pt0 = pt0[1]
            if pt0[0] in ('f', 'idx', 'dc'):
                key0 = tstr(pt0, 100000)
                oldv = st.heap.get(key0, pt0)
                st.heap[key0] = args[1]
                st.effects.append(('store', pt0, args[1], blk))
                return done(oldv)
            if pt0[0] in ('v', 't') and not t['args'][0]['p']['pr']:
                oldv = self.read_local(st, l0)
                st.env[l0] = args[1]
                return done(oldv)
        if re.search(r'core::bool::(<impl bool>::)?then(_some)?$', sp) and len(args) == 2:
            # c.then(|| x) / c.then_some(x)  =  if c { Some(x) } else { None }
            lazy = not sp.endswith('then_some')

            def on_bool(s2, val):
                if not val:
                    self.after(s2, dest, self.mk('Option', 'None'), target, blk)
                elif lazy:
                    r = self.apply(s2, args[1], [], lambda s3, v: self.after(s3, dest, self.mk('Option', 'Some', v), target, blk), blk, strict=True)
                else:
                    self.after(s2, dest, self.mk('Option', 'Some', args[1]), target, blk)
            self.fork_bool(st, args[0], on_bool)
            return None
        m = re.match(r'core::(option::Option|result::Result)::<.*?>::(\w+)$|core::(option::Option|result::Result)::(\w+)$', sp)
        if m:
            kind = 'Option' if 'Option' in (m.group(1) or m.group(3)) else 'Result'
            meth = m.group(2) or m.group(4)
            r = self.combinator(st, blk, t, kind, meth, args)
            if r is not NotImplemented:
                return r
        if re.search(r'core::ops::(FnOnce::call_once|FnMut::call_mut|Fn::call)$', sp) and len(args) == 2:
            f, tup = args
            if tup[0] == 'agg' and tup[1] == 'tuple':
                r = self.apply(st, f, list(tup[3]), lambda s2, v: self.after(s2, dest, v, target, blk), blk)
                if r is not NotImplemented:
                    return None
        # trivial getters (`fn f(&self) -> T { self.a.b }`) are field reads
        gt = getters(self.facts)
        gp = c.get('resolved') if c.get('resolved') in gt else (path if path in gt and not c.get('trait') else None)
        if gp is not None and len(args) == 1:
            v = args[0]
            for fld in gt[gp]:
                if v[0] == 'agg' and isinstance(v[3], dict) and fld in v[3]:
                    v = v[3][fld]
                else:
                    v = ('f', v, fld)
            return done(v)
        # local helper that is not part of the vocabulary: unfold
        tgt = c.get('resolved') if c.get('resolved') in self.facts.bodies else (path if path in self.facts.bodies and not c.get('trait') else None)
        if tgt is not None and self.unfold is not None and self.unfold(tgt) and self.depth < 4:
            cb = self.facts.bodies[tgt]
            if len(args) == cb.j['arg_count'] and not cb.back_edges():
                env = {i + 1: a for i, a in enumerate(args)}
                sub = Sym(self.facts, cb, env=env, depth=self.depth + 1, unfold=self.unfold, maxrows=self.maxrows)
                for r in sub.rows():
                    if r.end != 'return':
                        continue
                    s2 = st.fork()
                    s2.conds += r.conds
                    s2.effects += r.effects
                    self.after(s2, dest, r.ret, target, blk)
                return None
        v = ('call', path, args, blk)
        st.effects.append(('call', v))
        for a in t['args']:
            if a['k'] in ('copy', 'move') and not a['p']['pr'] and a['p']['l'] in st.mutref:
                l, pt = st.mutref[a['p']['l']][:2]
                while pt[0] == 'upd':
                    pt = pt[1]
                root = pt
                while root[0] in ('f', 'idx', 'dc', 'upd'):
                    root = root[1]
                if root[0] == 'v' and pt[0] in ('f', 'idx', 'dc', 'v'):
                    # the borrowed place lives in memory reachable from an input: later reads below it are new values
                    st.dirty.append((tstr(pt, 100000), blk))
                    st.heap = {k: x for k, x in st.heap.items() if not (k == tstr(pt, 100000) or k.startswith(tstr(pt, 100000)))}
                elif not (self.read_local(st, l)[0] == 'agg' and self.read_local(st, l)[1] == 'closure'):
                    st.env[l] = ('upd', self.read_local(st, l), blk)
        return done(v)

    def after(self, st, dest, v, target, blk):
        self.store(st, dest, v, blk)
        self.run(st, target)

    def payload(self, x, kind, ok):
        if x[0] == 'agg' and isinstance(x[3], dict) and '0' in x[3]:
            return x[3]['0']
        if kind == 'Option':
            return ('f', ('dc', x, 'Some'), '0')
        return ('f', ('dc', x, 'Ok' if ok else 'Err'), '0')

    def fork_on(self, st, x, kind, k):
        """Case split on an Option/Result value x: k(state, ok)."""
        if x[0] == 'agg' and x[2] in ('Some', 'Ok', 'None', 'Err'):
            k(st, x[2] in ('Some', 'Ok'))
            return
        d = ('discr', x)
        key = ckey(d)
        known = None
        for c, v in st.conds:
            if ckey(c) == key:
                known = v
        okv = 1 if kind == 'Option' else 0
        for ok in (True, False):
            val = okv if ok else 1 - okv
            if known is not None:
                if isinstance(known, tuple):
                    if val in known[1]:
                        continue
                elif known != val:
                    continue
            s2 = st.fork()
            if known is None or isinstance(known, tuple):
                s2.conds.append((d, val))
            k(s2, ok)

    def fork_bool(self, st, d, k):
        """Case split on a boolean term: k(state, truth value); decisions already taken stay authoritative."""
        if d[0] == 'c' and isinstance(d[1], (int, bool)):
            k(st, bool(d[1]))
            return
        neg = False
        while d[0] == 'un' and d[1] == 'Not':
            d = d[2]
            neg = not neg
        key = ckey(d)
        known = None
        for c, v in st.conds:
            if ckey(c) == key and isinstance(v, bool):
                known = v
        for val in (True, False):
            if known is not None and known != val:
                continue
            s2 = st.fork()
            if known is None:
                s2.conds.append((d, val))
            k(s2, val != neg)

    def mk(self, kind, variant, v=None):
        adt = 'core::option::Option' if kind == 'Option' else 'core::result::Result'
        return ('agg', adt, variant, {} if v is None else {'0': v})

    def combinator(self, st, blk, t, kind, meth, args):
        dest, target = t['dest'], t['target']
        x = args[0]
        cont = lambda s2, v: self.after(s2, dest, v, target, blk)
        okname, badname = ('Some', 'None') if kind == 'Option' else ('Ok', 'Err')

        def bad_payload():
            return self.payload(x, kind, False) if kind == 'Result' else None

        def keep_bad(s2):
            cont(s2, self.mk(kind, badname, bad_payload()))

        if meth == 'map' and len(args) == 2:
            self.fork_on(st, x, kind, lambda s2, ok: self.apply(s2, args[1], [self.payload(x, kind, True)], lambda s3, v: cont(s3, self.mk(kind, okname, v)), blk, strict=True) if ok else keep_bad(s2))
            return None
        if meth == 'map_err' and len(args) == 2 and kind == 'Result':
            self.fork_on(st, x, kind, lambda s2, ok: cont(s2, self.mk(kind, 'Ok', self.payload(x, kind, True))) if ok else
                         self.apply(s2, args[1], [self.payload(x, kind, False)], lambda s3, v: cont(s3, self.mk(kind, 'Err', v)), blk, strict=True))
            return None
        if meth == 'map_or' and len(args) == 3:
            self.fork_on(st, x, kind, lambda s2, ok: self.apply(s2, args[2], [self.payload(x, kind, True)], cont, blk, strict=True) if ok else cont(s2, args[1]))
            return None
        if meth == 'map_or_else' and len(args) == 3:
            self.fork_on(st, x, kind, lambda s2, ok: self.apply(s2, args[2], [self.payload(x, kind, True)], cont, blk, strict=True) if ok else
                         self.apply(s2, args[1], [] if kind == 'Option' else [self.payload(x, kind, False)], cont, blk, strict=True))
            return None
        if meth == 'and_then' and len(args) == 2:
            self.fork_on(st, x, kind, lambda s2, ok: self.apply(s2, args[1], [self.payload(x, kind, True)], cont, blk, strict=True) if ok else keep_bad(s2))
            return None
        if meth == 'unwrap_or' and len(args) == 2:
            self.fork_on(st, x, kind, lambda s2, ok: cont(s2, self.payload(x, kind, True) if ok else args[1]))
            return None
        if meth == 'unwrap_or_else' and len(args) == 2:
            self.fork_on(st, x, kind, lambda s2, ok: cont(s2, self.payload(x, kind, True)) if ok else
                         self.apply(s2, args[1], [] if kind == 'Option' else [self.payload(x, kind, False)], cont, blk, strict=True))
            return None
        if meth in ('is_some', 'is_ok') and len(args) == 1:
            self.fork_on(st, x, kind, lambda s2, ok: cont(s2, ('c', 1 if ok else 0)))
            return None
        if meth in ('is_none', 'is_err') and len(args) == 1:
            self.fork_on(st, x, kind, lambda s2, ok: cont(s2, ('c', 0 if ok else 1)))
            return None
        if meth in ('unwrap', 'expect') and len(args) in (1, 2):
            def k(s2, ok):
                if ok:
                    cont(s2, self.payload(x, kind, True))
                else:
                    s2.effects.append(('call', ('call', 'core::panicking::panic', [], blk)))
                    s2.path.append(blk)
                    self.emit(s2, 'diverge')
            self.fork_on(st, x, kind, k)
            return None
        if meth == 'ok' and kind == 'Result' and len(args) == 1:
            self.fork_on(st, x, kind, lambda s2, ok: cont(s2, self.mk('Option', 'Some', self.payload(x, kind, True)) if ok else self.mk('Option', 'None')))
            return None
        if meth == 'ok_or' and kind == 'Option' and len(args) == 2:
            self.fork_on(st, x, kind, lambda s2, ok: cont(s2, self.mk('Result', 'Ok', self.payload(x, kind, True)) if ok else self.mk('Result', 'Err', args[1])))
            return None
        if meth == 'ok_or_else' and kind == 'Option' and len(args) == 2:
            self.fork_on(st, x, kind, lambda s2, ok: cont(s2, self.mk('Result', 'Ok', self.payload(x, kind, True))) if ok else
                         self.apply(s2, args[1], [], lambda s3, v: cont(s3, self.mk('Result', 'Err', v)), blk, strict=True))
            return None
        if meth == 'or' and len(args) == 2 and kind == 'Option':
            self.fork_on(st, x, kind, lambda s2, ok: cont(s2, x if ok else args[1]))
            return None
        if meth == 'filter' and len(args) == 2 and kind == 'Option':
            def k(s2, ok):
                if not ok:
                    cont(s2, self.mk('Option', 'None'))
                    return

                def after_pred(s3, v):
                    if v[0] == 'c':
                        cont(s3, x if v[1] else self.mk('Option', 'None'))
                        return
                    for val in (True, False):
                        s4 = s3.fork()
                        s4.conds.append((v, val))
                        cont(s4, x if val else self.mk('Option', 'None'))
                self.apply(s2, args[1], [self.payload(x, kind, True)], after_pred, blk, strict=True)
            self.fork_on(st, x, kind, k)
            return None
        return NotImplemented

    def apply(self, st, f, argv, k, blk, strict=False):
        """Apply function value f to argument terms; continue with k(state, value) per outcome."""
        facts = self.facts
        if f[0] == 'agg' and f[1] == 'closure' and f[2] in facts.bodies and self.depth < 5:
            cb = facts.bodies[f[2]]
            if len(argv) == cb.j['arg_count'] - 1:
                # the body runs in a frame of its own: a capture of `&mut <local of this frame>` is passed as the plain reference
                if isinstance(f[3], list) and any(isinstance(o, tuple) and o and o[0] == 'mref' for o in f[3]):
                    f = ('agg', 'closure', f[2], [o[2] if (isinstance(o, tuple) and o and o[0] == 'mref') else o for o in f[3]])
                env = {1: f}
                for i, a in enumerate(argv):
                    env[i + 2] = a
                sub = Sym(facts, cb, env=env, depth=self.depth + 1, unfold=self.unfold, maxrows=self.maxrows)
                rows = sub.rows()
                for r in rows:
                    s2 = st.fork()
                    # decisions already taken in the caller stay authoritative
                    for c, v in r.conds:
                        s2.conds.append((c, v))
                    s2.effects += r.effects
                    if r.end == 'return':
                        k(s2, r.ret)
                    else:
                        s2.path.append(blk)
                        self.emit(s2, 'diverge')
                return None
        if f[0] == 's' and f[1].startswith('fn:'):
            p = f[1][3:]
            # enum variant / tuple struct constructor
            head, _, last = p.rpartition('::')
            if head in facts.adts and any(v['name'] == last for v in facts.adts[head]['variants']):
                k(st, ('agg', head, last, {str(i): a for i, a in enumerate(argv)}))
                return None
            if p in facts.adts and facts.adts[p]['kind'] == 'Struct':
                k(st, ('agg', p, facts.adts[p]['variants'][0]['name'] if facts.adts[p]['variants'] else '', {str(i): a for i, a in enumerate(argv)}))
                return None
            sp = short(p)
            if sp in ('core::option::Option::Some', 'core::result::Result::Ok', 'core::result::Result::Err'):
                adt, var = sp.rsplit('::', 1)
                k(st, ('agg', adt, var, {'0': argv[0]}))
                return None
            if sp in CONV and len(argv) == 1:
                k(st, ('conv', sp.rsplit('::', 1)[1], argv[0]))
                return None
            v = ('call', p, argv, blk)
            st.effects.append(('call', v))
            k(st, v)
            return None
        if strict:
            v = ('call', 'indirect', [f] + argv, blk)
            st.effects.append(('call', v))
            k(st, v)
            return None
        return NotImplemented


# ---------------------------------------------------------------------- canonical form and matching helpers
COMM = ('Add', 'Mul', 'BitAnd', 'BitOr', 'BitXor', 'Eq', 'Ne')
FLIP = {'Gt': 'Lt', 'Ge': 'Le'}


def canon(t):
    """Spelling-independent normal form: conversions and integer widenings dropped, commutative operands sorted, > / >= turned
    into < / <=, max/min arguments sorted, call-site block numbers removed."""
    if not isinstance(t, tuple):
        return t
    k = t[0]
    if k == 'conv':
        return canon(t[2])
    if k == 'cast' and ('IntToInt' in t[1]):
        return canon(t[2])
    if k == 'upd':
        return canon(t[1])
    if k == 'op':
        o = t[1].replace('Unchecked', '')
        a, b = canon(t[2]), canon(t[3])
        if o in FLIP:
            o, a, b = FLIP[o], b, a
        if o in COMM and tstr(a, 100000) > tstr(b, 100000):
            a, b = b, a
        return ('op', o, a, b)
    if k == 'call':
        args = [canon(a) for a in t[2]]
        sp = short(t[1])
        if re.search(r'core::cmp::(Ord::)?(max|min)$', sp):
            args = sorted(args, key=lambda x: tstr(x, 100000))
            sp = 'core::cmp::' + sp.rsplit('::', 1)[1]
        if re.search(r'core::num::(wrapping_add|saturating_add)$', sp):
            args = sorted(args, key=lambda x: tstr(x, 100000))
        return ('call', sp, args, None)
    if k == 'agg':
        if isinstance(t[3], dict):
            return ('agg', t[1], t[2], {f: canon(v) for f, v in t[3].items()})
        return ('agg', t[1], t[2], [canon(v) for v in t[3]])
    if k == 'v':
        return t
    out = []
    for x in t:
        if isinstance(x, tuple):
            out.append(canon(x))
        elif isinstance(x, list):
            out.append([canon(y) if isinstance(y, tuple) else y for y in x])
        else:
            out.append(x)
    return tuple(out)


def cstr(t):
    return tstr(canon(t), 100000)


def summarize(facts, body, **kw):
    from .inline import vocab
    kw.setdefault('unfold', lambda p: p not in vocab() and facts.bodies[p].j.get('kind') != 'Closure')
    return Sym(facts, body, **kw).rows()


def enum_table(facts, rows, adt, scrut=None):
    """{variant name: [rows]} for rows deciding on the discriminant of a value of enum `adt` (`scrut`: predicate on the
    scrutinee term). Catch-all decisions are expanded to the variants they cover. Rows not deciding on it appear under every
    variant."""
    names = [v['name'] for v in facts.adts[adt]['variants']]
    out = {n: [] for n in names}
    for r in rows:
        v = None
        for c, val in r.conds:
            if c[0] == 'discr' and (scrut is None or scrut(c[1])):
                v = val
                break
        if v is None:
            for n in names:
                out[n].append(r)
        elif isinstance(v, tuple):
            for i, n in enumerate(names):
                if i not in v[1]:
                    out[n].append(r)
        elif isinstance(v, int) and v < len(names):
            out[names[v]].append(r)
    return out


def teval(term, atoms):
    """Value of a closed term under an assignment of its input terms (atoms: term -> value or None)."""
    from .rl import Eval
    return Eval(None, atoms).val(term)


def row_holds(row, atoms):
    """Does the assignment select this row? (all branch decisions of the row evaluate to the recorded outcome)"""
    for c, v in row.conds:
        x = teval(c, atoms)
        if isinstance(v, bool):
            if bool(x) != v:
                return False
        elif isinstance(v, tuple):
            if x in v[1]:
                return False
        elif x != v:
            return False
    return True


def by_cstr(mapping):
    """atoms function from {canonical string: value}"""
    def atoms(t):
        return mapping.get(cstr(t))
    return atoms


def loop_rows(facts, body, header, env_extra=None, unfold='default'):
    if env_extra is None and unfold == 'default':
        cache = facts.__dict__.setdefault('_loop_rows', {})
        key = (body.path, id(body), header)
        if key not in cache:
            cache[key] = _loop_rows(facts, body, header, None, 'default')
        return cache[key]
    return _loop_rows(facts, body, header, env_extra, unfold)


def _loop_rows(facts, body, header, env_extra=None, unfold='default'):
    """Path summaries of ONE iteration of the natural loop `header` (from the header back to it, to an enclosing header, or
    out of the function). Locals that the loop does not modify are bound to the value they have on arrival at the loop
    (when all arrival paths agree); inner loops are abstracted (havoc + last partial iteration)."""
    from .inline import vocab
    uf = (lambda p: p not in vocab() and facts.bodies[p].j.get('kind') != 'Closure') if unfold == 'default' else unfold
    loops = body.loops()
    if header not in loops:
        raise KeyError('no loop at block %d' % header)
    s0 = Sym(facts, body, start=0, stop={header}, unfold=uf)
    mods, _ = s0.loop_mods(header)
    arrive = [r for r in s0.rows() if r.end == ('stop', header)]
    env = {}
    defaults = {repr(s0.default_local(l)): l for l in mods}

    # memory the loop writes: a read of it inside an arrival value is the value on arrival
    wpfx = []
    if arrive:
        st0 = _State()
        st0.env = dict(arrive[0].env)
        for pl in s0._written.get(header, []):
            base = s0.read_local(st0, pl['l'])
            while base[0] == 'upd':
                base = base[1]
            root = base
            while root[0] in ('f', 'idx', 'dc', 'upd'):
                root = root[1]
            if root[0] != 'v':
                continue
            pt = base
            for pr in pl['pr']:
                if pr == '*':
                    continue
                if isinstance(pr, dict) and 'f' in pr:
                    pt = ('f', pt, pr['f'])
                else:
                    break
            wpfx.append(tstr(pt, 100000))

    def at_entry(t):
        """a loop-modified local (or loop-written memory) mentioned in an arrival value denotes its value on arrival, not
        the current one"""
        if not isinstance(t, tuple):
            return t
        if t[0] in ('v', 't') and repr(t) in defaults:
            return ('v0', t[1] if t[0] == 'v' else '_%d' % t[1], defaults[repr(t)])
        if t[0] in ('f', 'idx') and wpfx:
            s = tstr(t, 100000)
            if any(s == q or (s.startswith(q) and s[len(q)] in '.[') for q in wpfx):
                return ('old', t)
        out = []
        for x in t:
            if isinstance(x, tuple):
                out.append(at_entry(x))
            elif isinstance(x, list):
                out.append([at_entry(y) if isinstance(y, tuple) else y for y in x])
            elif isinstance(x, dict):
                out.append({k: (at_entry(v) if isinstance(v, tuple) else v) for k, v in x.items()})
            else:
                out.append(x)
        return tuple(out)
    if arrive:
        for l, v in arrive[0].env.items():
            if (l in mods and not (v[0] == 'agg' and v[1] == 'closure')) or l == 0:
                continue
            k = cstr(v)
            if all(l in r.env and cstr(r.env[l]) == k for r in arrive[1:]):
                env[l] = at_entry(v)
    if env_extra:
        env.update(env_extra)
    enclosing = {h for h, blks in loops.items() if header in blks and h != header}
    return Sym(facts, body, start=header, stop={header} | enclosing, env=env, unfold=uf).rows()


def innermost_loop(body, block):
    loops = body.loops()
    hs = [h for h, blks in loops.items() if block in blks]
    return min(hs, key=lambda h: len(loops[h])) if hs else None


def find(t, pred):
    """first subterm satisfying pred"""
    from .mir import subterms
    for s in subterms(t):
        if pred(s):
            return s
    return None


def getters(facts):
    """{body path: [field, ...]} for functions that only return a (nested) field of their single parameter."""
    g = facts.__dict__.get('_getters')
    if g is not None:
        return g
    out = {}
    facts.__dict__['_getters'] = out
    for rnd in range(3):
        new = {}
        for p, b in facts.bodies.items():
            j = b.j
            if p in out or j.get('arg_count') != 1 or len(j['blocks']) > 5 or j.get('kind') == 'Closure':
                continue
            if rnd == 0 and any(blk['term']['k'] == 'call' for blk in j['blocks']):
                continue
            try:
                rows = Sym(facts, b).rows()
            except Exception:
                continue
            if len(rows) != 1 or rows[0].end != 'return' or rows[0].effects or rows[0].conds or rows[0].ret is None:
                continue
            t = rows[0].ret
            chain = []
            while t[0] == 'f' and isinstance(t[2], str):
                chain.append(t[2])
                t = t[1]
            if chain and t[0] == 'v' and t[2] == 1:
                new[p] = list(reversed(chain))
        if not new:
            break
        out.update(new)
    return out


def row_consistent(row, atoms):
    """Like row_holds, but decisions that cannot be evaluated under the (partial) assignment are ignored: False only if some
    evaluable decision contradicts the assignment."""
    from .rl import Unsupported, EvalPanic
    for c, v in row.conds:
        try:
            x = teval(c, atoms)
        except (Unsupported, EvalPanic, KeyError, TypeError, IndexError):
            continue
        if isinstance(x, tuple):
            continue
        if isinstance(v, bool):
            if bool(x) != v:
                return False
        elif isinstance(v, tuple):
            if x in v[1]:
                return False
        elif x != v:
            return False
    return True


class SimError(Exception):
    pass


def simulate(facts, body, inputs, maxiter=64, extra_atoms=None):
    """Walk the summaries of a function with at most one level of loops for ONE assignment of its inputs
    (inputs: canonical string of an input term -> integer). At every decision point exactly one summary row must be
    selected by the assignment. Returns (events, end, ret) where events = [(callee short path, call block, [argument values
    or None])] in program order. This evaluates the decision table the summaries form; it is used on small finite grids
    that cover every ordering of the inputs."""
    from .rl import Unsupported, EvalPanic
    loops = body.loops()
    outer = [h for h in loops if not any(h in blks and h2 != h for h2, blks in loops.items())]
    sym = Sym(facts, body)
    events = []

    def mk_atoms(state, state0):
        def atoms(t):
            if t[0] == 'v0':
                return state0.get(t[2])
            if t[0] in ('v', 't'):
                l = t[2] if t[0] == 'v' else t[1]
                if l in state and repr(sym.default_local(l)) == repr(t):
                    return state[l]
            if extra_atoms is not None:
                x = extra_atoms(t)
                if x is not None:
                    return x
            return inputs.get(cstr(t))
        return atoms

    def pick(rows, atoms, where):
        sel = [r for r in rows if row_consistent(r, atoms)]
        live = [r for r in sel if r.end != 'diverge']
        if len(live) == 1:
            return live[0]
        if not live and len(sel) == 1:
            return sel[0]
        unknown = []
        for r in live:
            for c, v in r.conds:
                try:
                    teval(c, atoms)
                except (Unsupported, EvalPanic, KeyError, TypeError, IndexError):
                    unknown.append(cstr(c)[:80])
        raise SimError('%s: %d paths selected%s' % (where, len(live), (' (undecided: %s)' % sorted(set(unknown))[:3]) if unknown else ''))

    def record(r, atoms):
        for e in r.effects:
            if e[0] != 'call':
                continue
            vals = []
            for a in e[1][2]:
                try:
                    v = teval(a, atoms)
                    vals.append(v if isinstance(v, int) else None)
                except (Unsupported, EvalPanic, KeyError, TypeError):
                    vals.append(None)
            events.append((short(e[1][1]), e[1][3], vals, e[1][2], r))

    state = {}
    at0 = mk_atoms({}, {})
    r = pick(Sym(facts, body, start=0, stop=set(outer)).rows(), at0, 'entry')
    record(r, at0)
    steps = 0
    while r.end not in ('return', 'diverge'):
        h = r.end[1]
        mods, _ = sym.loop_mods(h)
        if not state.get('_in') == h:
            # arrival: concrete values of the loop-carried locals
            st = {}
            for l in mods:
                try:
                    v = teval(r.env.get(l, sym.default_local(l)), mk_atoms(state, state.get('_s0', {})))
                    if isinstance(v, int):
                        st[l] = v
                except (Unsupported, EvalPanic, KeyError, TypeError):
                    pass
            state = dict(st)
            state['_s0'] = dict(st)
            state['_in'] = h
        atoms = mk_atoms(state, state['_s0'])
        r = pick([x for x in loop_rows(facts, body, h)], atoms, 'iteration of the loop at bb%d' % h)
        record(r, atoms)
        if r.end == ('stop', h):
            new = dict(state)
            for l in mods:
                if l in r.env:
                    try:
                        v = teval(r.env[l], atoms)
                        if isinstance(v, int):
                            new[l] = v
                        else:
                            new.pop(l, None)
                    except (Unsupported, EvalPanic, KeyError, TypeError):
                        new.pop(l, None)
            state = new
        steps += 1
        if steps > maxiter:
            raise SimError('more than %d iterations' % maxiter)
    ret = None
    if r.ret is not None:
        try:
            ret = teval(r.ret, mk_atoms(state, state.get('_s0', {})))
        except (Unsupported, EvalPanic, KeyError, TypeError):
            ret = r.ret
    return events, r.end, ret


def is_some_of(facts, body):
    """If the (loop-free) function returns `X.is_some()` in any spelling -- the combinator, a `match` on X producing
    true / false, `X != None` -- return the term X (canonical), else None."""
    rows = [r for r in summarize(facts, body) if r.end == 'return']
    X = None
    for r in rows:
        if r.ret not in (('c', 0), ('c', 1)):
            return None
        ds = [(c[1], v) for c, v in r.conds if c[0] == 'discr']
        if len(ds) < 1:
            return None
        x, v = ds[-1]
        some = (v == 1)
        if (r.ret == ('c', 1)) != some:
            return None
        if X is None:
            X = x
        elif cstr(X) != cstr(x):
            return None
    return canon(X) if X is not None and len(rows) >= 2 else None


def strip_old(t):
    """Drop the 'value on arrival at the loop' marks: for memory that the rule knows the loop does not change."""
    if not isinstance(t, tuple):
        return t
    if t[0] == 'old':
        return strip_old(t[1])
    out = []
    for x in t:
        if isinstance(x, tuple):
            out.append(strip_old(x))
        elif isinstance(x, list):
            out.append([strip_old(y) if isinstance(y, tuple) else y for y in x])
        elif isinstance(x, dict):
            out.append({k: (strip_old(v) if isinstance(v, tuple) else v) for k, v in x.items()})
        else:
            out.append(x)
    return tuple(out)


def fn_summary_key(facts, body, perm=None, maxrows=48):
    """Spelling-independent fingerprint of a loop-free function: its path summaries with the parameters replaced by
    positional placeholders (perm: current position -> reference position, 0-based). None for functions with loops or too
    many paths. Used only to recognise a vocabulary function after a rename / parameter reordering."""
    if body.back_edges():
        return None
    n = body.j['arg_count']
    perm = perm or list(range(n))

    def ph(t):
        if not isinstance(t, tuple):
            return t
        if t[0] == 'v' and isinstance(t[2], int) and 1 <= t[2] <= n:
            return ('v', 'P%d' % (perm[t[2] - 1] + 1), 0)
        if t[0] == 'call':
            return ('call', t[1], [ph(a) for a in t[2]], None)
        out = []
        for x in t:
            if isinstance(x, tuple):
                out.append(ph(x))
            elif isinstance(x, list):
                out.append([ph(y) if isinstance(y, tuple) else y for y in x])
            elif isinstance(x, dict):
                out.append({k: (ph(v) if isinstance(v, tuple) else v) for k, v in x.items()})
            else:
                out.append(x)
        return tuple(out)
    try:
        rows = Sym(facts, body, maxrows=maxrows).rows()
    except Exception:
        return None
    items = []
    for r in rows:
        if r.end == 'diverge':
            continue
        conds = sorted('%s=%s' % (cstr(ph(c)), v) for c, v in r.conds)
        eff = [('%s:=%s' % (cstr(ph(e[1])), cstr(ph(e[2]))) if e[0] == 'store' else cstr(ph(e[1]))) for e in r.effects if e[0] in ('call', 'store')]
        items.append('|'.join(conds) + ' => ' + (cstr(ph(r.ret)) if r.ret is not None else '-') + ' ; ' + ','.join(eff))
    return '\n'.join(sorted(items))


def live_in(facts, body, header):
    """Locals modified by the loop whose value on arrival at the header is read by an iteration (the loop-carried state)."""
    s0 = Sym(facts, body)
    mods, _ = s0.loop_mods(header)
    defaults = {repr(s0.default_local(l)): l for l in mods}
    out = set()
    for r in loop_rows(facts, body, header):
        terms = [c for c, _ in r.conds] + [x for e in r.effects for x in e[1:3] if isinstance(x, tuple)]
        if r.ret is not None:
            terms.append(r.ret)
        for l in mods:
            v = r.env.get(l)
            if v is not None and repr(v) not in defaults:
                terms.append(v)
        for t in terms:
            _scan_defaults(t, defaults, out)
    return out


def _scan_defaults(t, defaults, out):
    if not isinstance(t, tuple):
        return
    if t[0] == 'phi':
        return      # the value an inner loop left in a local; its entry component is not a read
    if t[0] in ('v', 't') and repr(t) in defaults:
        out.add(defaults[repr(t)])
        return
    for x in t[1:]:
        if isinstance(x, tuple):
            _scan_defaults(x, defaults, out)
        elif isinstance(x, list):
            for y in x:
                _scan_defaults(y, defaults, out)
        elif isinstance(x, dict):
            for y in x.values():
                _scan_defaults(y, defaults, out)

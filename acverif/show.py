"""python3 -m acverif.show <facts.json> <regex> : readable dump of matching bodies (terms reconstructed)."""
import sys
from .mir import Facts, tstr


def show(b):
    print('==== %s  (%s:%d)' % (b.path, b.file, b.line))
    live = b.live_blocks()
    for i in range(b.n):
        if i not in live:
            continue
        blk = b.blocks[i]
        print(' bb%d:' % i)
        for st in blk['stmts']:
            if st['k'] == 'assign':
                p = st['p']
                named = b.locals[p['l']]['names']
                if not p['pr'] and not named and len(b.defs().get(p['l'], [])) == 1:
                    continue  # single-def temp, will be inlined into its use
                print('    %s = %s    @%d' % (tstr(b.place_term(p)) if (p['pr'] or named) else '_%d' % p['l'], tstr(b.rvalue_term(st['r'], 0, i)), st['loc'][1]))
            else:
                print('    ', st['k'], st.get('text', ''))
        t = blk['term']
        k = t['k']
        if k == 'call':
            d = t['dest']
            named = b.locals[d['l']]['names']
            ct = b.call_term(i, t)
            single = not d['pr'] and not named and len(b.defs().get(d['l'], [])) == 1
            print('    %s%s -> bb%s    @%d' % ('' if single else tstr(b.place_term(d)) + ' = ' if (d['pr'] or named) else '_%d = ' % d['l'] if not single else '', tstr(ct), t['target'], t['loc'][1]))
        elif k == 'switch':
            sc = b.switch_cond(i)
            if sc[0] == 'bool':
                print('    if %s -> T%s F%s' % (tstr(sc[1]), sc[2], sc[3]))
            else:
                print('    switch %s -> %s else bb%s' % (tstr(sc[1]), sc[2], sc[3]))
        elif k == 'assert':
            print('    assert(%s == %s) [%s] -> bb%s' % (tstr(b.operand_term(t['cond'], 0, i)), t['expected'], t['msg'], t['target']))
        elif k == 'drop':
            print('    drop(%s) -> bb%s' % (tstr(b.place_term(t['p'])), t['target']))
        elif k == 'goto':
            print('    goto bb%s' % t['target'])
        else:
            print('    ' + k)


if __name__ == '__main__':
    f = Facts(sys.argv[1])
    for b in f.find(sys.argv[2]):
        show(b)

"""MIR-level desugaring of terminal iterator adaptors with a closure literal into the loop they stand for.

`it.for_each(|x| body)`, `it.any(|x| p)`, `it.all(..)`, `it.position(..)`, `it.find(..)`, `it.find_map(..)`, `it.fold(init, ..)`
are the same computation as a `for` loop over `it` with the closure body inlined.  The reference tree uses none of them; a
refactoring that rewrites a loop into one of these forms must not change a verdict, so before the rules look at a body the
call is replaced by the loop a `for` statement would have produced (header: `Iterator::next(&mut it)`, switch on the
discriminant, body = the closure's blocks with the environment parameter bound to the closure value).

Only calls whose function argument is a closure built in the same body are rewritten; everything else stays an opaque call."""
import copy

from .inline import _remap_block

BYVAL = {'for_each': 2, 'fold': 3}
BYREF = {'any': 2, 'all': 2, 'position': 2, 'find': 2, 'find_map': 2}


def _cst(ty, val, text):
    return {'k': 'const', 'ty': ty, 'def': None, 'promoted': False, 'val': val, 'text': text}


def _pl(l, pr=None):
    return {'l': l, 'pr': pr or []}


def _asg(l, r, loc):
    return {'k': 'assign', 'p': _pl(l), 'r': r, 'loc': loc}


def _use(op):
    return {'k': 'use', 'a': op}


def _opt(variant, ops):
    return {'k': 'agg', 'agg': 'adt', 'adt': 'core::option::Option', 'variant': variant, 'fields': ['0'] if ops else [], 'ops': ops}


def _closure_defs(j):
    d = {}
    for blk in j['blocks']:
        for st in blk['stmts']:
            if st['k'] == 'assign' and not st['p']['pr']:
                l = st['p']['l']
                r = st['r']
                if r.get('k') == 'agg' and r.get('agg') == 'closure':
                    d.setdefault(l, []).append(r['closure'])
                else:
                    d.setdefault(l, []).append(None)
        t = blk['term']
        if t['k'] == 'call' and not t['dest']['pr']:
            d.setdefault(t['dest']['l'], []).append(None)
    return d


def _single_def(j, l):
    """the one definition of local l: ('assign', rvalue) | ('call', term) | None"""
    found = []
    for blk in j['blocks']:
        for st in blk['stmts']:
            if st['k'] == 'assign' and st['p']['l'] == l and not st['p']['pr']:
                found.append(('assign', st['r']))
        t = blk['term']
        if t['k'] == 'call' and t['dest']['l'] == l and not t['dest']['pr']:
            found.append(('call', t))
    return found[0] if len(found) == 1 else None


def _fixed_array_source(j, a0):
    """`arr.iter()` over a fixed-size array behind the `&mut Iter` handed to a by-reference adaptor: (array place, length)"""
    import re
    if a0.get('k') not in ('move', 'copy') or a0['p']['pr']:
        return None
    d = _single_def(j, a0['p']['l'])
    if not d or d[0] != 'assign' or d[1].get('k') != 'ref' or d[1]['p']['pr']:
        return None
    d = _single_def(j, d[1]['p']['l'])
    if not d or d[0] != 'call' or not re.search(r'core::slice::(<impl \[T\]>::)?iter$', d[1]['callee'].get('path', '')) or len(d[1]['args']) != 1:
        return None
    a = d[1]['args'][0]
    for _ in range(3):
        if a.get('k') not in ('move', 'copy') or a['p']['pr']:
            return None
        d = _single_def(j, a['p']['l'])
        if not d or d[0] != 'assign':
            return None
        r = d[1]
        if r.get('k') == 'cast' and 'Unsize' in r.get('ck', ''):
            m = re.match(r'^&\[(.+); (\d+)\]$', r.get('from', ''))
            if not m:
                return None
            n = int(m.group(2))
            a = r['a']
            if a.get('k') not in ('move', 'copy') or a['p']['pr']:
                return None
            d2 = _single_def(j, a['p']['l'])
            if not d2 or d2[0] != 'assign' or d2[1].get('k') != 'ref':
                return None
            return d2[1]['p'], n, m.group(1)
        if r.get('k') == 'use':
            a = r['a']
            continue
        return None
    return None


def desugar_body(j, bodies):
    """bodies: path -> body json (closure bodies already desugared). Rewrites j in place; returns the number of rewrites."""
    n = 0
    cd = None
    for bi in range(len(j['blocks'])):
        t = j['blocks'][bi]['term']
        if t['k'] != 'call':
            continue
        c = t['callee']
        if c.get('trait') != 'core::iter::Iterator' or c.get('local'):
            continue
        name = c.get('name')
        want = BYVAL.get(name) or BYREF.get(name)
        if want is None or len(t['args']) != want or t.get('target') is None:
            continue
        f = t['args'][-1]
        if f.get('k') not in ('move', 'copy') or f['p']['pr']:
            continue
        if cd is None:
            cd = _closure_defs(j)
        ds = cd.get(f['p']['l'], [])
        if len(ds) != 1 or ds[0] is None or ds[0] not in bodies:
            continue
        cj = bodies[ds[0]]
        if cj['arg_count'] != want:
            continue
        loc = t['loc']
        L = j['locals']

        def new(ty):
            L.append({'ty': ty, 'names': [], 'mut': True})
            return len(L) - 1

        def newblock(stmts, term):
            j['blocks'].append({'cleanup': False, 'stmts': stmts, 'term': term})
            return len(j['blocks']) - 1

        if name in ('position', 'any', 'all'):
            fa = _fixed_array_source(j, t['args'][0])
            if fa is not None and fa[1] <= 8 and _unroll(j, bi, t, name, f, cj, fa, new, newblock):
                j.setdefault('desugared', []).append([name + '/unrolled', ds[0]])
                cd = None
                n += 1
                continue
        pre = j['blocks'][bi]['stmts']
        self_ty = c.get('self_ty') or '?'
        item_ty = cj['locals'][want]['ty']
        if name == 'find' and item_ty.startswith('&'):
            item_ty = item_ty[1:]
        if name in BYVAL:
            IT = new(self_ty)
            RF = new('&mut ' + self_ty)
            pre.append(_asg(IT, _use(t['args'][0]), loc))
            pre.append(_asg(RF, {'k': 'ref', 'mut': True, 'p': _pl(IT)}, loc))
            rf = {'k': 'copy', 'p': _pl(RF)}
        else:
            a0 = t['args'][0]
            rf = {'k': 'copy', 'p': a0['p']} if a0.get('k') in ('move', 'copy') else a0
        NX = new('core::option::Option<%s>' % item_ty)
        DS = new('isize')
        X = new(item_ty)
        R = new(cj['locals'][0]['ty'])
        CNT = ACC = None
        if name == 'position':
            CNT = new('usize')
            pre.append(_asg(CNT, _use(_cst('usize', 0, '0_usize')), loc))
        if name == 'fold':
            ACC = new(cj['locals'][1 + 1]['ty'])
            pre.append(_asg(ACC, _use(t['args'][1]), loc))
        dest, T = t['dest'], t['target']
        unr = newblock([], {'k': 'unreachable', 'loc': loc})
        # exhausted
        if name == 'for_each':
            xr = _use(_cst('()', None, '()'))
        elif name == 'any':
            xr = _use(_cst('bool', 0, 'false'))
        elif name == 'all':
            xr = _use(_cst('bool', 1, 'true'))
        elif name == 'fold':
            xr = _use({'k': 'move', 'p': _pl(ACC)})
        else:
            xr = _opt('None', [])
        XB = newblock([{'k': 'assign', 'p': dest, 'r': xr, 'loc': loc}], {'k': 'goto', 'target': T, 'loc': loc})
        # header
        nc = {'path': 'core::iter::Iterator::next', 'full': '<%s as core::iter::Iterator>::next' % self_ty, 'gargs': [self_ty], 'local': False,
              'name': 'next', 'unsafe': False, 'output': 'core::option::Option<%s>' % item_ty, 'abi': 'Rust', 'trait': 'core::iter::Iterator',
              'self_ty': self_ty, 'resolved_local': False}
        H = newblock([], None)
        SW = newblock([_asg(DS, {'k': 'discr', 'p': _pl(NX), 'of': 'core::option::Option<%s>' % item_ty}, loc)], None)
        j['blocks'][H]['term'] = {'k': 'call', 'callee': nc, 'args': [rf], 'dest': _pl(NX), 'target': SW, 'unwind': None, 'loc': loc}
        # closure body
        loff = len(L)
        boff_holder = []
        AFT = newblock([], None)
        BB = newblock([], None)
        boff = len(j['blocks'])
        poff = len(j.get('promoted', []))
        for i, l in enumerate(cj['locals']):
            l = dict(l)
            if i <= cj['arg_count']:
                l['names'] = [] if i <= 1 else l.get('names', [])
            L.append(l)
        j['promoted'] = list(j.get('promoted', [])) + list(cj.get('promoted', []))
        for blk in copy.deepcopy(cj['blocks']):
            j['blocks'].append(_remap_block(blk, loff, boff, poff, AFT, _pl(R), loff))
        some0 = [{'dc': 'Some'}, {'f': '0', 'i': 0, 'of': 'core::option::Option', 'ty': item_ty}]
        bst = [_asg(X, _use({'k': 'move', 'p': _pl(NX, some0)}), loc),
               _asg(loff + 1, _use({'k': 'copy', 'p': f['p']}), loc)]
        if name == 'fold':
            bst.append(_asg(loff + 2, _use({'k': 'move', 'p': _pl(ACC)}), loc))
            bst.append(_asg(loff + 3, _use({'k': 'copy', 'p': _pl(X)}), loc))
        elif name == 'find':
            bst.append(_asg(loff + 2, {'k': 'ref', 'mut': False, 'p': _pl(X)}, loc))
        else:
            bst.append(_asg(loff + 2, _use({'k': 'copy', 'p': _pl(X)}), loc))
        j['blocks'][BB]['stmts'] = bst
        j['blocks'][BB]['term'] = {'k': 'goto', 'target': boff, 'loc': loc}
        j['blocks'][SW]['term'] = {'k': 'switch', 'discr': {'k': 'move', 'p': _pl(DS)}, 'discr_ty': 'isize', 'arms': [[0, XB], [1, BB]], 'otherwise': unr, 'loc': loc}
        # after one application
        rop = {'k': 'copy', 'p': _pl(R)}

        def bsw(zero, other):
            return {'k': 'switch', 'discr': rop, 'discr_ty': 'bool', 'arms': [[0, zero]], 'otherwise': other, 'loc': loc}
        if name == 'for_each':
            at = {'k': 'goto', 'target': H, 'loc': loc}
        elif name == 'fold':
            j['blocks'][AFT]['stmts'].append(_asg(ACC, _use({'k': 'move', 'p': _pl(R)}), loc))
            at = {'k': 'goto', 'target': H, 'loc': loc}
        elif name == 'any':
            Y = newblock([{'k': 'assign', 'p': dest, 'r': _use(_cst('bool', 1, 'true')), 'loc': loc}], {'k': 'goto', 'target': T, 'loc': loc})
            at = bsw(H, Y)
        elif name == 'all':
            N = newblock([{'k': 'assign', 'p': dest, 'r': _use(_cst('bool', 0, 'false')), 'loc': loc}], {'k': 'goto', 'target': T, 'loc': loc})
            at = bsw(N, H)
        elif name == 'position':
            Y = newblock([{'k': 'assign', 'p': dest, 'r': _opt('Some', [{'k': 'copy', 'p': _pl(CNT)}]), 'loc': loc}], {'k': 'goto', 'target': T, 'loc': loc})
            I = newblock([_asg(CNT, {'k': 'bin', 'op': 'Add', 'a': {'k': 'copy', 'p': _pl(CNT)}, 'b': _cst('usize', 1, '1_usize')}, loc)], {'k': 'goto', 'target': H, 'loc': loc})
            at = bsw(I, Y)
        elif name == 'find':
            Y = newblock([{'k': 'assign', 'p': dest, 'r': _opt('Some', [{'k': 'move', 'p': _pl(X)}]), 'loc': loc}], {'k': 'goto', 'target': T, 'loc': loc})
            at = bsw(H, Y)
        else:   # find_map
            DS2 = new('isize')
            j['blocks'][AFT]['stmts'].append(_asg(DS2, {'k': 'discr', 'p': _pl(R), 'of': cj['locals'][0]['ty']}, loc))
            Y = newblock([{'k': 'assign', 'p': dest, 'r': _use({'k': 'move', 'p': _pl(R)}), 'loc': loc}], {'k': 'goto', 'target': T, 'loc': loc})
            at = {'k': 'switch', 'discr': {'k': 'move', 'p': _pl(DS2)}, 'discr_ty': 'isize', 'arms': [[0, H], [1, Y]], 'otherwise': unr, 'loc': loc}
        j['blocks'][AFT]['term'] = at
        j['blocks'][bi]['term'] = {'k': 'goto', 'target': H, 'loc': loc}
        j.setdefault('desugared', []).append([name, ds[0]])
        cd = None
        n += 1
    return n


def _unroll(j, bi, t, name, f, cj, fa, new, newblock):
    """position / any / all over a fixed-size array: the chain of tests `pred(&a[0])`, `pred(&a[1])`, .. the unrolled spelling
    would have produced"""
    arr, n, elem = fa
    loc = t['loc']
    dest, T = t['dest'], t['target']
    L = j['locals']
    if name == 'position':
        xr = _opt('None', [])
    else:
        xr = _use(_cst('bool', 0 if name == 'any' else 1, 'false' if name == 'any' else 'true'))
    XB = newblock([{'k': 'assign', 'p': dest, 'r': xr, 'loc': loc}], {'k': 'goto', 'target': T, 'loc': loc})
    nxt = XB
    for k in reversed(range(n)):
        loff = len(L)
        for i, l in enumerate(cj['locals']):
            l = dict(l)
            if i <= 1:
                l['names'] = []
            L.append(l)
        poff = len(j.get('promoted', []))
        j['promoted'] = list(j.get('promoted', [])) + list(cj.get('promoted', []))
        R = new(cj['locals'][0]['ty'])
        AFT = newblock([], None)
        BB = newblock([], None)
        boff = len(j['blocks'])
        for blk in copy.deepcopy(cj['blocks']):
            j['blocks'].append(_remap_block(blk, loff, boff, poff, AFT, _pl(R), loff))
        elt = {'l': arr['l'], 'pr': list(arr['pr']) + [{'cidx': k, 'from_end': False}]}
        j['blocks'][BB]['stmts'] = [_asg(loff + 1, _use({'k': 'copy', 'p': f['p']}), loc),
                                    _asg(loff + 2, {'k': 'ref', 'mut': False, 'p': elt}, loc)]
        j['blocks'][BB]['term'] = {'k': 'goto', 'target': boff, 'loc': loc}
        if name == 'position':
            hit = newblock([{'k': 'assign', 'p': dest, 'r': _opt('Some', [_cst('usize', k, '%d_usize' % k)]), 'loc': loc}], {'k': 'goto', 'target': T, 'loc': loc})
            at = {'k': 'switch', 'discr': {'k': 'copy', 'p': _pl(R)}, 'discr_ty': 'bool', 'arms': [[0, nxt]], 'otherwise': hit, 'loc': loc}
        elif name == 'any':
            hit = newblock([{'k': 'assign', 'p': dest, 'r': _use(_cst('bool', 1, 'true')), 'loc': loc}], {'k': 'goto', 'target': T, 'loc': loc})
            at = {'k': 'switch', 'discr': {'k': 'copy', 'p': _pl(R)}, 'discr_ty': 'bool', 'arms': [[0, nxt]], 'otherwise': hit, 'loc': loc}
        else:
            miss = newblock([{'k': 'assign', 'p': dest, 'r': _use(_cst('bool', 0, 'false')), 'loc': loc}], {'k': 'goto', 'target': T, 'loc': loc})
            at = {'k': 'switch', 'discr': {'k': 'copy', 'p': _pl(R)}, 'discr_ty': 'bool', 'arms': [[0, miss]], 'otherwise': nxt, 'loc': loc}
        j['blocks'][AFT]['term'] = at
        nxt = BB
    j['blocks'][bi]['term'] = {'k': 'goto', 'target': nxt, 'loc': loc}
    return True


def desugar_all(J):
    """Rewrite every body of a facts JSON; closures first (innermost first) so nested adaptors are expanded too."""
    bodies = {b['path']: b for b in J['bodies']}
    order = sorted(J['bodies'], key=lambda b: -b['path'].count('{closure'))
    total = 0
    names = set(BYVAL) | set(BYREF)
    for b in order:
        if any(blk['term']['k'] == 'call' and (blk['term']['callee'].get('path') or '').endswith('IntoIterator::into_iter') for blk in b['blocks']):
            nb = copy.deepcopy(b)
            try:
                n = unroll_array_for(nb)
            except Exception:
                n = 0
            if n:
                b.clear()
                b.update(nb)
                total += n
        if any(blk['term']['k'] == 'call' and blk['term']['callee'].get('trait') == 'core::iter::Extend' for blk in b['blocks']):
            nb = copy.deepcopy(b)
            try:
                n = extend_map(nb, bodies)
            except Exception:
                n = 0
            if n:
                b.clear()
                b.update(nb)
                total += n
        if not any(blk['term']['k'] == 'call' and blk['term']['callee'].get('trait') == 'core::iter::Iterator' and blk['term']['callee'].get('name') in names
                   for blk in b['blocks']):
            continue
        nb = copy.deepcopy(b)
        try:
            n = desugar_body(nb, bodies)
        except Exception:
            continue
        if n:
            b.clear()
            b.update(nb)
            total += n
    return total


# ---------------------------------------------------------------------- `for x in [a, b, ..]` over an array literal
def _succ(t):
    return [x for x in ([t.get('target'), t.get('otherwise')] + [tg for _, tg in t.get('arms', [])]) if x is not None]


def _retarget(t, f):
    t = dict(t)
    if t.get('target') is not None:
        t['target'] = f(t['target'])
    if t.get('otherwise') is not None:
        t['otherwise'] = f(t['otherwise'])
    if 'arms' in t:
        t['arms'] = [[v, f(tg)] for v, tg in t['arms']]
    return t


def _iter_root(j, op, depth=6):
    """the local an `&mut it` argument finally points at (through reborrows)"""
    for _ in range(depth):
        if op.get('k') not in ('move', 'copy'):
            return None
        p = op['p']
        if [x for x in p['pr'] if x != '*']:
            return None
        d = _single_def(j, p['l'])
        if not d or d[0] != 'assign':
            return None
        r = d[1]
        if r.get('k') == 'ref':
            q = r['p']
            if [x for x in q['pr'] if x != '*']:
                return None
            if not q['pr']:
                return q['l']
            op = {'k': 'copy', 'p': {'l': q['l'], 'pr': []}}
            continue
        if r.get('k') == 'use':
            op = r['a']
            continue
        return None
    return None


def unroll_array_for(j, maxn=8):
    """A `for` loop over an array literal of at most maxn elements is the loop body written out once per element.  The loop is
    replaced by that sequence (element k bound where `next()` would have produced it, `continue` edges go on to element k+1,
    edges leaving the loop are kept).  Returns the number of loops rewritten; shapes that are not recognised are left alone."""
    from .thread import _blank_dead
    done = 0
    for bi in range(len(j['blocks'])):
        blocks = j['blocks']
        t = blocks[bi]['term']
        if t['k'] != 'call' or not (t['callee'].get('path') or '').endswith('IntoIterator::into_iter') or len(t['args']) != 1 or t['dest']['pr'] or t.get('target') is None:
            continue
        a = t['args'][0]
        if a.get('k') != 'move' or a['p']['pr']:
            continue
        arr_l = a['p']['l']
        asg = [(si, st) for si, st in enumerate(blocks[bi]['stmts']) if st['k'] == 'assign' and st['p']['l'] == arr_l and not st['p']['pr']]
        d = _single_def(j, arr_l)
        if len(asg) != 1 or not d or d[0] != 'assign' or d[1].get('k') != 'agg' or d[1].get('agg') != 'array':
            continue
        ops = d[1]['ops']
        n = len(ops)
        if not (1 <= n <= maxn):
            continue
        # the iterator local: the destination, or the local it is moved into
        it = t['dest']['l']
        itl = {it}
        nb = blocks[t['target']]
        for st in nb['stmts']:
            if st['k'] == 'assign' and not st['p']['pr'] and st['r'].get('k') == 'use' and st['r']['a'].get('k') == 'move' and st['r']['a']['p'] == {'l': it, 'pr': []}:
                itl.add(st['p']['l'])
        heads = [x for x, blk in enumerate(blocks) if blk['term']['k'] == 'call' and (blk['term']['callee'].get('path') or '').endswith('Iterator::next')
                 and len(blk['term']['args']) == 1 and _iter_root(j, blk['term']['args'][0]) in itl and not blk['term']['dest']['pr']]
        if len(heads) != 1:
            continue
        H = heads[0]
        ht = blocks[H]['term']
        T = ht['target']
        if T is None:
            continue
        nd = ht['dest']['l']
        tb = blocks[T]
        tt = tb['term']
        dd = [st for st in tb['stmts'] if st['k'] == 'assign' and st['r'].get('k') == 'discr' and st['r']['p'] == {'l': nd, 'pr': []} and not st['p']['pr']]
        if tt['k'] != 'switch' or len(dd) != 1 or tt['discr'].get('k') not in ('move', 'copy') or tt['discr']['p'] != dd[0]['p']:
            continue
        arms = dict((v, tg) for v, tg in tt['arms'])
        if 0 not in arms or 1 not in arms:
            continue
        # the loop: blocks reachable from H that reach H again
        fwd, stk = {H}, [H]
        while stk:
            x = stk.pop()
            for y in _succ(blocks[x]['term']):
                if y not in fwd and not blocks[y]['cleanup']:
                    fwd.add(y)
                    stk.append(y)
        preds = {}
        for x, blk in enumerate(blocks):
            for y in _succ(blk['term']):
                preds.setdefault(y, set()).add(x)
        entry = {bi, t['target']} - {H}
        back, stk = {H}, [H]
        while stk:
            x = stk.pop()
            for y in preds.get(x, ()):
                if y in entry:
                    continue        # the way into the loop (it may be nested in another loop)
                if y not in back and y in fwd:
                    back.add(y)
                    stk.append(y)
        L = sorted(fwd & back)
        if T not in L or arms[1] not in L or arms[0] in L or len(L) > 200:
            continue
        # the iterator must not be touched inside the loop other than by the header's next()
        def touches_iter(x):
            blk = blocks[x]
            for st in blk['stmts']:
                if st['k'] == 'assign' and (st['p']['l'] in itl or (isinstance(st['r'].get('p'), dict) and st['r']['p']['l'] in itl and x != H)):
                    return True
            return False
        if any(touches_iter(x) for x in L):
            continue
        loc = t.get('loc')
        # element values, captured where the array is built
        L_ = j['locals']
        ety = None
        import re
        m = re.match(r'^\[(.+); \d+\]$', L_[arr_l].get('ty', ''))
        ety = m.group(1) if m else L_[nd].get('ty', '')
        elts = []
        ins = []
        for k, o in enumerate(ops):
            L_.append({'ty': ety, 'names': [], 'mut': False})
            e = len(L_) - 1
            elts.append(e)
            ins.append({'k': 'assign', 'p': _pl(e), 'r': _use({'k': 'copy', 'p': o['p']} if o.get('k') in ('move', 'copy') else o), 'loc': loc})
        si = asg[0][0]
        blocks[bi]['stmts'] = blocks[bi]['stmts'][:si] + ins + blocks[bi]['stmts'][si:]
        # copies
        base = len(blocks)
        per = len(L)
        idx = {x: i for i, x in enumerate(L)}
        final = base + n * per
        for k in range(n):
            off = base + k * per
            nxt_head = base + (k + 1) * per + idx[H] if k + 1 < n else final

            def f(y, off=off, nxt_head=nxt_head):
                if y == H:
                    return nxt_head
                return off + idx[y] if y in idx else y
            for x in L:
                c = copy.deepcopy(blocks[x])
                if x == H:
                    c['stmts'] = c['stmts'] + [{'k': 'assign', 'p': _pl(nd), 'r': _opt('Some', [{'k': 'copy', 'p': _pl(elts[k])}]), 'loc': loc}]
                    c['term'] = {'k': 'goto', 'target': off + idx[T], 'loc': ht.get('loc')}
                elif x == T:
                    c['term'] = {'k': 'goto', 'target': f(arms[1]), 'loc': tt.get('loc')}
                else:
                    c['term'] = _retarget(c['term'], f)
                c['unrolled_from'] = x
                blocks.append(c)
        # after the last element: next() is None
        fin = {'cleanup': False, 'stmts': [{'k': 'assign', 'p': _pl(nd), 'r': _opt('None', []), 'loc': loc}] + copy.deepcopy(tb['stmts']),
               'term': {'k': 'goto', 'target': arms[0], 'loc': tt.get('loc')}, 'unrolled_from': T}
        blocks.append(fin)
        assert len(blocks) - 1 == final
        # entries
        first = base + idx[H]
        for x in range(base):
            if x in idx:
                continue
            blocks[x]['term'] = _retarget(blocks[x]['term'], lambda y: first if y == H else y)
        _blank_dead(j)
        done += 1
    return done


# ---------------------------------------------------------------------- `vec.extend(it.map(|x| f(x)))`
def extend_map(j, bodies):
    """`v.extend(it.map(g))` with a closure literal g is `for x in it { v.push(g(x)) }`: same calls of g, same pushes, same order
    (Vec's Extend pushes the items one by one as the iterator yields them).  Rewritten to that loop."""
    n = 0
    cd = None
    for bi in range(len(j['blocks'])):
        t = j['blocks'][bi]['term']
        if t['k'] != 'call' or t.get('target') is None:
            continue
        c = t['callee']
        if c.get('trait') != 'core::iter::Extend' or c.get('name') != 'extend' or not (c.get('self_ty') or '').startswith('alloc::vec::Vec<') or len(t['args']) != 2:
            continue
        dstop, m = t['args']
        if m.get('k') != 'move' or m['p']['pr'] or dstop.get('k') not in ('move', 'copy') or dstop['p']['pr']:
            continue
        mb = [x for x, blk in enumerate(j['blocks']) if blk['term']['k'] == 'call' and blk['term']['dest'] == m['p']]
        if len(mb) != 1 or _single_def(j, m['p']['l']) is None:
            continue
        mb = mb[0]
        mt = j['blocks'][mb]['term']
        mc = mt['callee']
        if mc.get('trait') != 'core::iter::Iterator' or mc.get('name') != 'map' or len(mt['args']) != 2 or mt.get('target') is None:
            continue
        it, f = mt['args']
        if f.get('k') not in ('move', 'copy') or f['p']['pr']:
            continue
        if cd is None:
            cd = _closure_defs(j)
        ds = cd.get(f['p']['l'], [])
        if len(ds) != 1 or ds[0] is None or ds[0] not in bodies:
            continue
        cj = bodies[ds[0]]
        if cj['arg_count'] != 2:
            continue
        loc = t['loc']
        L = j['locals']

        def new(ty):
            L.append({'ty': ty, 'names': [], 'mut': True})
            return len(L) - 1

        def newblock(stmts, term):
            j['blocks'].append({'cleanup': False, 'stmts': stmts, 'term': term})
            return len(j['blocks']) - 1
        self_ty = mc.get('self_ty') or '?'
        item_ty = cj['locals'][2]['ty']
        elem_ty = cj['locals'][0]['ty']
        IT = new(self_ty)
        RF = new('&mut ' + self_ty)
        # the map call becomes the binding of the underlying iterator
        j['blocks'][mb]['stmts'] = j['blocks'][mb]['stmts'] + [_asg(IT, _use(it), loc), _asg(RF, {'k': 'ref', 'mut': True, 'p': _pl(IT)}, loc)]
        j['blocks'][mb]['term'] = {'k': 'goto', 'target': mt['target'], 'loc': mt.get('loc')}
        NX = new('core::option::Option<%s>' % item_ty)
        DS = new('isize')
        X = new(item_ty)
        R = new(elem_ty)
        U = new('()')
        dest, T = t['dest'], t['target']
        unr = newblock([], {'k': 'unreachable', 'loc': loc})
        XB = newblock([{'k': 'assign', 'p': dest, 'r': _use(_cst('()', None, '()')), 'loc': loc}], {'k': 'goto', 'target': T, 'loc': loc})
        nc = {'path': 'core::iter::Iterator::next', 'full': '<%s as core::iter::Iterator>::next' % self_ty, 'gargs': [self_ty], 'local': False,
              'name': 'next', 'unsafe': False, 'output': 'core::option::Option<%s>' % item_ty, 'abi': 'Rust', 'trait': 'core::iter::Iterator',
              'self_ty': self_ty, 'resolved_local': False}
        H = newblock([], None)
        SW = newblock([_asg(DS, {'k': 'discr', 'p': _pl(NX), 'of': 'core::option::Option<%s>' % item_ty}, loc)], None)
        j['blocks'][H]['term'] = {'k': 'call', 'callee': nc, 'args': [{'k': 'copy', 'p': _pl(RF)}], 'dest': _pl(NX), 'target': SW, 'unwind': None, 'loc': loc}
        loff = len(L)
        AFT = newblock([], None)
        BB = newblock([], None)
        boff = len(j['blocks'])
        poff = len(j.get('promoted', []))
        for i, l in enumerate(cj['locals']):
            l = dict(l)
            if i <= cj['arg_count']:
                l['names'] = [] if i <= 1 else l.get('names', [])
            L.append(l)
        j['promoted'] = list(j.get('promoted', [])) + list(cj.get('promoted', []))
        for blk in copy.deepcopy(cj['blocks']):
            j['blocks'].append(_remap_block(blk, loff, boff, poff, AFT, _pl(R), loff))
        some0 = [{'dc': 'Some'}, {'f': '0', 'i': 0, 'of': 'core::option::Option', 'ty': item_ty}]
        j['blocks'][BB]['stmts'] = [_asg(X, _use({'k': 'move', 'p': _pl(NX, some0)}), loc),
                                    _asg(loff + 1, _use({'k': 'copy', 'p': f['p']}), loc),
                                    _asg(loff + 2, _use({'k': 'copy', 'p': _pl(X)}), loc)]
        j['blocks'][BB]['term'] = {'k': 'goto', 'target': boff, 'loc': loc}
        j['blocks'][SW]['term'] = {'k': 'switch', 'discr': {'k': 'move', 'p': _pl(DS)}, 'discr_ty': 'isize', 'arms': [[0, XB], [1, BB]], 'otherwise': unr, 'loc': loc}
        vec_ty = c.get('self_ty')
        pc = {'path': 'alloc::vec::Vec::<T, A>::push', 'full': '%s::push' % vec_ty.replace('Vec<', 'Vec::<', 1), 'gargs': [elem_ty, 'alloc::alloc::Global'], 'local': False,
              'name': 'push', 'unsafe': False, 'output': '()', 'abi': 'Rust', 'self_ty': vec_ty}
        j['blocks'][AFT]['term'] = {'k': 'call', 'callee': pc, 'args': [{'k': 'copy', 'p': dstop['p']}, {'k': 'move', 'p': _pl(R)}], 'dest': _pl(U), 'target': H, 'unwind': None, 'loc': loc}
        j['blocks'][bi]['term'] = {'k': 'goto', 'target': H, 'loc': loc}
        j.setdefault('desugared', []).append(['extend/map', ds[0]])
        cd = None
        n += 1
    return n

"""MIR-level inlining of crate-local helper functions that are not part of the rule vocabulary.

A refactoring that extracts a few statements (or a gate) into a new private helper must not change any verdict: every
function that did not exist on the reference tree (rules/vocab.txt) is spliced into its callers before the rules look at
a body. Functions of the vocabulary are never inlined (rules name them as anchors)."""
import copy
import os

from .mir import Body

VERIF = os.path.dirname(os.path.dirname(os.path.abspath(__file__)))
_vocab = None
ANON_HELPER_LOCALS = True


def vocab():
    global _vocab
    if _vocab is None:
        p = os.path.join(VERIF, 'rules', 'vocab.txt')
        _vocab = set(l.rstrip('\n') for l in open(p)) if os.path.exists(p) else set()
    return _vocab


def _pure_single_def(cj, l):
    """local l of a helper has one definition and that definition does not read memory behind a pointer: expanding it where it
    is used cannot move a read across a store (a snapshot such as `let start = self.absolute_pos` keeps its name)"""
    defs = []
    for blk in cj['blocks']:
        for st in blk['stmts']:
            if st['k'] == 'assign' and st['p']['l'] == l:
                if st['p']['pr']:
                    return False
                defs.append(('assign', st['r']))
        t = blk['term']
        if t['k'] == 'call' and t['dest']['l'] == l:
            if t['dest']['pr']:
                return False
            defs.append(('call', t))
    if len(defs) != 1:
        return False
    kind, r = defs[0]
    # only a binding of (a part of) another local's value: `Some(i) => ..`, `let m = cand.0`; a call result may depend on
    # memory through its arguments and stays a named snapshot
    if kind != 'assign' or r.get('k') != 'use':
        return False
    a = r.get('a')
    return isinstance(a, dict) and a.get('k') in ('copy', 'move') and '*' not in a['p']['pr'] and not any(isinstance(x, dict) and 'idx' in x for x in a['p']['pr'])


def _remap_place(p, loff):
    q = {'l': p['l'] + loff, 'pr': []}
    for pr in p['pr']:
        if isinstance(pr, dict) and 'idx' in pr:
            pr = dict(pr)
            pr['idx'] = pr['idx'] + loff
        q['pr'].append(pr)
    return q


def _remap_op(o, loff, poff):
    if o is None:
        return o
    k = o.get('k')
    if k in ('copy', 'move'):
        return {'k': k, 'p': _remap_place(o['p'], loff)}
    if k == 'const' and 'promoted_idx' in o:
        o = dict(o)
        o['promoted_idx'] = o['promoted_idx'] + poff
    return o


def _remap_rvalue(r, loff, poff):
    r = dict(r)
    for key in ('a', 'b'):
        if key in r and isinstance(r[key], dict):
            r[key] = _remap_op(r[key], loff, poff)
    if 'p' in r and isinstance(r['p'], dict):
        r['p'] = _remap_place(r['p'], loff)
    if 'ops' in r:
        r['ops'] = [_remap_op(x, loff, poff) for x in r['ops']]
    return r


def _remap_block(blk, loff, boff, poff, ret_goto, ret_dest, callee_ret_local):
    nb = {'cleanup': blk['cleanup'], 'stmts': []}
    for st in blk['stmts']:
        st = dict(st)
        if st['k'] == 'assign':
            st['p'] = _remap_place(st['p'], loff)
            st['r'] = _remap_rvalue(st['r'], loff, poff)
        elif st['k'] == 'setdiscr':
            st['p'] = _remap_place(st['p'], loff)
        nb['stmts'].append(st)
    t = dict(blk['term'])
    k = t['k']
    bb = lambda x: None if x is None else x + boff
    if k == 'goto':
        t['target'] = bb(t['target'])
    elif k == 'switch':
        t['discr'] = _remap_op(t['discr'], loff, poff)
        t['arms'] = [[v, bb(tg)] for v, tg in t['arms']]
        t['otherwise'] = bb(t['otherwise'])
    elif k == 'drop':
        t['p'] = _remap_place(t['p'], loff)
        t['target'] = bb(t['target'])
        t['unwind'] = bb(t.get('unwind'))
    elif k == 'assert':
        t['cond'] = _remap_op(t['cond'], loff, poff)
        for key in ('len', 'index'):
            if key in t:
                t[key] = _remap_op(t[key], loff, poff)
        t['target'] = bb(t['target'])
        t['unwind'] = bb(t.get('unwind'))
    elif k == 'call':
        t['args'] = [_remap_op(a, loff, poff) for a in t['args']]
        t['dest'] = _remap_place(t['dest'], loff)
        t['target'] = bb(t['target'])
        t['unwind'] = bb(t.get('unwind'))
        if 'indirect' in t['callee']:
            c = dict(t['callee'])
            c['indirect'] = _remap_op(c['indirect'], loff, poff)
            t['callee'] = c
    elif k == 'return':
        # hand the result to the caller's destination and continue after the call
        nb['stmts'].append({'k': 'assign', 'p': ret_dest, 'r': {'k': 'use', 'a': {'k': 'move', 'p': {'l': callee_ret_local, 'pr': []}}}, 'loc': t['loc']})
        if ret_goto is None:
            t = {'k': 'unreachable', 'loc': t['loc']}
        else:
            t = {'k': 'goto', 'target': ret_goto, 'loc': t['loc']}
    nb['term'] = t
    return nb


def _subst_ref_params(j, bi, t, cj, loff, boff):
    from .thread import _walk_places
    nargs = cj['arg_count']
    # parameters assigned inside the helper are left alone
    assigned = set()
    for blk in cj['blocks']:
        for st in blk['stmts']:
            if st['k'] == 'assign' and not st['p']['pr']:
                assigned.add(st['p']['l'])
        tt = blk['term']
        if tt['k'] == 'call' and not tt['dest']['pr']:
            assigned.add(tt['dest']['l'])
    caller_blk = j['blocks'][bi]
    for i, a in enumerate(t['args']):
        if i + 1 > nargs or (i + 1) in assigned:
            continue
        if a.get('k') not in ('move', 'copy') or a['p']['pr']:
            continue
        tl = a['p']['l']
        # the argument temporary: defined once, in the calling block, as a reference to a caller local (possibly through a reborrow)
        target = None
        cur = tl
        for _ in range(3):
            ds = [st for st in caller_blk['stmts'] if st['k'] == 'assign' and st['p'] == {'l': cur, 'pr': []}]
            alld = sum(1 for blk in j['blocks'][:boff] for st in blk['stmts'] if st['k'] == 'assign' and st['p']['l'] == cur and not st['p']['pr']) + \
                sum(1 for blk in j['blocks'][:boff] if blk['term']['k'] == 'call' and blk['term']['dest'] == {'l': cur, 'pr': []})
            if len(ds) != 1 or alld != 1 or ds[0]['r'].get('k') != 'ref':
                break
            rp = ds[0]['r']['p']
            if rp['pr'] == ['*']:
                cur = rp['l']          # reborrow `&mut *r`
                continue
            if not rp['pr'] and rp['l'] > j['arg_count'] and j['locals'][rp['l']].get('names'):
                target = rp['l']
            break
        if target is None:
            continue
        # the caller must not use the reference temporary for anything else
        param = loff + 1 + i

        def f(p, param=param, target=target):
            if p.get('l') == param and p.get('pr') and p['pr'][0] == '*':
                p['l'] = target
                p['pr'] = p['pr'][1:]
        ok = True

        def probe(p, param=param):
            nonlocal ok
            if p.get('l') == param and not (p.get('pr') and p['pr'][0] == '*'):
                ok = False     # the reference itself is used (passed on, compared, ..): keep the indirection
        for blk in j['blocks'][boff:]:
            _walk_places(blk, probe)
        if not ok:
            continue
        for blk in j['blocks'][boff:]:
            _walk_places(blk, f)


def inline_json(facts, j, should_inline, depth, stack):
    """Return a deep-copied body JSON with eligible callees spliced in."""
    j = copy.deepcopy(j)
    if depth <= 0:
        return j
    nblocks = len(j['blocks'])
    for bi in range(nblocks):
        t = j['blocks'][bi]['term']
        if t['k'] != 'call':
            continue
        c = t['callee']
        tgt = None
        if c.get('resolved') in facts.bodies:
            tgt = c['resolved']
        elif c.get('path') in facts.bodies and not c.get('trait'):
            tgt = c['path']
        if tgt is None or tgt in stack or tgt == j['path']:
            continue
        cj0 = facts.bodies[tgt].j
        if not should_inline(j['path'], tgt, cj0):
            continue
        if len(t['args']) != cj0['arg_count']:
            continue
        cj = inline_json(facts, cj0, should_inline, depth - 1, stack | {tgt})
        loff = len(j['locals'])
        boff = len(j['blocks'])
        poff = len(j.get('promoted', []))
        for i, l in enumerate(cj['locals']):
            l = dict(l)
            # locals of a spliced helper are anonymous: no rule can know their names, and a name would stop the term
            # reconstruction at a spelling chosen by the refactoring (single-definition locals expand like temporaries)
            if i <= cj['arg_count'] or (ANON_HELPER_LOCALS and _pure_single_def(cj, i)):
                if l.get('names'):
                    l['helper_names'] = l['names']
                l['names'] = []
            j['locals'].append(l)
        j.setdefault('promoted', [])
        j['promoted'] = list(j['promoted']) + list(cj.get('promoted', []))
        for blk in cj['blocks']:
            j['blocks'].append(_remap_block(blk, loff, boff, poff, t['target'], t['dest'], loff))
        # a parameter that is bound to `&mut <local>` / `&<local>` of the caller and never reassigned in the helper: the helper's
        # accesses `(*p).x` are accesses to that local (so a store through the parameter is a store to the caller's variable)
        _subst_ref_params(j, bi, t, cj, loff, boff)
        # the call site: bind the arguments to the callee's parameter locals and jump in
        for i, a in enumerate(t['args']):
            j['blocks'][bi]['stmts'].append({'k': 'assign', 'p': {'l': loff + 1 + i, 'pr': []}, 'r': {'k': 'use', 'a': a}, 'loc': t['loc']})
        j['blocks'][bi]['term'] = {'k': 'goto', 'target': boff, 'loc': t['loc']}
        j.setdefault('inlined', []).append(tgt)
    return j


def default_policy(caller, callee, cj):
    if callee in vocab():
        return False
    if cj.get('kind') == 'Closure':
        return False
    return len(cj['blocks']) <= 150


def inlined_body(facts, body, policy=default_policy, depth=3, extra=()):
    """extra: vocabulary functions that are spliced in as well (rules that define a step by its effect, not by the name of the
    helper that performs it)"""
    key = ('inl', body.path, tuple(sorted(extra)))
    cache = facts.__dict__.setdefault('_inl_cache', {})
    if key not in cache:
        pol = policy
        if extra:
            ex = set(extra)
            pol = lambda caller, callee, cj: callee in ex or policy(caller, callee, cj)
        j = inline_json(facts, body.j, pol, depth, frozenset([body.path]))
        if j.get('inlined'):
            from .thread import thread_returns
            headers = set(Body(copy.deepcopy(j), facts).loops())
            thread_returns(facts, j, len(body.j['blocks']), headers)
        cache[key] = Body(j, facts) if j.get('inlined') else body
    return cache[key]

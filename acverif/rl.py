"""Rule primitives shared by the per-property rule sets (engines E2, E4, E5)."""
import re

from .mir import short, subterms, tstr, affine, affine_str, strip_casts


# ---------------------------------------------------------------- term tests
def is_call(t, pat):
    return isinstance(t, tuple) and t[0] == 'call' and re.search(pat, short(t[1])) is not None


def peel(t):
    """Strip transparent conversions (Into/From/AsRef/Deref/clone) and `?`."""
    while isinstance(t, tuple) and t[0] in ('conv',):
        t = t[2]
    return t


def peel_all(t):
    while isinstance(t, tuple) and t[0] in ('conv', 'try'):
        t = t[2] if t[0] == 'conv' else t[1]
    return t


def is_var(t, name=None):
    return isinstance(t, tuple) and t[0] == 'v' and (name is None or t[1] == name)


def is_field(t, field, base=None):
    if not (isinstance(t, tuple) and t[0] == 'f' and t[2] == field):
        return False
    return base is None or base(t[1])


def self_field(t, *fields):
    """t is self.f1.f2..."""
    for f in reversed(fields):
        if not (isinstance(t, tuple) and t[0] == 'f' and t[2] == f):
            return False
        t = t[1]
    return is_var(t, 'self')


def find_calls(t, pat):
    return [s for s in subterms(t) if is_call(s, pat)]


def mentions(t, pred):
    return any(pred(s) for s in subterms(t))


def is_agg(t, adt_pat=None, variant=None):
    return isinstance(t, tuple) and t[0] == 'agg' and (adt_pat is None or re.search(adt_pat, str(t[1]))) and (variant is None or t[2] == variant)


def is_const(t, val=None):
    return isinstance(t, tuple) and t[0] == 'c' and (val is None or t[1] == val)


def is_named_const(t, pat):
    return isinstance(t, tuple) and t[0] == 'k' and re.search(pat, t[1]) is not None


# ---------------------------------------------------------------- CFG tests
def bool_gates(body, pred):
    """Boolean switches whose (negation-normalised) condition satisfies pred.
    Returns [(block, cond_term, true_edges, false_edges)] with edges as (from, to)."""
    out = []
    for b, sc in body.switches():
        if sc[0] != 'bool':
            continue
        if pred(sc[1]):
            out.append((b, sc[1], [(b, t) for t in sc[2]], [(b, t) for t in sc[3]]))
            continue
        if sc[1][0] == 'v':
            # a named single-definition boolean (`let filled = ..; if !filled`)
            x = expand_vars(body, sc[1])
            neg = False
            while x[0] == 'un' and x[1] == 'Not':
                x = x[2]
                neg = not neg
            if x != sc[1] and pred(x):
                te, fe = [(b, t) for t in sc[2]], [(b, t) for t in sc[3]]
                out.append((b, x, fe, te) if neg else (b, x, te, fe))
                continue
        if sc[1][0] in ('t', 'v'):
            # the tested boolean was computed into a temporary on several paths (`a && b`, an inlined bool helper)
            for db, term, te, fe in body.virtual_conds(b):
                if pred(term):
                    out.append((b, term, te, fe))
    return out


def try_gates(body, pred):
    """`X?` sites: switches on discr(Try::branch(X)) with pred(X). Returns
    [(block, X, continue_edges, break_edges)]."""
    out = []
    for b, sc in body.switches():
        if sc[0] != 'int':
            continue
        t = sc[1]
        if t[0] == 'discr' and is_call(t[1], r'Try::branch$'):
            x = t[1][2][0]
            if pred(x):
                cont = [(b, tg) for v, tg in sc[2] if v == 0]
                brk = [(b, tg) for v, tg in sc[2] if v != 0]
                out.append((b, x, cont, brk))
    return out


def discr_gates(body, pred):
    """Switches on discr(X) (match / if let) with pred(X): [(block, X, {value: target}, otherwise)]."""
    out = []
    for b, sc in body.switches():
        if sc[0] != 'int':
            continue
        t = sc[1]
        if t[0] == 'discr' and pred(t[1]):
            out.append((b, t[1], dict((v, tg) for v, tg in sc[2]), sc[3]))
    return out


def reachable_without(body, dst_blocks, cut_edges, src=0, cut_blocks=()):
    """Is any of dst_blocks reachable from src once cut_edges are removed?"""
    r = body.reach(src, cut_edges=cut_edges, cut_blocks=cut_blocks)
    return bool(set(dst_blocks) & r)


def must_pass(body, dst, via_blocks, src=0):
    """Every path src -> dst passes through one of via_blocks (dst unreachable once they cannot be left)."""
    via = set(via_blocks)
    dst = {dst} if isinstance(dst, int) else set(dst)
    r = body.reach(src, cut_blocks=via)
    return not ((dst - via) & r)


def call_blocks(body, pat):
    return [b for b, t in body.calls(pat)]


def callee_names(body):
    return [short(t['callee'].get('path', '')) for b, t in body.calls()]


def enum_paths(body, src=0, limit=20000):
    """All acyclic paths src -> return for loop-free bodies (list of block lists). None if cyclic/too many."""
    if body.back_edges():
        return None
    out = []
    st = [(src, [src])]
    while st:
        b, p = st.pop()
        if body.blocks[b]['term']['k'] == 'return':
            out.append(p)
            if len(out) > limit:
                return None
            continue
        for s in body.succ(b):
            st.append((s, p + [s]))
    return out


def operand_ty(body, op):
    if op['k'] in ('copy', 'move'):
        p = op['p']
        if not p['pr']:
            return body.locals[p['l']]['ty']
        last = p['pr'][-1]
        if isinstance(last, dict) and 'ty' in last:
            return last['ty']
        return '?'
    return op.get('ty', '?')


def line_of(body, b, idx='term'):
    blk = body.blocks[b]
    if idx == 'term':
        return blk['term']['loc'][1]
    return blk['stmts'][idx]['loc'][1]


# ---------------------------------------------------------------- call graph
class CallGraph:
    """Resolved call graph over the crate. A call to trait item T dispatches to the default body of T
    (path == T) and to every impl body whose trait_item == T; calls with a resolved impl go there."""

    def __init__(self, facts):
        self.facts = facts
        self.by_trait_item = {}
        for p, b in facts.bodies.items():
            ti = b.j.get('trait_item')
            if ti:
                self.by_trait_item.setdefault(ti, []).append(p)
        self._edges = {}

    def targets(self, callee):
        """Possible crate-local bodies for a callee record."""
        out = []
        rp = callee.get('resolved')
        if rp and rp in self.facts.bodies:
            return [rp]
        p = callee.get('path')
        if not p:
            return out
        if p in self.facts.bodies:
            out.append(p)
        if callee.get('trait') and callee.get('local'):
            # unresolved call through a crate-local trait: every local impl may be the target
            out.extend(self.by_trait_item.get(p, []))
        return out

    def callees(self, path):
        if path not in self._edges:
            b = self.facts.bodies[path]
            es = []
            for blk, t in b.calls():
                for tg in self.targets(t['callee']):
                    es.append((blk, tg))
            # closures defined in this body are considered called by it
            for st_b, si, pl, st in b.stores():
                r = st.get('r') if isinstance(st, dict) else None
                if r and r.get('k') == 'agg' and r.get('agg') == 'closure' and r['closure'] in self.facts.bodies:
                    es.append((st_b, r['closure']))
            self._edges[path] = es
        return self._edges[path]

    def reachable(self, roots):
        seen = set(roots)
        st = list(roots)
        while st:
            p = st.pop()
            for _, tg in self.callees(p):
                if tg not in seen:
                    seen.add(tg)
                    st.append(tg)
        return seen

    def callers(self, path):
        out = []
        for p in self.facts.bodies:
            for blk, tg in self.callees(p):
                if tg == path:
                    out.append((p, blk))
        return out


# ---------------------------------------------------------------- decision tables (E4)
def path_conditions(body, path):
    """Branch decisions taken along a block path: [(cond_term, value)] (bool for boolean tests,
    discriminant value or 'otherwise' for integer switches)."""
    conds = []
    for a, b in zip(path, path[1:]):
        sc = body.switch_cond(a)
        if sc is None:
            continue
        if sc[0] == 'bool':
            conds.append((sc[1], b in sc[2]))
        else:
            vals = [v for v, tg in sc[2] if tg == b]
            conds.append((sc[1], vals[0] if vals else 'otherwise'))
    return conds


def path_value(body, path, local=0):
    """Term of the last whole definition of `local` along a block path (None if never defined)."""
    last = None
    for b in path:
        blk = body.blocks[b]
        for st in blk['stmts']:
            if st['k'] == 'assign' and st['p']['l'] == local and not st['p']['pr']:
                last = body.rvalue_term(st['r'], 0, b)
        t = blk['term']
        if t['k'] == 'call' and t['dest']['l'] == local and not t['dest']['pr']:
            last = body.call_term(b, t)
    return last


def decision_table(body):
    """[(conds, outcome_term)] over all paths of a loop-free body, or None."""
    paths = enum_paths(body)
    if paths is None:
        return None
    return [(path_conditions(body, p), path_value(body, p, 0), p) for p in paths]


def eq_cond(t):
    """Recognise an equality test in any of its spellings: returns (a, b, positive) or None."""
    if not isinstance(t, tuple):
        return None
    if t[0] == 'op' and t[1] in ('Eq', 'Ne'):
        return (t[2], t[3], t[1] == 'Eq')
    if t[0] == 'call' and re.search(r'PartialEq::(eq|ne)$', short(t[1])):
        return (t[2][0], t[2][1], short(t[1]).endswith('eq'))
    return None


def variant_index(facts, adt_path, name):
    a = facts.adts.get(adt_path)
    if not a:
        return None
    for i, v in enumerate(a['variants']):
        if v['name'] == name:
            return i
    return None


def variant_name(facts, adt_path, idx):
    a = facts.adts.get(adt_path)
    if not a or not isinstance(idx, int) or idx >= len(a['variants']):
        return None
    return a['variants'][idx]['name']


# ---------------------------------------------------------------- symbolic normalisation (E3)
def rewrite(t, fn):
    """Rewrite of a term: fn(term) -> replacement or None. A term that fn recognises as a whole is replaced as a whole (its
    parts are not rewritten first: an atom such as "the candidate" may contain another atom such as "the cursor"); otherwise
    the parts are rewritten bottom-up and fn is tried on the result."""
    if not isinstance(t, tuple):
        return t
    r0 = fn(t)
    if r0 is not None:
        return r0
    new = []
    for x in t:
        if isinstance(x, tuple):
            new.append(rewrite(x, fn))
        elif isinstance(x, list):
            new.append([rewrite(y, fn) if isinstance(y, tuple) else y for y in x])
        elif isinstance(x, dict):
            new.append({k: (rewrite(v, fn) if isinstance(v, tuple) else v) for k, v in x.items()})
        else:
            new.append(x)
    t2 = tuple(new)
    r = fn(t2)
    return r if r is not None else t2


def expand_vars(body, t, keep=()):
    """Replace single-definition, non-parameter named locals by their definitions. `keep` is a collection of names or a
    predicate on variable terms that are to be left alone."""
    kept = keep if callable(keep) else (lambda x: x[1] in keep)

    def fn(x):
        if x[0] == 'v' and x[2] >= 0 and not kept(x) and not (1 <= x[2] <= body.j['arg_count']):
            y = body.def_term(x[2])
            if y is not None and y != x:
                return expand_vars(body, y, keep)
        if x[0] == 'f' and isinstance(x[1], tuple) and x[1][0] == 'agg':
            # a field of a value that was just built (`let span = a..b; .. span.start`)
            if isinstance(x[1][3], dict) and x[2] in x[1][3]:
                return x[1][3][x[2]]
            if isinstance(x[1][3], list) and x[1][1] == 'tuple' and str(x[2]).isdigit() and int(x[2]) < len(x[1][3]):
                return x[1][3][int(x[2])]
        return None
    return rewrite(t, fn)


def atom(name):
    return ('v', name, -1)


def aff(t):
    """Affine normal form as a canonical string."""
    return affine_str(t)


def cmp_norm(t):
    """Canonical form of a comparison `a OP b`: ('cmp', OP', affine_str(a - b)) with OP' in {'<0','<=0','==0','!=0'}
    after moving everything to one side and fixing the sign so that the first atom has a positive coefficient."""
    if not (isinstance(t, tuple) and t[0] == 'op' and t[1] in ('Lt', 'Le', 'Gt', 'Ge', 'Eq', 'Ne')):
        return None
    op = t[1]
    d = ('op', 'Sub', t[2], t[3])
    c, m = affine(d)
    keys = sorted(m)
    neg = False
    if keys:
        neg = m[keys[0]][0] < 0
    elif c < 0:
        neg = True
    if neg:
        c = -c
        m = {k: (-co, a) for k, (co, a) in m.items()}
        op = {'Lt': 'Gt', 'Le': 'Ge', 'Gt': 'Lt', 'Ge': 'Le', 'Eq': 'Eq', 'Ne': 'Ne'}[op]
    parts = []
    for k in sorted(m):
        co = m[k][0]
        parts.append(('%+d*' % co if co not in (1, -1) else ('+' if co == 1 else '-')) + k)
    if c or not parts:
        parts.append('%+d' % c)
    return ('cmp', op, ' '.join(parts))


def cmp_true_when(t, env):
    """Evaluate a canonical comparison under a total assignment of atoms (dict atom_str -> int)."""
    import operator
    ops = {'Lt': operator.lt, 'Le': operator.le, 'Gt': operator.gt, 'Ge': operator.ge, 'Eq': operator.eq, 'Ne': operator.ne}
    c, m = affine(('op', 'Sub', t[2], t[3]))
    v = c
    for k, (co, a) in m.items():
        if k in env:
            v += co * env[k]
        elif isinstance(a, tuple) and a[0] == 'k' and a[2] is not None:
            v += co * a[2]
        elif isinstance(a, tuple) and a[0] == 'v' and a[1] in env:
            v += co * env[a[1]]
        else:
            return None
    return ops[t[1]](v, 0)


# ---------------------------------------------------------------- reaching definitions (block granularity + in-block order)
def reaching_defs(body, local, blk, idx='term'):
    """Whole definitions of `local` that may reach position (blk, idx): list of (block, idx, kind, obj)."""
    defs = body.defs().get(local, [])
    if not defs:
        return []
    def before(i, j):
        # is stmt index i strictly before j within one block ('term' is last)
        if j == 'term':
            return i != 'term'
        if i == 'term':
            return False
        return i < j
    out = []
    defblocks = {}
    for d in defs:
        defblocks.setdefault(d[0], []).append(d)
    # last def in the same block before idx kills everything else
    same = [d for d in defblocks.get(blk, []) if before(d[1], idx)]
    if same:
        same.sort(key=lambda d: (10**9 if d[1] == 'term' else d[1]))
        return [same[-1]]
    for db, ds in defblocks.items():
        # the last def of the block is the one that leaves it
        ds2 = sorted(ds, key=lambda d: (10**9 if d[1] == 'term' else d[1]))
        last = ds2[-1]
        others = set(defblocks) - {db}
        # does control reach blk from db without passing another defining block?
        r = body.reach_after(db, cut_blocks=others)
        if blk in r:
            out.append(last)
        elif db == blk:
            # defined later in the same block: reaches only around a cycle, covered by reach_after
            pass
    return out


def var_defs_terms(body, local):
    out = []
    for bi, si, kind, obj in body.defs().get(local, []):
        t = body.call_term(bi, obj) if kind == 'call' else body.rvalue_term(obj['r'], 0, bi)
        out.append((bi, si, t))
    return out


# ---------------------------------------------------------------- closure inlining
def inline_closures(facts, term, depth=0):
    """Replace closure aggregates by ('lam', closure_path, [param names], body_term) with captured places substituted."""
    def fn(x):
        if x[0] == 'agg' and x[1] == 'closure' and x[2] in facts.bodies and depth < 4:
            cb = facts.bodies[x[2]]
            caps = [c['name'] for c in cb.j.get('captures', [])]
            ops = x[3]
            ret = cb.local_term(0, expand=True)
            ret = expand_vars(cb, ret)

            def sub(y):
                if y[0] == 'f' and is_var(y[1]) and y[1][2] == 1 and y[2] in caps and caps.index(y[2]) < len(ops):
                    return ops[caps.index(y[2])]
                return None
            ret = rewrite(ret, sub)
            params = [cb.locals[i]['names'][0] if cb.locals[i]['names'] else '_%d' % i for i in range(2, cb.j['arg_count'] + 1)]
            return ('lam', x[2], params, inline_closures(facts, ret, depth + 1))
        return None
    return rewrite(term, fn)


def strip_convs(t):
    def fn(x):
        if x[0] == 'conv':
            return x[2]
        if x[0] == 'cast' and 'IntToInt' in x[1]:
            return x[2]
        return None
    return rewrite(t, fn)


# ---------------------------------------------------------------- finite abstract evaluation of loop-free integer functions (E4)
def ieval(body, env, maxsteps=500):
    """Evaluate a loop-free integer/boolean function for one assignment of its parameters (env: name -> int).
    Only literals, parameters, comparison / arithmetic operators and overflow asserts are understood; raises KeyError otherwise."""
    def val(t):
        t = strip_convs(t)
        k = t[0]
        if k == 'c':
            return t[1]
        if k == 'k' and t[2] is not None:
            return t[2]
        if k == 'v':
            if t[1] in env:
                return env[t[1]]
            d = body.def_term(t[2])
            if d is not None:
                return val(d)
            raise KeyError(t[1])
        if k == 'cast':
            return val(t[2])
        if k == 'un' and t[1] == 'Not':
            return int(not val(t[2]))
        if k == 'op':
            a, c = val(t[2]), val(t[3])
            o = t[1].replace('WithOverflow', '').replace('Unchecked', '')
            f = {'Add': lambda: a + c, 'Sub': lambda: a - c, 'Mul': lambda: a * c, 'Div': lambda: a // c, 'Rem': lambda: a % c,
                 'Shr': lambda: a >> c, 'Shl': lambda: a << c, 'BitAnd': lambda: a & c, 'BitOr': lambda: a | c, 'BitXor': lambda: a ^ c,
                 'Eq': lambda: int(a == c), 'Ne': lambda: int(a != c), 'Lt': lambda: int(a < c), 'Le': lambda: int(a <= c),
                 'Gt': lambda: int(a > c), 'Ge': lambda: int(a >= c)}
            if o not in f:
                raise KeyError(o)
            return f[o]()
        raise KeyError(tstr(t, 60))
    blk, ret = 0, None
    for _ in range(maxsteps):
        for st in body.blocks[blk]['stmts']:
            if st['k'] == 'assign' and st['p']['l'] == 0 and not st['p']['pr']:
                ret = val(body.rvalue_term(st['r'], 0, blk))
        t = body.term(blk)
        if t['k'] == 'return':
            return ret
        if t['k'] == 'switch':
            sc = body.switch_cond(blk)
            if sc[0] == 'bool':
                blk = (sc[2] if val(sc[1]) else sc[3])[0]
            else:
                v = val(sc[1])
                nxt = [tg for x, tg in sc[2] if x == v]
                blk = nxt[0] if nxt else sc[3]
        elif t['k'] in ('goto', 'drop', 'assert'):
            blk = t['target']
        else:
            raise KeyError(t['k'])
    raise KeyError('too many steps')


def negate_cn(cn):
    return ('cmp', {'Lt': 'Ge', 'Le': 'Gt', 'Gt': 'Le', 'Ge': 'Lt', 'Eq': 'Ne', 'Ne': 'Eq'}[cn[1]], cn[2])


def cmp_gates(body, norm, want):
    """Gates whose condition, after `norm` rewriting (term -> atom or None), is the canonical comparison `want` or its
    negation, in any spelling (flipped operands, negated, computed into a boolean temporary, inside an inlined helper).
    Returns [(block, edges taken when `want` holds, edges taken when it does not)]."""
    from .mir import Edge
    out = []

    def consider(blk, term, te, fe):
        cn = cmp_norm(rewrite(term, norm))
        if cn is None:
            return
        if cn == want:
            out.append((blk, te, fe))
        elif negate_cn(cn) == want:
            out.append((blk, fe, te))
    for blk, sc in body.switches():
        if sc[0] != 'bool':
            continue
        consider(blk, sc[1], [Edge(blk, t) for t in sc[2]], [Edge(blk, t) for t in sc[3]])
        if sc[1][0] in ('t', 'v'):
            for db, term, te, fe in body.virtual_conds(blk):
                consider(blk, term, te, fe)
    return out


def result_gates(body, pred):
    """Tests of a Result-valued term X with pred(X), in any spelling: `X?`, `match X { Ok(..) => .., Err(e) => .. }`,
    `if let Err(e) = X { .. }`, `X.is_err()` / `X.is_ok()`. X is matched after expanding single-definition locals.
    Returns [(block, X, ok_edges, err_edges)]."""
    from .mir import Edge
    out = []
    for b, sc in body.switches():
        if sc[0] == 'int' and sc[1][0] == 'discr':
            t = sc[1][1]
            if is_call(t, r'Try::branch$'):
                x = expand_vars(body, t[2][0])
                if pred(x):
                    out.append((b, x, [Edge(b, tg) for v, tg in sc[2] if v == 0], [Edge(b, tg) for v, tg in sc[2] if v != 0]))
                continue
            of = body.switch_discr_type(b) or ''
            if of.startswith('core::result::Result<'):
                x = expand_vars(body, t)
                if pred(x):
                    listed = [v for v, tg in sc[2]]
                    ok = [Edge(b, tg) for v, tg in sc[2] if v == 0]
                    err = [Edge(b, tg) for v, tg in sc[2] if v == 1]
                    live_other = body.blocks[sc[3]]['term']['k'] != 'unreachable'
                    if 0 not in listed and live_other:
                        ok.append(Edge(b, sc[3]))
                    if 1 not in listed and live_other:
                        err.append(Edge(b, sc[3]))
                    out.append((b, x, ok, err))
        elif sc[0] == 'bool':
            c = sc[1]
            if is_call(c, r'core::result::Result::(is_err|is_ok)$'):
                x = expand_vars(body, peel(c[2][0]))
                if pred(x):
                    te = [Edge(b, t0) for t0 in sc[2]]
                    fe = [Edge(b, t0) for t0 in sc[3]]
                    if short(c[1]).endswith('is_ok'):
                        out.append((b, x, te, fe))
                    else:
                        out.append((b, x, fe, te))
    return out


# ---------------------------------------------------------------- role-based resolution of variables (no dependence on names)
def param_of_type(body, ty_pat, nth=0):
    """The nth parameter whose type matches ty_pat, as a variable term (None if absent)."""
    hits = [i for i in range(1, body.j['arg_count'] + 1) if re.search(ty_pat, body.locals[i]['ty'])]
    if len(hits) <= nth:
        return None
    i = hits[nth]
    nm = body.locals[i]['names'][0] if body.locals[i]['names'] else '_%d' % i
    return ('v', nm, i)


def param_at(body, pos):
    """The parameter at 1-based position pos as a variable term."""
    if pos > body.j['arg_count']:
        return None
    nm = body.locals[pos]['names'][0] if body.locals[pos]['names'] else '_%d' % pos
    return ('v', nm, pos)


def var_of_type(body, t, ty_pat):
    return isinstance(t, tuple) and t[0] == 'v' and t[2] >= 0 and re.search(ty_pat, body.locals[t[2]]['ty']) is not None


def user_locals_of_type(body, ty_pat):
    """Named (user) non-parameter locals whose type matches ty_pat."""
    return [i for i, l in enumerate(body.locals) if i > body.j['arg_count'] and l['names'] and re.search(ty_pat, l['ty'])]


def value_roots(body, term, blk, idx='term', _seen=None, _path=0):
    """Where can the value of `term` at (blk, idx) come from? Follows named / multi-definition locals through their
    reaching definitions, copies, conversions, `?` and Some/Ok payload projections. Returns a list of root terms
    (calls, parameters, constants, other expressions).  _path counts payload projections (Some/Ok/Continue .0) that were
    peeled on the way: a definition that builds such a value contributes its payload, one that builds None/Err/Break
    contributes nothing (the projection is not taken on that path)."""
    if _seen is None:
        _seen = set()
    t = term
    for _ in range(50):
        t = peel_all(t)
        if t[0] == 'f' and t[1][0] == 'dc' and t[1][2] in ('Some', 'Ok', 'Continue') and t[2] == '0':
            t = t[1][1]
            _path += 1
            continue
        if is_call(t, r'Try::branch$') and _path:
            t = t[2][0]
            continue
        if t[0] == 'agg' and _path and isinstance(t[3], dict):
            if t[2] in ('Some', 'Ok', 'Continue') and '0' in t[3]:
                t = t[3]['0']
                _path -= 1
                continue
            if t[2] in ('None', 'Err', 'Break'):
                return []
        break
    if t[0] == 'v' and not (1 <= t[2] <= body.j['arg_count']):
        rds = reaching_defs(body, t[2], blk, idx)
        out = []
        for db, di, kind, obj in rds:
            key = (t[2], db, di)
            if key in _seen:
                continue
            _seen.add(key)
            dt = body.call_term(db, obj) if kind == 'call' else body.rvalue_term(obj['r'], 0, db)
            out += value_roots(body, dt, db, di, _seen, _path)
        return out
    if t[0] == 't':
        out = []
        ds = body.defs().get(t[1], [])
        if len(ds) > 1:
            ds = reaching_defs(body, t[1], blk, idx)
        for db, di, kind, obj in ds:
            key = (t[1], db, di)
            if key in _seen:
                continue
            _seen.add(key)
            dt = body.call_term(db, obj) if kind == 'call' else body.rvalue_term(obj['r'], 0, db)
            out += value_roots(body, dt, db, di, _seen, _path)
        return out
    return [t]


# ---------------------------------------------------------------- finite abstract evaluation, general form (E4)
class EvalPanic(Exception):
    pass


class Unsupported(Exception):
    pass


class Eval:
    """Evaluates a loop-free (or boundedly looping) pure function on one assignment of its inputs. `atoms(term)` maps
    input terms (parameters, field paths, getter calls) to integers. Integers are unbounded; overflow asserts of the MIR are
    honoured (a failing assert / panic call raises EvalPanic). Used to decide small arithmetic contracts by enumerating a
    finite grid that covers every relative ordering of the inputs (comparison / difference logic has the small-model property)."""

    PURE = {
        'core::cmp::max': lambda a, b: max(a, b), 'core::cmp::min': lambda a, b: min(a, b),
        'core::cmp::Ord::max': lambda a, b: max(a, b), 'core::cmp::Ord::min': lambda a, b: min(a, b),
        'core::num::saturating_sub': lambda a, b: max(0, a - b),
        'core::num::wrapping_add': lambda a, b: a + b, 'core::num::wrapping_sub': lambda a, b: a - b,
        'core::num::wrapping_mul': lambda a, b: a * b, 'core::num::wrapping_shl': lambda a, b: a << b,
        'core::num::checked_sub': lambda a, b: ('Some', a - b) if a >= b else ('None',),
        'core::num::checked_add': lambda a, b: ('Some', a + b),
        'core::num::checked_mul': lambda a, b: ('Some', a * b),
        'core::num::next_power_of_two': lambda a: 1 if a <= 1 else 1 << (a - 1).bit_length(),
        'alloc::vec::from_elem': lambda x, n: ('vec', x, n),
        'core::convert::TryFrom::try_from': lambda x: ('Ok', x), 'core::convert::TryInto::try_into': lambda x: ('Ok', x),
        # raw pointers are integers
        'core::ptr::const_ptr::add': lambda p, k: p + k, 'core::ptr::mut_ptr::add': lambda p, k: p + k,
        'core::ptr::const_ptr::sub': lambda p, k: p - k, 'core::ptr::mut_ptr::sub': lambda p, k: p - k,
        'core::ptr::const_ptr::cast': lambda p: p, 'core::ptr::mut_ptr::cast': lambda p: p,
        'packed::ext::Pointer::distance': lambda a, b: a - b, 'packed::ext::Pointer::as_usize': lambda a: a,
        'core::num::trailing_zeros': lambda x: (x & -x).bit_length() - 1 if x else 64,
        'core::num::count_ones': lambda x: bin(x).count('1'),
        'core::cmp::PartialEq::eq': lambda a, b: int(a == b), 'core::cmp::PartialEq::ne': lambda a, b: int(a != b),
        'core::cmp::PartialOrd::lt': lambda a, b: int(a < b), 'core::cmp::PartialOrd::le': lambda a, b: int(a <= b),
        'core::cmp::PartialOrd::gt': lambda a, b: int(a > b), 'core::cmp::PartialOrd::ge': lambda a, b: int(a >= b),
        # orderings are -1 / 0 / 1
        'core::cmp::Ord::cmp': lambda a, b: (a > b) - (a < b), 'core::cmp::Ordering::reverse': lambda o: -o,
        'core::cmp::PartialOrd::partial_cmp': lambda a, b: ('Some', (a > b) - (a < b)),
        'core::cmp::Ordering::then': lambda o, p: o if o != 0 else p,
    }
    # the crate's integer newtypes are transparent
    for _ty in ('StateID', 'PatternID', 'SmallIndex'):
        PURE['util::primitives::%s::new' % _ty] = lambda x: ('Ok', x)
        PURE['util::primitives::%s::new_unchecked' % _ty] = lambda x: x
        PURE['util::primitives::%s::from_u32_unchecked' % _ty] = lambda x: x
        PURE['util::primitives::%s::must' % _ty] = lambda x: x
        PURE['util::primitives::%s::one_more' % _ty] = lambda x: x + 1
        for _m in ('as_usize', 'as_u32', 'as_u64', 'as_i32'):
            PURE['util::primitives::%s::%s' % (_ty, _m)] = lambda x: x

    def __init__(self, body, atoms, maxsteps=2000):
        self.b, self.atoms, self.maxsteps = body, atoms, maxsteps
        self.mem = {}

    def val(self, t):
        t0 = t
        if isinstance(t, tuple) and t[0] == 'cast' and len(t) > 3 and 'IntToInt' in str(t[1]) and re.match(r'^u(8|16|32|64)$', str(t[3])):
            # a narrowing `as uN` truncates (decided before the atom lookup: atoms are matched modulo conversions)
            v0 = self.val(t[2])
            if isinstance(v0, int) and v0 >= 0:
                return v0 & ((1 << int(str(t[3])[1:])) - 1)
            return v0
        if isinstance(t, tuple) and t[0] == 'conv':
            return self.val(t[2])       # value-preserving; looked through before the atom lookup so that a narrowing cast below it counts
        a = self.atoms(t)
        if a is not None:
            return a
        if t[0] == 'cast':
            v0 = self.val(t[2])
            # a narrowing `as uN` truncates
            m0 = re.match(r'^u(8|16|32|64)$', str(t[3])) if len(t) > 3 else None
            if m0 and isinstance(v0, int) and 'IntToInt' in str(t[1]) and v0 >= 0:
                return v0 & ((1 << int(m0.group(1))) - 1)
            return v0
        k = t[0]
        if k == 'c':
            return t[1]
        if k == 'k' and t[2] is not None:
            return t[2]
        if k == 'v':
            if t[2] in self.mem:
                return self.mem[t[2]]
            d = self.b.def_term(t[2]) if self.b is not None else None
            if d is not None:
                return self.val(d)
            raise Unsupported('variable %s' % t[1])
        if k == 't':
            if t[1] in self.mem:
                return self.mem[t[1]]
            raise Unsupported('temporary _%d' % t[1])
        if k == 'un' and t[1] == 'Not':
            return int(not self.val(t[2]))
        if k == 'un' and t[1] == 'BitNot':
            return ~self.val(t[2]) & 0xFFFFFFFFFFFFFFFF
        if k == 'un' and t[1] == 'Neg':
            return -self.val(t[2])
        if k == 'op':
            x, y = self.val(t[2]), self.val(t[3])
            o = t[1].replace('WithOverflow', '').replace('Unchecked', '')
            f = {'Add': lambda: x + y, 'Sub': lambda: x - y, 'Mul': lambda: x * y, 'Div': lambda: x // y, 'Rem': lambda: x % y,
                 'Shr': lambda: x >> y, 'Shl': lambda: x << y, 'BitAnd': lambda: x & y, 'BitOr': lambda: x | y, 'BitXor': lambda: x ^ y,
                 'Eq': lambda: int(x == y), 'Ne': lambda: int(x != y), 'Lt': lambda: int(x < y), 'Le': lambda: int(x <= y),
                 'Gt': lambda: int(x > y), 'Ge': lambda: int(x >= y)}
            if o not in f:
                raise Unsupported(o)
            r = f[o]()
            if o == 'Sub' and isinstance(r, int) and r < 0:
                raise EvalPanic('subtraction underflow')
            return r
        if k == 'idx' and isinstance(t[1], tuple) and t[1][0] == 'call' and re.search(r'core::num::to_(le|ne)_bytes$', short(t[1][1])) and len(t[1][2]) == 1:
            # byte k of an integer (little endian; native = little endian on the targets analysed)
            i0 = self.val(t[2])
            x0 = self.val(t[1][2][0])
            if isinstance(i0, int) and isinstance(x0, int) and x0 >= 0:
                return (x0 >> (8 * i0)) & 0xFF
        if k == 'ovf':
            inner = t[1]
            x, y = self.val(inner[2]), self.val(inner[3])
            if inner[1].startswith('Sub'):
                return int(x - y < 0)
            return 0
        if k == 'agg':
            if isinstance(t[3], dict):
                return ('agg', t[1].rsplit('::', 1)[-1], t[2], tuple(sorted((f0, self.val(v)) for f0, v in t[3].items())))
            return ('agg', t[1], t[2], tuple(self.val(v) for v in t[3]))
        if k == 'call':
            nm = short(t[1])
            if nm in self.PURE:
                return self.PURE[nm](*[self.val(x) for x in t[2]])
            m = re.match(r'^util::int::(\w+)::(\w+)$', nm)
            if m and len(t[2]) == 1:
                x = self.val(t[2][0])
                meth = m.group(2)
                if meth.startswith('as_') or meth in ('to_bits', 'from_bits'):
                    return x
                mm = re.match(r'^(low|high)_u(\d+)$', meth)
                if mm and isinstance(x, int):
                    w = int(mm.group(2))
                    return (x & ((1 << w) - 1)) if mm.group(1) == 'low' else ((x >> w) & ((1 << w) - 1))
            if re.search(r'core::option::Option::(unwrap|expect)$', nm):
                v = self.val(t[2][0])
                if isinstance(v, tuple) and v[0] == 'None':
                    raise EvalPanic('unwrap on None')
                return v[1] if isinstance(v, tuple) and v[0] == 'Some' else v
            if re.search(r'core::panicking::', nm):
                raise EvalPanic(nm)
            if re.search(r'PartialEq::(eq|ne)$|PartialOrd::(lt|le|gt|ge)$', nm):
                x, y = self.val(t[2][0]), self.val(t[2][1])
                op = nm.rsplit('::', 1)[1]
                return int({'eq': x == y, 'ne': x != y, 'lt': x < y, 'le': x <= y, 'gt': x > y, 'ge': x >= y}[op])
            raise Unsupported('call %s' % nm)
        if k == 'f' and t[1][0] == 'dc':
            v = self.val(t[1][1])
            if isinstance(v, tuple) and v[0] in ('Some', 'Ok') and t[1][2] == v[0]:
                return v[1]
            if isinstance(v, tuple) and v[0] in ('Some', 'Ok', 'None', 'Err'):
                raise EvalPanic('payload of %s read as %s' % (v[0], t[1][2]))
        if k == 'upd':
            return self.val(t[1])
        if k == 'discr':
            v = self.val(t[1])
            if isinstance(v, tuple) and v[0] in ('Some', 'None'):
                return 1 if v[0] == 'Some' else 0
            if isinstance(v, tuple) and v[0] in ('Ok', 'Err'):
                return 0 if v[0] == 'Ok' else 1
        raise Unsupported(tstr(t0, 80))

    def run(self):
        b = self.b
        blk = 0
        for _ in range(self.maxsteps):
            for st in b.blocks[blk]['stmts']:
                if st['k'] == 'assign' and not st['p']['pr']:
                    l = st['p']['l']
                    multi = len(b.defs().get(l, [])) > 1
                    if l == 0 or multi or b.locals[l]['names']:
                        try:
                            self.mem[l] = self.val(b.rvalue_term(st['r'], 0, blk))
                        except Unsupported:
                            if l == 0:
                                raise
                            self.mem.pop(l, None)
            t = b.term(blk)
            k = t['k']
            if k == 'return':
                return self.mem.get(0)
            if k == 'call':
                ct = b.call_term(blk, t)
                if re.search(r'core::panicking::', short(ct[1])):
                    raise EvalPanic(short(ct[1]))
                d = t['dest']
                if not d['pr']:
                    l = d['l']
                    if l == 0 or len(b.defs().get(l, [])) > 1 or b.locals[l]['names']:
                        try:
                            self.mem[l] = self.val(ct)
                        except Unsupported:
                            if l == 0:
                                raise
                            self.mem.pop(l, None)
                if t['target'] is None:
                    raise EvalPanic('diverging call')
                blk = t['target']
            elif k == 'switch':
                sc = b.switch_cond(blk)
                if sc[0] == 'bool':
                    blk = (sc[2] if self.val(sc[1]) else sc[3])[0]
                else:
                    v = self.val(sc[1])
                    nxt = [tg for x, tg in sc[2] if x == v]
                    blk = nxt[0] if nxt else sc[3]
            elif k == 'assert':
                c = self.val(b.operand_term(t['cond'], 0, blk))
                if bool(c) != bool(t['expected']):
                    raise EvalPanic('assert %s' % t['msg'])
                blk = t['target']
            elif k in ('goto', 'drop'):
                blk = t['target']
            else:
                raise Unsupported(k)
        raise Unsupported('too many steps')


def enum_gates(body, ty_pat, pred=None):
    """Switches on the discriminant of a value whose type matches ty_pat: [(block, term, {variant_value: target}, otherwise)]."""
    out = []
    for b, sc in body.switches():
        if sc[0] != 'int' or sc[1][0] != 'discr':
            continue
        of = body.switch_discr_type(b) or ''
        if not re.search(ty_pat, of):
            continue
        x = expand_vars(body, sc[1][1])
        if pred is not None and not pred(x):
            continue
        out.append((b, x, dict((v, tg) for v, tg in sc[2]), sc[3]))
    return out


def arm_edges(body, gate, value):
    """Edges of an enum gate taken for discriminant `value` (the explicit arm, or `otherwise` when the value is not listed)."""
    from .mir import Edge
    b, x, arms, oth = gate
    if value in arms:
        return [Edge(b, arms[value])]
    if body.blocks[oth]['term']['k'] != 'unreachable':
        return [Edge(b, oth)]
    return []


def other_edges(body, gate, value):
    """Edges of an enum gate NOT taken for discriminant `value`."""
    from .mir import Edge
    b, x, arms, oth = gate
    out = [Edge(b, tg) for v, tg in arms.items() if v != value]
    if value in arms and body.blocks[oth]['term']['k'] != 'unreachable':
        out.append(Edge(b, oth))
    return out


def unwrapped(body, x, keep=()):
    """The value behind any spelling of "the success payload of X": X?, match X { Ok(v) => v, .. }, Some-payloads,
    references and moves are stripped after expanding single-definition variables."""
    x = peel_all(expand_vars(body, x, keep=keep))
    for _ in range(16):
        if x[0] == 'try':
            x = x[1]
        elif x[0] == 'f' and x[1][0] == 'dc' and x[1][2] in ('Ok', 'Continue', 'Some') and x[2] == '0':
            x = x[1][1]
        elif is_call(x, r'Try::branch$'):
            x = x[2][0]
        else:
            y = peel_all(x)
            if y == x:
                break
            x = y
            continue
        x = peel_all(x)
    return x

"""Return-shape threading for inlined helpers (tail duplication + folding of known discriminants).

A helper that was extracted from a driver usually reports what happened through an enum (`Ok(None)`, `Some(id)`, a custom
outcome type) and the caller immediately branches on it.  After splicing the helper in, all of its return sites meet in one
join block before that branch, so a path-insensitive look at the CFG sees paths that do not exist (helper returned `None`, caller
took the `Some` arm).  This pass removes exactly those: from every block of inlined code that builds an enum value of a known
variant and jumps on, the straight-line continuation is duplicated for that predecessor and every branch on the known variant
is resolved.  Nothing else changes: the duplicated statements are verbatim copies, unresolved terminators keep all targets, loop
headers are never duplicated, and blocks that end up unreachable are blanked."""
import copy

CORE_VARIANTS = {
    'core::option::Option': ['None', 'Some'],
    'core::result::Result': ['Ok', 'Err'],
    'core::ops::ControlFlow': ['Continue', 'Break'],
    'core::ops::control_flow::ControlFlow': ['Continue', 'Break'],
}
MAXCHAIN = 24


def _variants(facts, adt):
    if adt in CORE_VARIANTS:
        return CORE_VARIANTS[adt]
    a = facts.adts.get(adt)
    if a and a.get('kind') == 'Enum' and all(v.get('explicit_discr') is False for v in a['variants']):
        return [v['name'] for v in a['variants']]
    return None


class Shape:
    __slots__ = ('adt', 'variant', 'vidx', 'nested', 'ops')

    def __init__(self, adt, variant, vidx, nested=None, ops=None):
        self.adt, self.variant, self.vidx, self.nested = adt, variant, vidx, nested or {}
        self.ops = list(ops) if ops is not None else []      # the operands the value was built from (None once stale)


def _kill(env, l):
    """local l is (re)assigned: operands of known values that read it are stale"""
    seen = set()

    def walk(s):
        if not isinstance(s, Shape) or id(s) in seen:
            return
        seen.add(id(s))
        for i, o in enumerate(s.ops):
            if isinstance(o, dict) and o.get('k') in ('copy', 'move') and (o['p']['l'] == l or any(isinstance(x, dict) and x.get('idx') == l for x in o['p']['pr'])):
                s.ops[i] = None
        for x in s.nested.values():
            walk(x)
    for v in list(env.values()):
        walk(v)


def _resolve_op(env, place):
    """the operand a read of `place` yields when the base local holds a known value: (B as V).i -> the i-th operand B was built
    from (remaining projections are applied to it)"""
    s = env.get(place['l'])
    pr = list(place['pr'])
    op = None
    while pr:
        if not (isinstance(s, Shape) and len(pr) >= 2 and isinstance(pr[0], dict) and 'dc' in pr[0] and isinstance(pr[1], dict) and 'f' in pr[1]):
            break
        if pr[0]['dc'] != s.variant:
            return None
        i = pr[1]['i']
        op = s.ops[i] if i < len(s.ops) else None
        s = s.nested.get(i)
        pr = pr[2:]
        if op is None:
            return None
        if s is None:
            break
    if op is None:
        return None
    if not pr:
        return op
    if op.get('k') in ('copy', 'move'):
        return {'k': 'copy', 'p': {'l': op['p']['l'], 'pr': list(op['p']['pr']) + pr}}
    return None


def _whole(o):
    return o['p']['l'] if o and o.get('k') in ('copy', 'move') and not o['p']['pr'] else None


def _resolve(env, place):
    """shape (or int) of a place under env, following (downcast, field) pairs"""
    s = env.get(place['l'])
    pr = list(place['pr'])
    while pr and isinstance(s, Shape):
        if len(pr) >= 2 and isinstance(pr[0], dict) and 'dc' in pr[0] and isinstance(pr[1], dict) and 'f' in pr[1]:
            if pr[0]['dc'] != s.variant:
                return None
            s = s.nested.get(pr[1]['i'])
            pr = pr[2:]
        else:
            return None
    return s if not pr else None


def _step_stmt(facts, env, st):
    k = st['k']
    if k == 'setdiscr':
        env.pop(st['p']['l'], None)
        _kill(env, st['p']['l'])
        return
    if k != 'assign':
        return
    p, r = st['p'], st['r']
    if p['pr']:
        if '*' not in p['pr'][:1]:
            env.pop(p['l'], None)
            _kill(env, p['l'])
        else:
            # a store through a pointer: anything whose address was taken is already out of env
            pass
        return
    a = p['l']
    _kill(env, a)
    rk = r.get('k')
    new = None
    if rk == 'agg' and r.get('agg') == 'adt' and r.get('variant') is not None:
        vs = _variants(facts, r['adt'])
        if vs and r['variant'] in vs:
            nested = {}
            for i, o in enumerate(r.get('ops', [])):
                if o and o.get('k') in ('copy', 'move'):
                    s = _resolve(env, o['p'])
                    if s is not None:
                        nested[i] = s
            new = Shape(r['adt'], r['variant'], vs.index(r['variant']), nested, r.get('ops', []))
    elif rk == 'use' and r['a'].get('k') in ('copy', 'move'):
        new = _resolve(env, r['a']['p'])
    elif rk == 'discr':
        s = _resolve(env, r['p'])
        if isinstance(s, Shape):
            new = s.vidx
    elif rk in ('ref', 'addr') and isinstance(r.get('p'), dict):
        if r.get('mut') or rk == 'addr':
            env.pop(r['p']['l'], None)
            _kill(env, r['p']['l'])
    if new is None:
        env.pop(a, None)
    else:
        env[a] = new


def _adt_of(ty):
    return ty.split('<')[0] if ty else None


def _call_shape(facts, env, t):
    """shape of the destination of a call terminator whose outcome is determined by env (Try::branch / from_residual)"""
    c = t['callee']
    path = c.get('path') or ''
    if t['dest']['pr']:
        return None
    if path.endswith('Try::branch') and len(t['args']) == 1 and t['args'][0].get('k') in ('copy', 'move'):
        s = _resolve(env, t['args'][0]['p'])
        if isinstance(s, Shape) and s.adt in ('core::result::Result', 'core::option::Option'):
            if s.variant in ('Ok', 'Some'):
                return Shape('core::ops::ControlFlow', 'Continue', 0, {0: s.nested[0]} if 0 in s.nested else {})
            return Shape('core::ops::ControlFlow', 'Break', 1)
    if path.endswith('FromResidual::from_residual'):
        adt = _adt_of(c.get('output'))
        if adt == 'core::result::Result':
            return Shape(adt, 'Err', 1)
        if adt == 'core::option::Option':
            return Shape(adt, 'None', 0)
    return None


def _switch_target(env, t):
    v = None
    o = t['discr']
    if o.get('k') in ('copy', 'move'):
        v = _resolve(env, o['p'])
    if not isinstance(v, int) or isinstance(v, bool):
        return None
    for val, tg in t['arms']:
        if val == v:
            return tg
    return t['otherwise']


def thread_returns(facts, j, first_inlined, headers):
    """j: inlined body JSON (modified in place). Seeds are blocks >= first_inlined."""
    blocks = j['blocks']
    n0 = len(blocks)
    changed = False
    for bi in range(first_inlined, n0):
        blk = blocks[bi]
        if blk['cleanup']:
            continue
        t = blk['term']
        env = {}
        for st in blk['stmts']:
            _step_stmt(facts, env, st)
        if t['k'] == 'goto':
            nxt = t['target']
        elif t['k'] == 'call' and t.get('target') is not None:
            s = _call_shape(facts, {}, t)
            if s is None:
                continue
            env = {t['dest']['l']: s}
            nxt = t['target']
        else:
            continue
        if not any(isinstance(v, Shape) for v in env.values()):
            continue
        # walk the continuation
        chain = []          # (orig block, cloned block json, resolved?)
        seen = set()
        resolved_at = -1
        keep_to = -1
        final = nxt
        while len(chain) < MAXCHAIN:
            x = final
            if x is None or x >= n0 or x in seen or x in headers or blocks[x]['cleanup'] or x == bi:
                break
            xb = blocks[x]
            e2 = dict(env)
            cstmts = []
            rewrote = False
            for st in xb['stmts']:
                cs = copy.deepcopy(st)
                if cs['k'] == 'assign' and cs['r'].get('k') == 'use' and cs['r']['a'].get('k') in ('copy', 'move') and cs['r']['a']['p']['pr']:
                    # a payload read of a value whose construction is known on this path: read the operand it was built from
                    op = _resolve_op(e2, cs['r']['a']['p'])
                    if op is not None:
                        cs['r'] = {'k': 'use', 'a': ({'k': 'copy', 'p': op['p']} if op.get('k') in ('copy', 'move') else op)}
                        rewrote = True
                cstmts.append(cs)
                _step_stmt(facts, e2, st)
            xt = xb['term']
            k = xt['k']
            if k == 'goto':
                tg, res = xt['target'], False
            elif k == 'drop':
                e2.pop(xt['p']['l'], None)
                _kill(e2, xt['p']['l'])
                tg, res = xt['target'], False
            elif k == 'switch':
                tg = _switch_target(e2, xt)
                res = True
                if tg is None:
                    break
            elif k == 'call' and xt.get('target') is not None:
                s = _call_shape(facts, e2, xt)
                if s is None:
                    break
                _kill(e2, xt['dest']['l'])
                e2[xt['dest']['l']] = s
                tg, res = xt['target'], False
            else:
                break
            c = copy.deepcopy(xb)
            c['stmts'] = cstmts
            chain.append((x, c, k))
            if res:
                c['term'] = {'k': 'goto', 'target': tg, 'loc': xt.get('loc')}
                resolved_at = len(chain) - 1
            elif rewrote and resolved_at >= 0:
                # an arm that reads the payload of the value just branched on: keep the copy that reads the operand directly
                keep_to = len(chain) - 1
            seen.add(x)
            env = e2
            final = tg
        if resolved_at < 0:
            continue
        chain = chain[:max(resolved_at, keep_to) + 1]
        # locals that live entirely inside the duplicated stretch get a private copy per duplicate, so that a variable bound in
        # the arm (`Resume(next) => at = next`) keeps a single definition instead of one per predecessor
        origs = {x for x, c, k in chain}
        assigned = set()
        for x, c, k in chain:
            for st in c['stmts']:
                if st['k'] == 'assign' and not st['p']['pr']:
                    assigned.add(st['p']['l'])
        if assigned:
            outside = _locals_referenced(j, [i for i in range(len(blocks)) if i not in origs and not (blocks[i].get('threaded_from') in origs)])
            private = {l for l in assigned if l not in outside and l > j['arg_count'] and l != 0}
            if private:
                ren = {}
                for l in sorted(private):
                    nl = dict(j['locals'][l])
                    j['locals'].append(nl)
                    ren[l] = len(j['locals']) - 1
                for x, c, k in chain:
                    _rename_locals(c, ren)
        # materialise: clone i continues in clone i+1; the last one jumps to the resolved (original) target
        base = len(blocks)
        for i, (x, c, k) in enumerate(chain):
            if i + 1 < len(chain):
                c['term'] = dict(c['term'])
                c['term']['target'] = base + i + 1
            c['threaded_from'] = x
            blocks.append(c)
        blk['term'] = dict(t)
        blk['term']['target'] = base
        changed = True
    if changed:
        _blank_dead(j)
    return changed


def _walk_places(blk, f):
    """apply f to every place dict of a block (statements and terminator)"""
    def op(o):
        if isinstance(o, dict) and o.get('k') in ('copy', 'move'):
            f(o['p'])
    for st in blk['stmts']:
        if st['k'] == 'assign':
            f(st['p'])
            r = st['r']
            for key in ('a', 'b'):
                if isinstance(r.get(key), dict):
                    op(r[key])
            if isinstance(r.get('p'), dict):
                f(r['p'])
            for o in r.get('ops', []) or []:
                op(o)
        elif st['k'] == 'setdiscr':
            f(st['p'])
        elif isinstance(st.get('l'), int):
            f(st)
    t = blk['term']
    k = t['k']
    if k == 'call':
        for a in t['args']:
            op(a)
        f(t['dest'])
        if 'indirect' in t['callee']:
            op(t['callee']['indirect'])
    elif k == 'switch':
        op(t['discr'])
    elif k == 'drop':
        f(t['p'])
    elif k == 'assert':
        op(t['cond'])
        for key in ('len', 'index'):
            if key in t:
                op(t[key])


def _locals_referenced(j, block_ids):
    out = set()

    def f(p):
        if 'l' in p and isinstance(p['l'], int):
            out.add(p['l'])
        for pr in p.get('pr', []) or []:
            if isinstance(pr, dict) and 'idx' in pr:
                out.add(pr['idx'])
    for i in block_ids:
        _walk_places(j['blocks'][i], f)
    return out


def _rename_locals(blk, ren):
    def f(p):
        if isinstance(p.get('l'), int) and p['l'] in ren:
            p['l'] = ren[p['l']]
        for pr in p.get('pr', []) or []:
            if isinstance(pr, dict) and pr.get('idx') in ren:
                pr['idx'] = ren[pr['idx']]
    _walk_places(blk, f)


def _blank_dead(j):
    blocks = j['blocks']
    succ = lambda t: [x for x in ([t.get('target'), t.get('unwind'), t.get('otherwise')] + [tg for _, tg in t.get('arms', [])]) if x is not None]
    seen, st = {0}, [0]
    while st:
        x = st.pop()
        for y in succ(blocks[x]['term']):
            if y not in seen:
                seen.add(y)
                st.append(y)
    for i, b in enumerate(blocks):
        if i not in seen and not b['cleanup']:
            b['stmts'] = []
            b['term'] = {'k': 'unreachable', 'loc': b['term'].get('loc')}
